// Package c17: the language server's document copy (proxy.Document / Server.DidOpen / Server.DidChange)
// against the extracted line-array model and the extracted byte-splice specification.
package c17

import (
	"context"
	"fmt"
	"io"
	"log/slog"
	"math"
	"strconv"
	"strings"

	"github.com/a-h/templ/cmd/templ/lspcmd/proxy"
	"github.com/a-h/templ/generator"
	lsp "github.com/a-h/templ/lsp/protocol"
	parser "github.com/a-h/templ/parser/v2"

	"verifharness/internal/core"
	"verifharness/internal/drv"
	"verifharness/internal/rng"
)

func init() { core.Register("C17", Run) }

var quiet = slog.New(slog.NewTextHandler(io.Discard, &slog.HandlerOptions{Level: slog.Level(100)}))

// chg is one content change (or a didOpen) as the editor sends it.
type chg struct {
	Kind           string `json:"kind"` // "0" full replace (nil range), "1" ranged, "2" didOpen; "a"/"b" = "0"/"1" inside a multi-change didChange
	SL, SC, EL, EC uint32
	Text           string `json:"text"`
}

func (c chg) String() string {
	switch c.Kind {
	case "0", "a":
		return fmt.Sprintf("full-replace %q", c.Text)
	case "2":
		return fmt.Sprintf("didOpen %q", c.Text)
	}
	return fmt.Sprintf("%d:%d-%d:%d %q", c.SL, c.SC, c.EL, c.EC, c.Text)
}

func (c chg) args() [][]byte {
	n := func(x uint32) []byte { return []byte(strconv.FormatUint(uint64(x), 10)) }
	return [][]byte{[]byte(c.Kind), n(c.SL), n(c.SC), n(c.EL), n(c.EC), []byte(c.Text)}
}

func (c chg) ranged() bool { return c.Kind == "1" || c.Kind == "b" }

func (c chg) lspChange() lsp.TextDocumentContentChangeEvent {
	if !c.ranged() {
		return lsp.TextDocumentContentChangeEvent{Text: c.Text}
	}
	return lsp.TextDocumentContentChangeEvent{Text: c.Text, Range: &lsp.Range{
		Start: lsp.Position{Line: c.SL, Character: c.SC}, End: lsp.Position{Line: c.EL, Character: c.EC}}}
}

// implApply drives the real Document.Apply; a panic is an observable outcome.
func implApply(d *proxy.Document, c chg) (out string) {
	defer func() {
		if r := recover(); r != nil {
			out = fmt.Sprintf("\x00PANIC: %v", r)
		}
	}()
	ev := c.lspChange()
	d.Apply(ev.Range, ev.Text)
	return d.String()
}

// refOffset / refEdit: the harness's own reference of the editor's buffer (plain byte arithmetic). It is used
// to steer generation and to label failures; the verdict comes from the extracted specification.
func refOffset(s string, l, c uint32) int {
	pos := 0
	for i := uint32(0); i < l; i++ {
		j := strings.IndexByte(s[pos:], '\n')
		if j < 0 {
			return len(s)
		}
		pos += j + 1
	}
	end := strings.IndexByte(s[pos:], '\n')
	if end < 0 {
		end = len(s) - pos
	}
	if uint64(c) > uint64(end) {
		return pos + end
	}
	return pos + int(c)
}

func refEdit(s string, c chg) string {
	if !c.ranged() {
		return c.Text
	}
	a, b := refOffset(s, c.SL, c.SC), refOffset(s, c.EL, c.EC)
	if a > len(s) {
		a = len(s)
	}
	return s[:a] + c.Text + s[b:]
}

// shape is the decidable key of a failing single change (matched against known_findings.json).
func shape(before string, c chg, impl string) string {
	if strings.HasPrefix(impl, "\x00PANIC") {
		return "panic"
	}
	if c.ranged() && c.SL == 0 && c.SC == 0 {
		lines := strings.Split(before, "\n")
		last := len(lines[len(lines)-1])
		el, ec := int(c.EL), int(c.EC)
		if uint64(c.EL) >= uint64(len(lines)) {
			el, ec = len(lines)-1, last
		}
		if ec > len(lines[el]) {
			ec = len(lines[el])
		}
		if ec == last && el != len(lines)-1 {
			return "start-0:0-end-col-eq-lastlen"
		}
	}
	return "splice-mismatch"
}

// class labels which branch of Document.Apply a change is expected to take (histogram only).
func class(before string, c chg) string {
	if !c.ranged() {
		if c.Kind == "2" {
			return "didOpen"
		}
		return "full replace (nil range)"
	}
	lines := strings.Split(before, "\n")
	clamped := ""
	if uint64(c.SL) >= uint64(len(lines)) || uint64(c.EL) >= uint64(len(lines)) {
		clamped = ", line beyond document end"
	} else if int(c.SC) > len(lines[c.SL]) || int(c.EC) > len(lines[c.EL]) {
		clamped = ", column beyond line end"
	}
	a, b := refOffset(before, c.SL, c.SC), refOffset(before, c.EL, c.EC)
	switch {
	case a == 0 && b == len(before):
		return "whole-document range" + clamped
	case a == b && c.Text == "":
		return "empty change" + clamped
	case a == b:
		if strings.Contains(c.Text, "\n") {
			return "insert multi-line" + clamped
		}
		return "insert" + clamped
	case c.Text == "":
		if strings.Contains(before[a:b], "\n") {
			return "delete across lines" + clamped
		}
		return "delete within line" + clamped
	default:
		if strings.Contains(before[a:b], "\n") || strings.Contains(c.Text, "\n") {
			return "overwrite multi-line" + clamped
		}
		return "overwrite within line" + clamped
	}
}

type single struct {
	Before string `json:"document"`
	Change string `json:"change"`
	Impl   string `json:"implementation"`
	Want   string `json:"editor"`
}

func Run(c *core.Ctx) {
	c.Rule = "a case is (document, content change); exhaustive: every document over {a, LF} up to the tier's length x every range start<=end with lines and columns 0..len+1 x {\"\", x, LF, x LF y, LF LF}; random: documents up to ~3000 bytes and histories up to 200 changes mixing inserts, deletes, multi-line replacements, edits at 0:0 and at the end, positions beyond line/document end (up to 2^32-1), full replaces and re-opens; server: the same through Server.DidOpen/DidChange with a stub gopls; wire: the editor's notifications as JSON-RPC frames through protocol.NewServer (stream, conn, Handlers, serverDispatch decoding) into the proxy Server - every sequence of up to 3 (4 thorough) letters of a 15-letter alphabet (ranged edits and full texts with the range member absent or null, towards parseable and unparseable versions, multi-change notifications, didClose/didOpen, a second document) and random sessions of up to 31 notifications over two documents with rangeLength, unknown members and member orders varied. Distinct non-trivial = distinct (document, change) pairs whose change is not a no-op"
	c.Trusted = append(c.Trusted,
		"specification spec/Splice.v (position -> byte offset by walking the text, clamp, splice); columns are bytes",
		"extraction: ExtrOcamlBasic only; ocaml/driver.ml (hex line protocol)",
		"Go harness internal/c17 and the Go toolchain")
	c.Assume = append(c.Assume,
		"columns are byte offsets as the anchored code treats them (the LSP default is UTF-16 units; identical for ASCII lines - non-ASCII lines are outside the property's alphabet, DESIGN section 10)",
		"the editor sends valid ranges (start <= end); line counts and line lengths fit uint32",
		"one document: the per-URI map and its mutex (DocumentContents) are exercised through Server but not modelled beyond a single URI")
	c.Proofs()

	selfTest(c)
	exhaustive(c)
	pairs(c)
	histories(c)
	server(c)
	wire(c)
}

// selfTest: the extracted model with the pre-9226857 predicate differs from the extracted specification on the
// recorded witness, and the implementation agrees with the specification there.
func selfTest(c *core.Ctx) {
	w := chg{Kind: "1", Text: "X"}
	res := c.Model([]drv.Req{{Fn: "step_old", Args: append([][]byte{[]byte("ab\n")}, w.args()...)}})
	ok := len(res) == 1 && len(res[0]) == 2 && string(res[0][0]) == "X" && string(res[0][1]) == "Xab\n"
	impl := implApply(proxy.NewDocument(quiet, "ab\n"), w)
	c.Oblige("side-condition", "regression witness: old isWholeDocument model gives \"X\" for \"ab\\n\" + X at 0:0, specification and implementation give \"Xab\\n\"", ok && impl == "Xab\n", fmt.Sprintf("model_old/spec=%q impl=%q", res, impl))
}

var texts = []string{"", "x", "\n", "x\ny", "\n\n"}

func exhaustive(c *core.Ctx) {
	maxLen := c.N(5, 7)
	c.Extra["exhaustive_max_document_length"] = maxLen
	famT := "document: model = Document.Apply (exhaustive small documents)"
	famP := "document: Document.String() after Apply = editor's splice (exhaustive small documents)"
	tieOK, propOK := true, true
	total := 0
	for n := 0; n <= maxLen; n++ {
		var reqs []drv.Req
		var cases []single
		for bits := 0; bits < 1<<n; bits++ {
			b := make([]byte, n)
			for i := range b {
				if bits>>i&1 == 1 {
					b[i] = '\n'
				} else {
					b[i] = 'a'
				}
			}
			s := string(b)
			m := uint32(n + 2)
			for sl := uint32(0); sl < m; sl++ {
				for sc := uint32(0); sc < m; sc++ {
					for el := sl; el < m; el++ {
						for ec := uint32(0); ec < m; ec++ {
							if el == sl && ec < sc {
								continue
							}
							for _, t := range texts {
								ch := chg{Kind: "1", SL: sl, SC: sc, EL: el, EC: ec, Text: t}
								impl := implApply(proxy.NewDocument(quiet, s), ch)
								want := refEdit(s, ch)
								reqs = append(reqs, drv.Req{Fn: "check", Args: append(append([][]byte{b}, ch.args()...), []byte(impl))})
								cases = append(cases, single{s, ch.String(), impl, want})
								key := ""
								if want != s {
									key = s + "|" + ch.String()
								}
								c.Count(key)
								c.Hist("small: " + class(s, ch))
								if len(c.Samples) < 3 && n == 4 && bits == 5 && sl == 0 && el == 2 && t == "x\ny" && ec == sc {
									c.Sample(cases[len(cases)-1])
								}
							}
						}
					}
				}
			}
		}
		total += len(reqs)
		res := c.Model(reqs)
		for i, r := range res {
			if len(r) != 2 {
				tieOK = false
				continue
			}
			if string(r[1]) != "1" {
				propOK = false
				if c.NFails(famP) < 5 {
					c.Fail("property", famP, shapeOf(cases[i]), cases[i], "the server's copy differs from the editor's text after one change")
				}
			}
			if string(r[0]) != "1" {
				tieOK = false
				if c.NFails(famT) < 3 {
					c.Fail("tie", famT, "", cases[i], "model and implementation differ")
				}
			}
		}
	}
	c.Extra["exhaustive_cases"] = total
	c.Oblige("correspondence", famT, tieOK, "")
	c.Oblige("correspondence", famP, propOK, "")
}

// shapeOf recomputes the shape key from a recorded single case.
func shapeOf(s single) string {
	var ch chg
	ch.Kind = "1"
	if _, err := fmt.Sscanf(s.Change, "%d:%d-%d:%d", &ch.SL, &ch.SC, &ch.EL, &ch.EC); err != nil {
		if strings.HasPrefix(s.Impl, "\x00PANIC") {
			return "panic"
		}
		return "splice-mismatch"
	}
	return shape(s.Before, ch, s.Impl)
}

// pairs: every two-change history on the smallest documents (the second change meets whatever state - slice
// capacity, shared backing arrays - the first one left in Document.Lines).
func pairs(c *core.Ctx) {
	famT := "document: model = Apply;Apply (exhaustive two-change histories on tiny documents)"
	famP := "document: Document.String() = editor's text after two changes (exhaustive on tiny documents)"
	maxLen := c.N(1, 2)
	tieOK, propOK := true, true
	var hs []histCase
	var reqs []drv.Req
	total := 0
	flush := func() {
		judge(c, famT, famP, hs, c.Model(reqs), &tieOK, &propOK)
		hs, reqs = nil, nil
	}
	ranges := func(m uint32, ts []string, f func(chg)) {
		for sl := uint32(0); sl < m; sl++ {
			for sc := uint32(0); sc < m; sc++ {
				for el := sl; el < m; el++ {
					for ec := uint32(0); ec < m; ec++ {
						if el == sl && ec < sc {
							continue
						}
						for _, t := range ts {
							f(chg{Kind: "1", SL: sl, SC: sc, EL: el, EC: ec, Text: t})
						}
					}
				}
			}
		}
	}
	for n := 0; n <= maxLen; n++ {
		for bits := 0; bits < 1<<n; bits++ {
			b := make([]byte, n)
			for i := range b {
				b[i] = "a\n"[bits>>i&1]
			}
			s := string(b)
			ranges(uint32(n+2), texts, func(c1 chg) {
				mid := refEdit(s, c1)
				ranges(4, []string{"", "x", "\n"}, func(c2 chg) {
					d := proxy.NewDocument(quiet, s)
					o1 := implApply(d, c1)
					o2 := o1
					if !strings.HasPrefix(o1, "\x00PANIC") {
						o2 = implApply(d, c2)
					}
					h := histCase{S0: s, Changes: []chg{c1, c2}, Impl: []string{o1, o2}}
					hs = append(hs, h)
					reqs = append(reqs, h.req())
					total++
					key := ""
					if refEdit(mid, c2) != mid {
						key = s + "|" + c1.String() + "|" + c2.String()
					}
					c.Count(key)
				})
				if len(hs) > 100000 {
					flush()
				}
			})
		}
	}
	flush()
	c.Hist("pairs: two-change histories on tiny documents")
	c.Dist["pairs: two-change histories on tiny documents"] = total
	c.Extra["exhaustive_two_change_histories"] = total
	c.Oblige("correspondence", famT, tieOK, "")
	c.Oblige("correspondence", famP, propOK, "")
}

const alphabet = "abc {}<>/=\"\t\r"

func randLine(r *rng.R, max int) string {
	n := r.Intn(max + 1)
	b := make([]byte, n)
	for i := range b {
		b[i] = alphabet[r.Intn(len(alphabet))]
	}
	return string(b)
}

func randText(r *rng.R, maxLines, maxCol int) string {
	n := 1
	if maxLines > 1 && r.Intn(3) == 0 {
		n = 1 + r.Intn(maxLines)
	}
	ls := make([]string, n)
	for i := range ls {
		switch r.Intn(6) {
		case 0:
			ls[i] = ""
		default:
			ls[i] = randLine(r, maxCol)
		}
	}
	s := strings.Join(ls, "\n")
	switch r.Intn(8) {
	case 0:
		s += "\n"
	case 1:
		s = "\n" + s
	}
	return s
}

// randChange draws one change against the editor's current text.
func randChange(r *rng.R, cur string) chg {
	lines := strings.Split(cur, "\n")
	nl := len(lines)
	last := len(lines[nl-1])
	pos := func() (uint32, uint32) { // a position inside the document
		l := r.Intn(nl)
		return uint32(l), uint32(r.Intn(len(lines[l]) + 1))
	}
	far := func() uint32 {
		switch r.Intn(4) {
		case 0:
			return math.MaxUint32
		case 1:
			return math.MaxUint32 - uint32(r.Intn(3))
		case 2:
			return uint32(1<<31) + uint32(r.Intn(5))
		}
		return uint32(r.Intn(6))
	}
	text := func() string {
		switch r.Intn(5) {
		case 0:
			return ""
		case 1:
			return string(alphabet[r.Intn(len(alphabet))])
		}
		return randText(r, 4, 12)
	}
	order := func(c chg) chg {
		if c.EL < c.SL || (c.EL == c.SL && c.EC < c.SC) {
			c.SL, c.SC, c.EL, c.EC = c.EL, c.EC, c.SL, c.SC
		}
		return c
	}
	c := chg{Kind: "1"}
	switch r.Intn(16) {
	case 0, 1, 2: // typing: insert at a position
		c.SL, c.SC = pos()
		c.EL, c.EC = c.SL, c.SC
		c.Text = text()
		if c.Text == "" {
			c.Text = "a"
		}
	case 3, 4: // delete a range
		c.SL, c.SC = pos()
		c.EL, c.EC = pos()
	case 5, 6, 7: // replace a range
		c.SL, c.SC = pos()
		c.EL, c.EC = pos()
		c.Text = text()
	case 8: // at the very start; the end column equals the last line's length (the shape fixed by 9226857)
		c.EL = uint32(r.Intn(nl))
		c.EC = uint32(last)
		if r.Bool() {
			c.EL, c.EC = 0, 0
		}
		c.Text = text()
	case 9: // at the very end
		c.SL, c.SC = uint32(nl-1), uint32(last)
		c.EL, c.EC = c.SL, c.SC
		if r.Bool() {
			c.SL, c.SC = pos()
		}
		c.Text = text()
	case 10: // line beyond the document's end
		c.SL, c.SC = pos()
		c.EL, c.EC = uint32(nl)+far(), far()
		if r.Intn(3) == 0 {
			c.SL, c.SC = uint32(nl)+far(), far()
		}
		if c.EL < uint32(nl) { // wrapped
			c.EL = math.MaxUint32
		}
		if c.SL > c.EL || (c.SL >= uint32(nl) && r.Bool()) {
			c.SL, c.SC = c.EL, c.EC
		}
		c.Text = text()
	case 11: // column beyond the line's end
		c.SL, c.SC = pos()
		c.EL, c.EC = pos()
		c = order(c)
		c.EC = uint32(len(lines[c.EL])) + 1 + far()%1000
		if r.Bool() {
			c.SC = uint32(len(lines[c.SL])) + 1 + far()%1000
		}
		if r.Intn(4) == 0 {
			c.EC = math.MaxUint32
		}
		c.Text = text()
	case 12: // full replace
		c = chg{Kind: "0", Text: randText(r, 12, 30)}
	case 13: // a range covering the whole document
		c.EL, c.EC = uint32(nl-1), uint32(last)
		if r.Bool() {
			c.EL, c.EC = uint32(nl)+uint32(r.Intn(3)), uint32(r.Intn(4))
		}
		c.Text = text()
	case 14: // nothing
		c.SL, c.SC = pos()
		c.EL, c.EC = c.SL, c.SC
	case 15: // first/last column of a line, line joins
		l := r.Intn(nl)
		c.SL, c.SC = uint32(l), uint32(len(lines[l]))
		c.EL, c.EC = uint32(l+1), 0
		if r.Bool() {
			c.EL, c.EC = uint32(l), uint32(len(lines[l]))
			c.SC = 0
		}
		c.Text = text()
	}
	return order(c)
}

type histCase struct {
	S0      string
	Changes []chg
	Impl    []string // implementation text after each change ("" and unchecked for kinds a/b)
}

func (h histCase) req() drv.Req {
	args := [][]byte{[]byte(h.S0)}
	for i, ch := range h.Changes {
		args = append(args, ch.args()...)
		args = append(args, []byte(h.Impl[i]))
	}
	return drv.Req{Fn: "hist", Args: args}
}

// judge reads the reply of "hist" and reports the first failing step of each history.
func judge(c *core.Ctx, famT, famP string, hs []histCase, res [][][]byte, tieOK, propOK *bool) {
	for i, r := range res {
		h := hs[i]
		if len(r) != 4 || len(r[0]) != len(h.Changes) || len(r[1]) != len(h.Changes) {
			*tieOK = false
			continue
		}
		// the editor's text before each step, by the harness's reference (equal to the specification's while flags are 1)
		cur := h.S0
		for k, ch := range h.Changes {
			before := cur
			if ch.Kind == "2" {
				cur = ch.Text
			} else {
				cur = refEdit(cur, ch)
			}
			if r[1][k] == '0' {
				*propOK = false
				if c.NFails(famP) < 5 {
					// try to isolate the step as a single change on a fresh document
					one := implApply(proxy.NewDocument(quiet, before), ch)
					if ch.Kind != "2" && one != cur {
						if ch.Kind == "a" || ch.Kind == "b" {
							ch.Kind = map[string]string{"a": "0", "b": "1"}[ch.Kind]
						}
						sb, sch := shrinkSingle(c, before, ch)
						sc := single{sb, sch.String(), implApply(proxy.NewDocument(quiet, sb), sch), refEdit(sb, sch)}
						c.Fail("property", famP, shape(sb, sch, sc.Impl), sc, fmt.Sprintf("step %d of a history of %d changes, reproduced as a single change on a fresh document", k, len(h.Changes)))
					} else {
						c.Fail("property", famP, "history", map[string]any{"opened": h.S0, "changes": strs(h.Changes[:k+1]), "implementation": h.Impl[k], "editor": cur},
							fmt.Sprintf("the server's copy differs from the editor's text after step %d", k))
					}
				}
				break
			}
			if r[0][k] == '0' {
				*tieOK = false
				if c.NFails(famT) < 3 {
					c.Fail("tie", famT, "", map[string]any{"opened": h.S0, "changes": strs(h.Changes[:k+1]), "implementation": h.Impl[k]}, fmt.Sprintf("model and implementation differ at step %d", k))
				}
				break
			}
		}
	}
}

func failsSingle(before string, ch chg) bool {
	return implApply(proxy.NewDocument(quiet, before), ch) != refEdit(before, ch)
}

// shrinkSingle greedily reduces a failing (document, change) pair: chunks of the document and of the replacement
// text are removed and the positions lowered while the implementation still differs from the reference; the result
// is accepted only if the extracted specification also rejects the implementation's result on it.
func shrinkSingle(c *core.Ctx, before string, ch chg) (string, chg) {
	if !failsSingle(before, ch) {
		return before, ch
	}
	b0, c0 := before, ch
	valid := func(x chg) bool { return !x.ranged() || x.SL < x.EL || (x.SL == x.EL && x.SC <= x.EC) }
	cut := func(s string, try func(string) bool) string {
		for size := (len(s) + 1) / 2; size >= 1; size /= 2 {
			for i := 0; i+size <= len(s); {
				cand := s[:i] + s[i+size:]
				if try(cand) {
					s = cand
				} else {
					i += size
				}
			}
		}
		return s
	}
	for round := 0; round < 6; round++ {
		pb, pc := before, ch
		before = cut(before, func(cand string) bool { return failsSingle(cand, ch) })
		ch.Text = cut(ch.Text, func(cand string) bool { x := ch; x.Text = cand; return failsSingle(before, x) })
		for _, f := range []*uint32{&ch.EL, &ch.EC, &ch.SL, &ch.SC} {
			for _, v := range []uint32{0, *f / 2, *f - 1} {
				if v >= *f {
					continue
				}
				x := ch
				old := *f
				*f = v
				if valid(ch) && failsSingle(before, ch) {
					continue
				}
				*f = old
				ch = x
			}
		}
		if before == pb && ch == pc {
			break
		}
	}
	impl := implApply(proxy.NewDocument(quiet, before), ch)
	res := c.Model([]drv.Req{{Fn: "check", Args: append(append([][]byte{[]byte(before)}, ch.args()...), []byte(impl))}})
	if len(res) == 1 && len(res[0]) == 2 && string(res[0][1]) == "0" {
		return before, ch
	}
	return b0, c0
}

func strs(cs []chg) []string {
	r := make([]string, len(cs))
	for i, c := range cs {
		r[i] = c.String()
	}
	return r
}

func histories(c *core.Ctx) {
	famT := "document: model = NewDocument/Apply over random histories"
	famP := "document: Document.String() = editor's text after every change of a random history"
	nHist := c.N(1500, 50000)
	maxEdits := 200
	tieOK, propOK := true, true
	var hs []histCase
	var reqs []drv.Req
	steps := 0
	for i := 0; i < nHist; i++ {
		r := c.Rng
		var s0 string
		switch r.Intn(10) {
		case 0:
			s0 = ""
		case 1:
			s0 = randText(r, 3, 5)
		default:
			s0 = randText(r, 1+r.Intn(120), 40)
			if r.Intn(3) == 0 {
				s0 = randText(r, 120, 40) + "\n" + randText(r, 60, 60)
			}
		}
		n := 1 + r.Intn(maxEdits)
		if r.Intn(4) == 0 {
			n = maxEdits
		}
		h := histCase{S0: s0}
		d := proxy.NewDocument(quiet, s0)
		cur := s0
		for k := 0; k < n; k++ {
			var ch chg
			if r.Intn(60) == 0 {
				ch = chg{Kind: "2", Text: randText(r, 20, 30)}
				d = proxy.NewDocument(quiet, ch.Text)
				h.Impl = append(h.Impl, d.String())
				c.Hist("long: didOpen")
				cur = ch.Text
			} else {
				ch = randChange(r, cur)
				c.Hist("long: " + class(cur, ch))
				out := implApply(d, ch)
				h.Impl = append(h.Impl, out)
				next := refEdit(cur, ch)
				key := ""
				if next != cur {
					key = fmt.Sprintf("h%d.%d", i, k)
				}
				c.Count(key)
				cur = next
				if strings.HasPrefix(out, "\x00PANIC") {
					h.Changes = append(h.Changes, ch)
					break
				}
			}
			h.Changes = append(h.Changes, ch)
			steps++
		}
		if i == 0 && len(h.Changes) > 2 {
			c.Sample(map[string]any{"opened_len": len(h.S0), "first_changes": strs(h.Changes[:3]), "history_length": len(h.Changes)})
		}
		hs = append(hs, h)
		reqs = append(reqs, h.req())
		if len(hs) == 200 || i == nHist-1 {
			judge(c, famT, famP, hs, c.Model(reqs), &tieOK, &propOK)
			hs, reqs = nil, nil
		}
	}
	c.Extra["random_histories"] = nHist
	c.Extra["random_history_steps"] = steps
	c.Oblige("correspondence", famT, tieOK, "")
	c.Oblige("correspondence", famP, propOK, "")
}

// ---- Server.DidOpen / Server.DidChange with a stub gopls ----

type fwd struct{ uri, text string }

type stubTarget struct {
	lsp.Server // nil: any other call panics, which the harness reports
	got        []fwd
	malformed  string
}

func (t *stubTarget) DidOpen(ctx context.Context, p *lsp.DidOpenTextDocumentParams) error {
	t.got = append(t.got, fwd{string(p.TextDocument.URI), p.TextDocument.Text})
	return nil
}
func (t *stubTarget) DidChange(ctx context.Context, p *lsp.DidChangeTextDocumentParams) error {
	if len(p.ContentChanges) != 1 || p.ContentChanges[0].Range != nil {
		t.malformed = fmt.Sprintf("%d changes forwarded / ranged change forwarded", len(p.ContentChanges))
		return nil
	}
	t.got = append(t.got, fwd{string(p.TextDocument.URI), p.ContentChanges[0].Text})
	return nil
}

type stubClient struct{ lsp.Client }

func (stubClient) PublishDiagnostics(ctx context.Context, p *lsp.PublishDiagnosticsParams) error {
	return nil
}

const templURI = "file:///work/view.templ"
const goURI = "file:///work/view_templ.go"

// expectGo is what the proxy must hand to gopls for the editor's text: the generation of that text, or nothing.
func expectGo(text string) (string, bool) {
	tf, err := parser.ParseString(text)
	if err != nil {
		return "", false
	}
	tf.Filepath = templURI
	if _, err := parser.Diagnose(tf); err != nil {
		return "", false
	}
	var sb strings.Builder
	if _, err := generator.Generate(tf, &sb); err != nil {
		return "", false
	}
	return sb.String(), true
}

var seeds = []string{
	"package main\n\ntempl Hello(name string) {\n\t<div class=\"a\">Hello, { name }</div>\n\tif name != \"\" {\n\t\t<p>x</p>\n\t}\n}\n",
	"package view\n\nimport \"fmt\"\n\nvar x = fmt.Sprint(1)\n\ntempl A() {\n\t<ul>\n\t\tfor _, i := range []string{\"a\", \"b\"} {\n\t\t\t<li>{ i }</li>\n\t\t}\n\t</ul>\n\t@B() {\n\t\t<span>child</span>\n\t}\n}\n\ntempl B() {\n\t<div>{ children... }</div>\n}",
	"package p\n\ntempl T() {\n<p>a</p>\n}\n",
	"",
}

// typing draws an edit that tends to keep a templ file parseable.
func typing(r *rng.R, cur string) chg {
	lines := strings.Split(cur, "\n")
	l := r.Intn(len(lines))
	col := r.Intn(len(lines[l]) + 1)
	c := chg{Kind: "1", SL: uint32(l), SC: uint32(col), EL: uint32(l), EC: uint32(col)}
	switch r.Intn(5) {
	case 0:
		c.Text = "\n"
	case 1:
		c.Text = "<b>t</b>"
	case 2: // delete one byte
		if col < len(lines[l]) {
			c.EC++
		} else {
			c.EL, c.EC = c.EL+1, 0
		}
	default:
		c.Text = string("abcxyz 01"[r.Intn(9)])
	}
	return c
}

func server(c *core.Ctx) {
	famT := "server: model = TemplSource copy after DidOpen/DidChange"
	famP := "server: TemplSource copy = editor's text after every notification"
	famG := "server: Go text forwarded to gopls is the generation of the editor's text (or nothing when it does not parse)"
	nHist := c.N(600, 15000)
	tieOK, propOK, genOK := true, true, true
	var hs []histCase
	var reqs []drv.Req
	notes, forwarded := 0, 0
	ctx := lsp.WithClient(context.Background(), stubClient{})
	for i := 0; i < nHist; i++ {
		r := c.Rng
		s0 := seeds[r.Intn(len(seeds))]
		if r.Intn(6) == 0 {
			s0 = randText(r, 10, 20)
		}
		tgt := &stubTarget{}
		srv := proxy.NewServer(quiet, tgt, proxy.NewSourceMapCache(), proxy.NewDiagnosticCache(), true)
		h := histCase{S0: s0}
		cur := s0
		bad := ""
		// one notification, then the checks on what the server holds and what it forwarded
		notify := func(open bool, text string, batch []chg) {
			before := len(tgt.got)
			func() {
				defer func() {
					if rec := recover(); rec != nil {
						bad = fmt.Sprintf("panic: %v", rec)
					}
				}()
				if open {
					srv.DidOpen(ctx, &lsp.DidOpenTextDocumentParams{TextDocument: lsp.TextDocumentItem{URI: templURI, LanguageID: "templ", Version: 1, Text: text}})
				} else {
					p := &lsp.DidChangeTextDocumentParams{}
					p.TextDocument.URI = templURI
					for _, ch := range batch {
						p.ContentChanges = append(p.ContentChanges, ch.lspChange())
					}
					srv.DidChange(ctx, p)
				}
			}()
			notes++
			held := "\x00MISSING"
			if d, ok := srv.TemplSource.Get(templURI); ok {
				held = d.String()
			}
			if bad != "" {
				held = "\x00PANIC: " + bad
			}
			for k := range batch {
				if k == len(batch)-1 {
					h.Impl = append(h.Impl, held)
				} else {
					h.Impl = append(h.Impl, "")
				}
			}
			// forwarded Go text, judged against the editor's text (cur)
			want, ok := expectGo(cur)
			recv := tgt.got[before:]
			switch {
			case tgt.malformed != "":
				bad = tgt.malformed
			case ok && (len(recv) != 1 || recv[0].uri != goURI || recv[0].text != want):
				bad = fmt.Sprintf("editor's text parses but gopls received %d messages / a different Go text", len(recv))
			case !ok && len(recv) != 0 && held == cur:
				bad = "editor's text does not generate but gopls received a Go text"
			}
			if ok {
				forwarded++
				c.Hist("server: notification whose text parses (Go text forwarded)")
			} else {
				c.Hist("server: notification whose text does not parse (nothing forwarded)")
			}
			if bad != "" && held == cur {
				genOK = false
				if c.NFails(famG) < 3 {
					c.Fail("property", famG, "forwarded-go-mismatch", map[string]any{"opened": h.S0, "changes": strs(h.Changes), "editor": cur}, bad)
				}
			}
		}
		// the first didOpen is the history's s0 (checked through the forwarded text and the next steps)
		func() {
			before := len(tgt.got)
			srv.DidOpen(ctx, &lsp.DidOpenTextDocumentParams{TextDocument: lsp.TextDocumentItem{URI: templURI, LanguageID: "templ", Version: 1, Text: s0}})
			want, ok := expectGo(s0)
			recv := tgt.got[before:]
			if ok && (len(recv) != 1 || recv[0].uri != goURI || recv[0].text != want) || !ok && len(recv) != 0 {
				genOK = false
				if c.NFails(famG) < 3 {
					c.Fail("property", famG, "forwarded-go-mismatch", map[string]any{"opened": s0}, "didOpen forwarded something else than the generation of the opened text")
				}
			}
			notes++
		}()
		n := 1 + r.Intn(40)
		for k := 0; k < n && bad == ""; k++ {
			if r.Intn(25) == 0 {
				ch := chg{Kind: "2", Text: seeds[r.Intn(len(seeds))]}
				h.Changes = append(h.Changes, ch)
				cur = ch.Text
				notify(true, ch.Text, []chg{ch})
				c.Count(fmt.Sprintf("s%d.%d", i, k))
				continue
			}
			m := 1
			if r.Intn(3) == 0 {
				m = 1 + r.Intn(3)
			}
			var batch []chg
			for j := 0; j < m; j++ {
				var ch chg
				if r.Intn(3) != 0 {
					ch = typing(r, cur)
				} else {
					ch = randChange(r, cur)
				}
				if j < m-1 {
					if ch.Kind == "0" {
						ch.Kind = "a"
					} else {
						ch.Kind = "b"
					}
				}
				c.Hist("server: " + class(cur, ch))
				cur = refEdit(cur, ch)
				batch = append(batch, ch)
			}
			h.Changes = append(h.Changes, batch...)
			notify(false, "", batch)
			c.Count(fmt.Sprintf("s%d.%d", i, k))
		}
		if i == 0 {
			c.Sample(map[string]any{"server_history_opened": h.S0, "first_changes": strs(h.Changes[:min(3, len(h.Changes))])})
		}
		hs = append(hs, h)
		reqs = append(reqs, h.req())
		if len(hs) == 200 || i == nHist-1 {
			judge(c, famT, famP, hs, c.Model(reqs), &tieOK, &propOK)
			hs, reqs = nil, nil
		}
	}
	c.Extra["server_notifications"] = notes
	c.Extra["server_notifications_forwarded_as_go"] = forwarded
	c.Oblige("correspondence", famT, tieOK, "")
	c.Oblige("correspondence", famP, propOK, "")
	c.Oblige("correspondence", famG, genOK, "")
}
