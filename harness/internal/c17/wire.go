// The wire: the editor's notifications as JSON-RPC frames through the real protocol stack
// (jsonrpc2 stream + conn, protocol.Handlers/ServerHandler/serverDispatch - exactly protocol.NewServer as
// lspcmd.run wires it) into proxy.Server with a stub gopls. Decoding is therefore part of what is checked.
package c17

import (
	"bufio"
	"bytes"
	"context"
	"encoding/json"
	"fmt"
	"io"
	"net"
	"os"
	"os/exec"
	"sort"
	"strconv"
	"strings"
	"sync"
	"time"

	"github.com/a-h/templ/cmd/templ/lspcmd/proxy"
	"github.com/a-h/templ/generator"
	"github.com/a-h/templ/lsp/jsonrpc2"
	lsp "github.com/a-h/templ/lsp/protocol"
	parser "github.com/a-h/templ/parser/v2"

	"verifharness/internal/core"
	"verifharness/internal/drv"
	"verifharness/internal/rng"
)

// wchg is one element of contentChanges as it is serialised.
type wchg struct {
	chg
	RangeMember string // "-" absent, "n" null, "r" present
	RangeLength string // "" absent, "n" null, else decimal
	Extra       int    // 0 none, else which unknown member is added
	Order       int    // member order variant
	Escape      bool   // HTML-escaping JSON string encoder (<) or the plain one
}

// wnote is one notification.
type wnote struct {
	Kind    string // "O" didOpen, "C" didChange, "X" didClose
	URI     string
	Text    string // didOpen
	Changes []wchg
	Extra   int // unknown members at the params / textDocument level
	Version int
}

func jstr(s string, escape bool) string {
	var b bytes.Buffer
	e := json.NewEncoder(&b)
	e.SetEscapeHTML(escape)
	e.Encode(s)
	return strings.TrimRight(b.String(), "\n")
}

func jrange(sl, sc, el, ec uint32) string {
	return fmt.Sprintf(`{"start":{"line":%d,"character":%d},"end":{"line":%d,"character":%d}}`, sl, sc, el, ec)
}

// unknown members an editor (or a newer protocol revision) may add; none is a case variant of a known member
// (encoding/json matches member names case-insensitively, see the assumption recorded in wire()).
var extraMembers = []string{
	`"verifNote":"x"`,
	`"verifRange":` + jrange(9, 9, 9, 9),
	`"verifNested":{"range":` + jrange(0, 0, 0, 1) + `,"text":"zz","rangeLength":3}`,
	`"verifList":[{"range":null},{"text":"q"},7]`,
	`"verifNull":null`,
}

func (w wchg) json() string {
	var ms []string
	switch w.RangeMember {
	case "r":
		ms = append(ms, `"range":`+jrange(w.SL, w.SC, w.EL, w.EC))
	case "n":
		ms = append(ms, `"range":null`)
	}
	switch w.RangeLength {
	case "":
	case "n":
		ms = append(ms, `"rangeLength":null`)
	default:
		ms = append(ms, `"rangeLength":`+w.RangeLength)
	}
	ms = append(ms, `"text":`+jstr(w.Text, w.Escape))
	if w.Extra > 0 {
		ms = append(ms, extraMembers[(w.Extra-1)%len(extraMembers)])
	}
	// member order: a rotation, optionally reversed
	k := w.Order % len(ms)
	ms = append(ms[k:], ms[:k]...)
	if (w.Order/8)%2 == 1 {
		for i, j := 0, len(ms)-1; i < j; i, j = i+1, j-1 {
			ms[i], ms[j] = ms[j], ms[i]
		}
	}
	return "{" + strings.Join(ms, ",") + "}"
}

func (n wnote) method() string {
	switch n.Kind {
	case "O":
		return lsp.MethodTextDocumentDidOpen
	case "X":
		return lsp.MethodTextDocumentDidClose
	}
	return lsp.MethodTextDocumentDidChange
}

// params is the JSON of the notification's params.
func (n wnote) params() string {
	tdExtra, top := "", ""
	switch n.Extra {
	case 1:
		tdExtra = `,"verifTag":{"uri":"file:///elsewhere.templ"}`
	case 2:
		top = `,"verifTop":[1,{"contentChanges":[]}]`
	}
	switch n.Kind {
	case "O":
		return fmt.Sprintf(`{"textDocument":{"uri":%s,"languageId":"templ","version":%d,"text":%s%s}%s}`, jstr(n.URI, false), n.Version, jstr(n.Text, n.Extra == 1), tdExtra, top)
	case "X":
		return fmt.Sprintf(`{"textDocument":{"uri":%s%s}%s}`, jstr(n.URI, false), tdExtra, top)
	}
	cs := make([]string, len(n.Changes))
	for i, w := range n.Changes {
		cs[i] = w.json()
	}
	td := fmt.Sprintf(`"textDocument":{"version":%d,"uri":%s%s}`, n.Version, jstr(n.URI, false), tdExtra)
	cc := `"contentChanges":[` + strings.Join(cs, ",") + `]`
	if n.Extra == 3 {
		return "{" + cc + "," + td + top + "}"
	}
	return "{" + td + "," + cc + top + "}"
}

func (n wnote) frame() string {
	return fmt.Sprintf(`{"jsonrpc":"2.0","method":%q,"params":%s}`, n.method(), n.params())
}

func (n wnote) String() string { return n.frame() }

// wellFormed re-reads the generated params with the generic JSON decoder and checks that they carry exactly the
// members the harness means them to carry (a check of the generator, independent of the protocol structs).
func (n wnote) wellFormed() string {
	var v map[string]any
	d := json.NewDecoder(strings.NewReader(n.params()))
	d.UseNumber()
	if err := d.Decode(&v); err != nil {
		return err.Error()
	}
	td, _ := v["textDocument"].(map[string]any)
	if td == nil || td["uri"] != n.URI {
		return "textDocument.uri"
	}
	switch n.Kind {
	case "O":
		if td["text"] != n.Text {
			return "textDocument.text"
		}
	case "C":
		cc, _ := v["contentChanges"].([]any)
		if len(cc) != len(n.Changes) {
			return "contentChanges length"
		}
		for i, w := range n.Changes {
			m, _ := cc[i].(map[string]any)
			if m == nil || m["text"] != w.Text {
				return "text"
			}
			r, has := m["range"]
			switch w.RangeMember {
			case "-":
				if has {
					return "range present"
				}
			case "n":
				if !has || r != nil {
					return "range not null"
				}
			case "r":
				rm, _ := r.(map[string]any)
				s, _ := rm["start"].(map[string]any)
				e, _ := rm["end"].(map[string]any)
				if s == nil || e == nil || fmt.Sprintf("%v %v %v %v", s["line"], s["character"], e["line"], e["character"]) != fmt.Sprintf("%d %d %d %d", w.SL, w.SC, w.EL, w.EC) {
					return "range numbers"
				}
			}
			for k := range m {
				if k != "range" && k != "rangeLength" && k != "text" && !strings.HasPrefix(k, "verif") {
					return "member " + k
				}
			}
		}
	}
	return ""
}

// args: the notification for the extracted "wire" function (without the observations).
func (n wnote) args() [][]byte {
	a := [][]byte{[]byte(n.Kind), []byte(n.URI)}
	switch n.Kind {
	case "O":
		a = append(a, []byte(n.Text))
	case "C":
		a = append(a, []byte(strconv.Itoa(len(n.Changes))))
		for _, w := range n.Changes {
			x := w.chg.args() // kind, sl, sc, el, ec, text
			a = append(a, []byte(w.RangeMember), x[1], x[2], x[3], x[4], []byte(w.RangeLength), x[5])
		}
	}
	return a
}

// ---- the server side of the pipe ----

type wireTarget struct {
	lsp.Server // nil: any other call panics
	mu         sync.Mutex
	got        []fwd // uri, text; text "\x00close" for didClose
	malformed  string
}

func (t *wireTarget) DidOpen(ctx context.Context, p *lsp.DidOpenTextDocumentParams) error {
	t.mu.Lock()
	defer t.mu.Unlock()
	t.got = append(t.got, fwd{string(p.TextDocument.URI), p.TextDocument.Text})
	return nil
}
func (t *wireTarget) DidChange(ctx context.Context, p *lsp.DidChangeTextDocumentParams) error {
	t.mu.Lock()
	defer t.mu.Unlock()
	if len(p.ContentChanges) != 1 || p.ContentChanges[0].Range != nil {
		t.malformed = fmt.Sprintf("%d changes forwarded / ranged change forwarded", len(p.ContentChanges))
		return nil
	}
	t.got = append(t.got, fwd{string(p.TextDocument.URI), p.ContentChanges[0].Text})
	return nil
}
func (t *wireTarget) DidClose(ctx context.Context, p *lsp.DidCloseTextDocumentParams) error {
	t.mu.Lock()
	defer t.mu.Unlock()
	t.got = append(t.got, fwd{string(p.TextDocument.URI), "\x00close"})
	return nil
}
func (t *wireTarget) Request(ctx context.Context, method string, params any) (any, error) {
	return nil, nil
}

// guard sits between the protocol dispatcher and proxy.Server only to turn a panic of the three document
// notifications into an observation (the handlers run on goroutines of jsonrpc2.AsyncHandler, where a panic
// would take the harness down with it). Everything else is proxy.Server's.
type guard struct {
	*proxy.Server
	mu       sync.Mutex
	panicked string
}

func (g *guard) rec() {
	if r := recover(); r != nil {
		g.mu.Lock()
		g.panicked = fmt.Sprint(r)
		g.mu.Unlock()
	}
}
func (g *guard) DidOpen(ctx context.Context, p *lsp.DidOpenTextDocumentParams) error {
	defer g.rec()
	return g.Server.DidOpen(ctx, p)
}
func (g *guard) DidChange(ctx context.Context, p *lsp.DidChangeTextDocumentParams) error {
	defer g.rec()
	return g.Server.DidChange(ctx, p)
}
func (g *guard) DidClose(ctx context.Context, p *lsp.DidCloseTextDocumentParams) error {
	defer g.rec()
	return g.Server.DidClose(ctx, p)
}

type wireSession struct {
	srv   *guard
	tgt   *wireTarget
	ed    net.Conn // the editor's end
	sconn jsonrpc2.Conn
	wmu   sync.Mutex
	acks  chan int
	id    int
	dead  string
}

func newWireSession() *wireSession {
	a, b := net.Pipe()
	s := &wireSession{tgt: &wireTarget{}, ed: b, acks: make(chan int, 16)}
	s.srv = &guard{Server: proxy.NewServer(quiet, s.tgt, proxy.NewSourceMapCache(), proxy.NewDiagnosticCache(), true)}
	_, s.sconn, _ = lsp.NewServer(context.Background(), s.srv, jsonrpc2.NewStream(a), quiet)
	go s.read()
	return s
}

// read consumes what the server writes to the editor: replies to the sync calls are acknowledged, notifications
// (publishDiagnostics) are dropped, calls are answered with null.
func (s *wireSession) read() {
	rd := bufio.NewReader(s.ed)
	for {
		n := -1
		for {
			line, err := rd.ReadString('\n')
			if err != nil {
				close(s.acks)
				return
			}
			line = strings.TrimSpace(line)
			if line == "" {
				break
			}
			if v, ok := strings.CutPrefix(line, "Content-Length:"); ok {
				n, _ = strconv.Atoi(strings.TrimSpace(v))
			}
		}
		if n < 0 {
			close(s.acks)
			return
		}
		body := make([]byte, n)
		if _, err := io.ReadFull(rd, body); err != nil {
			close(s.acks)
			return
		}
		var m struct {
			ID     *json.RawMessage `json:"id"`
			Method string           `json:"method"`
		}
		if json.Unmarshal(body, &m) != nil {
			continue
		}
		switch {
		case m.Method == "" && m.ID != nil:
			id, _ := strconv.Atoi(string(*m.ID))
			s.acks <- id
		case m.Method != "" && m.ID != nil:
			go s.write(fmt.Sprintf(`{"jsonrpc":"2.0","id":%s,"result":null}`, string(*m.ID)))
		}
	}
}

func (s *wireSession) write(body string) error {
	s.wmu.Lock()
	defer s.wmu.Unlock()
	s.ed.SetWriteDeadline(time.Now().Add(20 * time.Second))
	_, err := io.WriteString(s.ed, fmt.Sprintf("Content-Length: %d\r\n\r\n%s", len(body), body))
	return err
}

// send writes one notification and waits until the server has handled it: requests are handled in order, so
// the reply to a following call (an unknown method, passed on to the stub gopls) means the notification is done.
func (s *wireSession) send(frame string) {
	if s.dead != "" {
		return
	}
	if err := s.write(frame); err != nil {
		s.dead = "write: " + err.Error()
		return
	}
	s.id++
	if err := s.write(fmt.Sprintf(`{"jsonrpc":"2.0","id":%d,"method":"verif/sync","params":{}}`, s.id)); err != nil {
		s.dead = "write: " + err.Error()
		return
	}
	for {
		select {
		case id, ok := <-s.acks:
			if !ok {
				s.dead = "connection closed by the server"
				return
			}
			if id == s.id {
				return
			}
		case <-time.After(20 * time.Second):
			s.dead = "no reply within 20s"
			return
		}
	}
}

func (s *wireSession) close() {
	s.ed.Close()
	s.sconn.Close()
	select {
	case <-s.sconn.Done():
	case <-time.After(5 * time.Second):
	}
}

// held: what the server holds for uri, as the observation string of the extracted "wire" function.
func (s *wireSession) held(uri string) string {
	s.srv.mu.Lock()
	p := s.srv.panicked
	s.srv.mu.Unlock()
	if p != "" {
		return "P" + p
	}
	if s.dead != "" {
		return "P" + s.dead
	}
	if d, ok := s.srv.TemplSource.Get(uri); ok {
		return "T" + d.String()
	}
	return "M"
}

var wireURIs = []string{"file:///work/view.templ", "file:///work/sub/other.templ"}

var goCache = map[string]struct {
	text string
	ok   bool
}{}

// expectGoAt is expectGo for a URI, memoised.
func expectGoAt(uri, text string) (string, bool) {
	k := uri + "\x00" + text
	if v, ok := goCache[k]; ok {
		return v.text, v.ok
	}
	res := func() (string, bool) {
		tf, err := parser.ParseString(text)
		if err != nil {
			return "", false
		}
		tf.Filepath = uri
		if _, err := parser.Diagnose(tf); err != nil {
			return "", false
		}
		var sb strings.Builder
		if _, err := generator.Generate(tf, &sb); err != nil {
			return "", false
		}
		return sb.String(), true
	}
	t, ok := res()
	if len(goCache) > 20000 {
		goCache = map[string]struct {
			text string
			ok   bool
		}{}
	}
	goCache[k] = struct {
		text string
		ok   bool
	}{t, ok}
	return t, ok
}

func goURIOf(u string) string { return strings.TrimSuffix(u, ".templ") + "_templ.go" }

// refBuffers is the harness's own reference of the editor's open buffers (steering and labels only).
type refBuffers map[string]string

func (b refBuffers) apply(n wnote) {
	switch n.Kind {
	case "O":
		b[n.URI] = n.Text
	case "X":
		delete(b, n.URI)
	case "C":
		cur, ok := b[n.URI]
		if !ok {
			return
		}
		for _, w := range n.Changes {
			if w.RangeMember == "r" {
				x := w.chg
				x.Kind = "1"
				cur = refEdit(cur, x)
			} else {
				cur = w.Text
			}
		}
		b[n.URI] = cur
	}
}

func (b refBuffers) obs(u string) string {
	if s, ok := b[u]; ok {
		return "T" + s
	}
	return "M"
}

// wireRun is one session: what the server held for both URIs after every notification, and what it forwarded.
type wireRun struct {
	Notes []wnote
	Obs   [][2]string
	GoBad []string // per notification: "" or why the forwarded Go text is wrong (judged only when the copy is right)
}

func playWire(notes []wnote) wireRun {
	s := newWireSession()
	defer s.close()
	run := wireRun{Notes: notes}
	ref := refBuffers{}
	for _, n := range notes {
		s.tgt.mu.Lock()
		before := len(s.tgt.got)
		s.tgt.mu.Unlock()
		_, wasOpen := ref[n.URI]
		ref.apply(n)
		s.send(n.frame())
		o := [2]string{s.held(wireURIs[0]), s.held(wireURIs[1])}
		run.Obs = append(run.Obs, o)
		s.tgt.mu.Lock()
		recv := append([]fwd(nil), s.tgt.got[before:]...)
		mal := s.tgt.malformed
		s.tgt.mu.Unlock()
		bad := ""
		if o[0] == ref.obs(wireURIs[0]) && o[1] == ref.obs(wireURIs[1]) {
			cur, open := ref[n.URI]
			switch {
			case mal != "":
				bad = mal
			case n.Kind == "X":
				// forwarded didClose is not part of the property
			case !open || (n.Kind == "C" && !wasOpen):
				if len(recv) != 0 {
					bad = "a change for a document that is not open was forwarded"
				}
			default:
				want, ok := expectGoAt(n.URI, cur)
				if ok && (len(recv) != 1 || recv[0].uri != goURIOf(n.URI) || recv[0].text != want) {
					bad = fmt.Sprintf("editor's text parses but gopls received %d messages / a different Go text", len(recv))
				}
				if !ok && len(recv) != 0 {
					bad = "editor's text does not generate but gopls received a Go text"
				}
			}
		}
		run.GoBad = append(run.GoBad, bad)
		if strings.HasPrefix(o[0], "P") {
			break
		}
	}
	run.Notes = notes[:len(run.Obs)]
	return run
}

func (r wireRun) req() drv.Req {
	args := [][]byte{[]byte(wireURIs[0]), []byte(wireURIs[1])}
	for i, n := range r.Notes {
		args = append(args, n.args()...)
		args = append(args, []byte(r.Obs[i][0]), []byte(r.Obs[i][1]))
	}
	return drv.Req{Fn: "wire", Args: args}
}

// failsRef: does the run differ from the harness's reference anywhere (used for shrinking only).
func (r wireRun) failsRef() int {
	ref := refBuffers{}
	for i, n := range r.Notes {
		ref.apply(n)
		if r.Obs[i][0] != ref.obs(wireURIs[0]) || r.Obs[i][1] != ref.obs(wireURIs[1]) {
			return i
		}
	}
	return -1
}

func frames(ns []wnote) []string {
	r := make([]string, len(ns))
	for i, n := range ns {
		r[i] = n.frame()
	}
	return r
}

// ---- generators ----

func posOf(s string, off int) (uint32, uint32) {
	l := strings.Count(s[:off], "\n")
	return uint32(l), uint32(off - (strings.LastIndexByte(s[:off], '\n') + 1))
}

// diffEdit is the single ranged change an editor sends to turn cur into target (common prefix and suffix kept).
func diffEdit(cur, target string) chg {
	p := 0
	for p < len(cur) && p < len(target) && cur[p] == target[p] {
		p++
	}
	q := 0
	for q < len(cur)-p && q < len(target)-p && cur[len(cur)-1-q] == target[len(target)-1-q] {
		q++
	}
	c := chg{Kind: "1", Text: target[p : len(target)-q]}
	c.SL, c.SC = posOf(cur, p)
	c.EL, c.EC = posOf(cur, len(cur)-q)
	return c
}

func ranged(c chg) wchg { c.Kind = "1"; return wchg{chg: c, RangeMember: "r"} }
func fullText(t, member string) wchg {
	return wchg{chg: chg{Kind: "0", Text: t}, RangeMember: member}
}

// the small world of the exhaustive sweep: one parseable template, a parseable variant, two unparseable versions
var wireTexts = []string{
	"package p\n\ntempl T() {\n<p>a</p>\n}\n",
	"package p\n\ntempl T() {\n<p>ab</p>\n<br/>\n}\n",
	"package p\n\ntempl T() {\n<p>a</\n}\n",
	"package p\n\ntempl T( {\n<p>a</p>\n}\n",
}

// wireLetter k, drawn against the reference buffers, is one notification of the exhaustive sweep's alphabet.
func wireLetter(k int, ref refBuffers) (wnote, string) {
	u := wireURIs[0]
	cur, open := ref[u]
	nT := len(wireTexts)
	switch {
	case k < nT: // a ranged edit to text k
		return wnote{Kind: "C", URI: u, Changes: []wchg{ranged(diffEdit(cur, wireTexts[k]))}}, "ranged edit"
	case k < 2*nT: // the full text k, no range member
		return wnote{Kind: "C", URI: u, Changes: []wchg{fullText(wireTexts[k-nT], "-")}}, "full text, range absent"
	case k < 2*nT+2: // the full text, range null
		return wnote{Kind: "C", URI: u, Changes: []wchg{fullText(wireTexts[(k-2*nT)*2], "n")}}, "full text, range null"
	case k == 2*nT+2: // two ranged edits in one notification, through an unparseable version
		c1 := diffEdit(cur, wireTexts[2])
		return wnote{Kind: "C", URI: u, Changes: []wchg{ranged(c1), ranged(diffEdit(refEdit(cur, c1), wireTexts[1]))}}, "batch ranged+ranged"
	case k == 2*nT+3: // a ranged edit then the full text in one notification
		return wnote{Kind: "C", URI: u, Changes: []wchg{ranged(diffEdit(cur, wireTexts[3])), fullText(wireTexts[0], "-")}}, "batch ranged+full"
	case k == 2*nT+4: // the full text then a ranged edit on it
		return wnote{Kind: "C", URI: u, Changes: []wchg{fullText(wireTexts[1], "-"), ranged(diffEdit(wireTexts[1], wireTexts[2]))}}, "batch full+ranged"
	case k == 2*nT+5:
		if open {
			return wnote{Kind: "X", URI: u}, "didClose"
		}
		return wnote{Kind: "O", URI: u, Text: wireTexts[2]}, "didOpen"
	default: // the other document
		u2 := wireURIs[1]
		if c2, ok := ref[u2]; ok {
			return wnote{Kind: "C", URI: u2, Changes: []wchg{ranged(diffEdit(c2, wireTexts[2]))}}, "second document: ranged edit"
		}
		return wnote{Kind: "O", URI: u2, Text: wireTexts[1]}, "second document: didOpen"
	}
}

const wireLetters = 15

func wireRandChange(r *rng.R, cur string) wchg {
	var w wchg
	switch k := r.Intn(20); {
	case k < 9:
		w = ranged(typing(r, cur))
	case k < 12:
		c := randChange(r, cur)
		if c.Kind == "0" {
			w = fullText(c.Text, "-")
		} else {
			w = ranged(c)
		}
	case k < 14: // an editor-style minimal edit towards a known text
		w = ranged(diffEdit(cur, seeds[r.Intn(len(seeds)-1)]))
	default: // the whole text: revert / reload / full-sync fallback
		var t string
		switch r.Intn(5) {
		case 0:
			t = seeds[r.Intn(len(seeds))]
		case 1:
			t = cur
		case 2:
			t = randText(r, 6, 20)
		default: // the text after one more edit, sent whole
			t = refEdit(cur, typing(r, cur))
		}
		m := "-"
		if r.Intn(3) == 0 {
			m = "n"
		}
		w = fullText(t, m)
	}
	switch r.Intn(8) {
	case 0, 1, 2: // rangeLength as editors send it (length of the replaced range), or stale, or null
		if w.RangeMember == "r" {
			a, b := refOffset(cur, w.SL, w.SC), refOffset(cur, w.EL, w.EC)
			w.RangeLength = strconv.Itoa(max(b-a, 0))
		}
	case 3:
		w.RangeLength = strconv.Itoa(r.Intn(50))
	case 4:
		if r.Intn(3) == 0 {
			w.RangeLength = "n"
		}
	}
	if r.Intn(6) == 0 {
		w.Extra = 1 + r.Intn(len(extraMembers))
	}
	w.Order = r.Intn(16)
	w.Escape = r.Bool()
	return w
}

func randWireSession(r *rng.R) []wnote {
	ref := refBuffers{}
	var ns []wnote
	ver := 0
	add := func(n wnote) {
		ver++
		n.Version = ver
		if r.Intn(8) == 0 {
			n.Extra = 1 + r.Intn(3)
		}
		ref.apply(n)
		ns = append(ns, n)
	}
	s0 := seeds[r.Intn(len(seeds))]
	if r.Intn(6) == 0 {
		s0 = randText(r, 10, 20)
	}
	add(wnote{Kind: "O", URI: wireURIs[0], Text: s0})
	n := 1 + r.Intn(30)
	for k := 0; k < n; k++ {
		u := wireURIs[0]
		if r.Intn(4) == 0 {
			u = wireURIs[1]
		}
		cur, open := ref[u]
		switch {
		case !open && r.Intn(12) != 0:
			add(wnote{Kind: "O", URI: u, Text: seeds[r.Intn(len(seeds))]})
		case open && r.Intn(25) == 0:
			add(wnote{Kind: "X", URI: u})
		case open && r.Intn(25) == 0: // re-open without a close
			t := seeds[r.Intn(len(seeds))]
			if r.Bool() {
				t = cur
			}
			add(wnote{Kind: "O", URI: u, Text: t})
		default: // didChange (rarely: for a document that is not open - there is no buffer to edit)
			m := 1
			if r.Intn(3) == 0 {
				m = 1 + r.Intn(4)
			}
			nt := wnote{Kind: "C", URI: u}
			for j := 0; j < m; j++ {
				w := wireRandChange(r, cur)
				nt.Changes = append(nt.Changes, w)
				if w.RangeMember == "r" {
					cur = refEdit(cur, w.chg)
				} else {
					cur = w.Text
				}
			}
			add(nt)
		}
	}
	return ns
}

// ---- the family ----

func wire(c *core.Ctx) {
	famT := "wire: model = TemplSource copies after every JSON notification through protocol.NewServer"
	famP := "wire: TemplSource copies = editor's open buffers after every JSON notification through protocol.NewServer"
	famG := "wire: Go text forwarded to gopls is the generation of the editor's text (or nothing when it does not parse)"
	c.Trusted = append(c.Trusted, "specification spec/SpliceWire.v (a change means what its own JSON members say: range absent or null = whole text; per-URI buffers: didOpen sets, didClose drops)")
	c.Assume = append(c.Assume,
		"wire: unknown JSON members are not case variants of range/rangeLength/text/uri (encoding/json matches member names case-insensitively); numbers are plain unsigned decimals; Initialize is not replayed (the proxy's document path does not depend on it)",
		"wire: notifications are handled one at a time in arrival order (jsonrpc2.AsyncHandler); the harness waits for each before observing")
	tieOK, propOK, genOK, formOK := true, true, true, true

	// self-test: a decoder that reuses the slot of an earlier ranged change is told apart by the specification,
	// and the implementation, through the wire, agrees with the specification on that history.
	{
		t0 := wireTexts[0]
		c1 := diffEdit(t0, wireTexts[2])
		mid := refEdit(t0, c1)
		n := func(x uint32) []byte { return []byte(strconv.FormatUint(uint64(x), 10)) }
		res := c.Model([]drv.Req{{Fn: "wire_stale", Args: [][]byte{[]byte(mid), n(c1.SL), n(c1.SC), n(c1.EL), n(c1.EC), []byte(t0)}}})
		run := playWire([]wnote{{Kind: "O", URI: wireURIs[0], Text: t0}, {Kind: "C", URI: wireURIs[0], Changes: []wchg{ranged(c1)}}, {Kind: "C", URI: wireURIs[0], Changes: []wchg{fullText(t0, "-")}}})
		ok := len(res) == 1 && len(res[0]) == 2 && string(res[0][0]) != string(res[0][1]) && string(res[0][1]) == t0 &&
			len(run.Obs) == 3 && run.Obs[2][0] == "T"+t0
		c.Oblige("side-condition", "wire witness: a decoder reusing the previous notification's slot (full text inherits the old range) differs from the specification; the implementation through the wire gives the specification's text", ok, fmt.Sprintf("stale/spec=%q impl=%q", res, run.Obs))
	}

	var runs []wireRun
	var reqs []drv.Req
	notes := 0
	// a failing session is reported when it also fails when replayed alone in a fresh process (so that the replay
	// stands on its own); the first one that does not is carried and reported if none does
	freshTries, carriedK := 0, 0
	var carried *wireRun
	flush := func() {
		res := c.Model(reqs)
		for i, r := range res {
			run := runs[i]
			if len(r) != 2 || len(r[0]) != len(run.Notes) || len(r[1]) != len(run.Notes) {
				tieOK = false
				if c.NFails(famT) < 3 {
					c.Fail("tie", famT, "", map[string]any{"notifications": frames(run.Notes)}, "the extracted model did not answer for every notification")
				}
				continue
			}
			for k := range run.Notes {
				if r[1][k] == '0' {
					propOK = false
					if c.NFails(famP) < 3 && freshTries < 25 {
						freshTries++
						if !reportWire(c, famP, run, k) && carried == nil {
							cr := run
							carried, carriedK = &cr, k
						}
					} else if carried == nil && c.NFails(famP) == 0 {
						cr := run
						carried, carriedK = &cr, k
					}
					break
				}
				if r[0][k] == '0' {
					tieOK = false
					if c.NFails(famT) < 3 {
						c.Fail("tie", famT, "", map[string]any{"notifications": frames(run.Notes[:k+1]), "server": run.Obs[k]}, fmt.Sprintf("model and implementation differ after notification %d", k))
					}
					break
				}
				if run.GoBad[k] != "" {
					genOK = false
					if c.NFails(famG) < 3 {
						c.Fail("property", famG, "forwarded-go-mismatch", map[string]any{"notifications": frames(run.Notes[:k+1])}, run.GoBad[k])
					}
					break
				}
			}
		}
		runs, reqs = nil, nil
	}
	record := func(ns []wnote) {
		run := playWire(ns)
		for _, n := range run.Notes {
			if f := n.wellFormed(); f != "" {
				formOK = false
				if c.NFails("wire: generated JSON") < 2 {
					c.Fail("tie", "wire: generated JSON", "", map[string]any{"frame": n.frame()}, "the generated notification is not the JSON the harness means: "+f)
				}
			}
		}
		notes += len(run.Notes)
		runs = append(runs, run)
		reqs = append(reqs, run.req())
		if len(runs) >= 400 {
			flush()
		}
	}

	// 1. every sequence of up to L letters of a small alphabet after didOpen of a parseable template
	L := c.N(3, 4)
	seqs := 0
	var rec func(prefix []int)
	rec = func(prefix []int) {
		if len(prefix) > 0 {
			ref := refBuffers{}
			ns := []wnote{{Kind: "O", URI: wireURIs[0], Text: wireTexts[0], Version: 1}}
			ref.apply(ns[0])
			for i, k := range prefix {
				prev, wasOpen := ref[wireURIs[0]]
				n, label := wireLetter(k, ref)
				n.Version = i + 2
				ref.apply(n)
				ns = append(ns, n)
				if len(prefix) == L || i == len(prefix)-1 {
					if _, parses := expectGoAt(wireURIs[0], prev); wasOpen && !parses && n.URI == wireURIs[0] && n.Kind == "C" {
						label += " after an unparseable version"
					}
					if i == len(prefix)-1 {
						c.Hist("wire small: " + label)
					}
				}
			}
			key := make([]string, len(prefix))
			for i, k := range prefix {
				key[i] = strconv.Itoa(k)
			}
			c.Count("w:" + strings.Join(key, ","))
			seqs++
			record(ns)
		}
		if len(prefix) == L {
			return
		}
		for k := 0; k < wireLetters; k++ {
			rec(append(prefix[:len(prefix):len(prefix)], k))
		}
	}
	rec(nil)
	flush()
	c.Extra["wire_exhaustive_sequences"] = seqs
	c.Extra["wire_exhaustive_max_length"] = L

	// 2. random sessions
	nSess := c.N(350, 12000)
	for i := 0; i < nSess; i++ {
		ns := randWireSession(c.Rng)
		ref := refBuffers{}
		for k, n := range ns {
			prev, wasOpen := ref[n.URI]
			_, prevParses := "", true
			if wasOpen {
				_, prevParses = expectGoAt(n.URI, prev)
			}
			ref.apply(n)
			switch n.Kind {
			case "O":
				if wasOpen {
					c.Hist("wire: didOpen of an open document")
				} else {
					c.Hist("wire: didOpen")
				}
			case "X":
				c.Hist("wire: didClose")
			case "C":
				if !wasOpen {
					c.Hist("wire: didChange for a document that is not open")
					break
				}
				kinds := map[string]bool{}
				for _, w := range n.Changes {
					switch w.RangeMember {
					case "r":
						kinds["ranged"] = true
					case "n":
						kinds["full text (range null)"] = true
					default:
						kinds["full text (range absent)"] = true
					}
					if w.RangeLength != "" {
						c.Hist("wire: change with rangeLength member")
					}
					if w.Extra > 0 {
						c.Hist("wire: change with an unknown extra member")
					}
				}
				ks := make([]string, 0, len(kinds))
				for k := range kinds {
					ks = append(ks, k)
				}
				sort.Strings(ks)
				label := fmt.Sprintf("wire: didChange, %d change(s): %s", min(len(n.Changes), 2), strings.Join(ks, " + "))
				if len(n.Changes) > 1 {
					label = strings.Replace(label, "2 change(s)", "2+ changes", 1)
				}
				if !prevParses {
					label += ", previous version unparseable"
				}
				c.Hist(label)
			}
			if n.URI == wireURIs[1] {
				c.Hist("wire: notification about the second document")
			}
			if n.Extra > 0 {
				c.Hist("wire: notification with unknown members outside contentChanges")
			}
			c.Count(fmt.Sprintf("w%d.%d", i, k))
		}
		if i == 0 {
			c.Sample(map[string]any{"wire_session_first_frames": frames(ns[:min(3, len(ns))])})
		}
		record(ns)
	}
	flush()
	if !propOK && c.NFails(famP) == 0 && carried != nil {
		reportWireCarried(c, famP, *carried, carriedK)
	}
	c.Extra["wire_random_sessions"] = nSess
	c.Extra["wire_notifications"] = notes
	c.Oblige("side-condition", "wire: every generated notification is valid JSON carrying exactly the intended members (re-read with the generic decoder)", formOK, "")
	c.Oblige("correspondence", famT, tieOK, "")
	c.Oblige("correspondence", famP, propOK, "")
	c.Oblige("correspondence", famG, genOK, "")
}

// ---- replay of one session in a fresh process ----

func init() {
	f := os.Getenv("VERIF_C17_WIREPLAY")
	if f == "" {
		return
	}
	// child mode: play the session in the file alone and print what the server held
	data, err := os.ReadFile(f)
	var ns []wnote
	if err == nil {
		err = json.Unmarshal(data, &ns)
	}
	if err != nil {
		fmt.Fprintln(os.Stderr, err)
		os.Exit(3)
	}
	run := playWire(ns)
	json.NewEncoder(os.Stdout).Encode(map[string]any{"obs": run.Obs, "gobad": run.GoBad})
	os.Exit(0)
}

// playFresh plays the session alone in a new process of this harness binary: nothing an earlier session left in
// the implementation's process-wide state (pools, caches, package variables) can take part.
func playFresh(ns []wnote, singleP bool) (wireRun, error) {
	exe, err := os.Executable()
	if err != nil {
		return wireRun{}, err
	}
	tmp, err := os.CreateTemp("", "c17wire*.json")
	if err != nil {
		return wireRun{}, err
	}
	defer os.Remove(tmp.Name())
	json.NewEncoder(tmp).Encode(ns)
	tmp.Close()
	cmd := exec.Command("timeout", "120", exe)
	cmd.Env = append(os.Environ(), "VERIF_C17_WIREPLAY="+tmp.Name())
	if singleP { // one processor: which goroutine runs where no longer matters
		cmd.Env = append(cmd.Env, "GOMAXPROCS=1")
	}
	out, err := cmd.Output()
	if err != nil {
		return wireRun{}, err
	}
	var v struct {
		Obs   [][2]string `json:"obs"`
		GoBad []string    `json:"gobad"`
	}
	if err := json.Unmarshal(out, &v); err != nil {
		return wireRun{}, err
	}
	if len(v.Obs) > len(ns) {
		return wireRun{}, fmt.Errorf("replay answered for %d of %d notifications", len(v.Obs), len(ns))
	}
	return wireRun{Notes: ns[:len(v.Obs)], Obs: v.Obs, GoBad: v.GoBad}, nil
}

func wireFailInput(best wireRun) (map[string]any, string) {
	ref := refBuffers{}
	for _, n := range best.Notes {
		ref.apply(n)
	}
	last := len(best.Notes) - 1
	shape := "wire-history"
	if strings.HasPrefix(best.Obs[last][0], "P") {
		shape = "panic"
	}
	return map[string]any{
		"frames_sent_to_protocol.NewServer": frames(best.Notes),
		"editor":                            map[string]string{wireURIs[0]: ref.obs(wireURIs[0]), wireURIs[1]: ref.obs(wireURIs[1])},
		"server":                            map[string]string{wireURIs[0]: best.Obs[last][0], wireURIs[1]: best.Obs[last][1]},
		"legend":                            "T<text> = the document is held with that text, M = no document, P<reason> = panic / no answer; each frame goes to the server as Content-Length: <n> CRLF CRLF <frame>, the first to a new connection",
	}, shape
}

// reportWireCarried: no failing session failed again when replayed alone; the first one is reported as observed.
func reportWireCarried(c *core.Ctx, famP string, run wireRun, k int) {
	best := wireRun{Notes: run.Notes[:k+1], Obs: run.Obs[:k+1]}
	in, shape := wireFailInput(best)
	c.Fail("property", famP, shape, in, fmt.Sprintf("after notification %d the server's copy differs from the editor's buffer; the session fails in a process that served other connections before and did not fail when replayed alone in a fresh process (state shared between connections, or scheduling)", k))
}

// reportWire replays a failing session alone in a fresh process; if it fails there too it is shrunk (dropping
// notifications, then changes, each candidate again in a fresh process, while the server still differs from the
// reference), the extracted specification confirms the shrunk session, and it is reported. Otherwise false.
func reportWire(c *core.Ctx, famP string, run wireRun, k int) bool {
	var best wireRun
	how := ""
	budget := 40
	try := func(ns []wnote) bool {
		if budget <= 0 || len(ns) == 0 {
			return false
		}
		budget--
		for _, single := range []bool{true, false} {
			r, err := playFresh(ns, single)
			if err != nil {
				continue
			}
			if f := r.failsRef(); f >= 0 {
				best = wireRun{Notes: r.Notes[:f+1], Obs: r.Obs[:f+1]}
				how = map[bool]string{true: "GOMAXPROCS=1", false: "default GOMAXPROCS"}[single]
				return true
			}
		}
		return false
	}
	if !try(run.Notes[:k+1]) {
		return false
	}
	orig := best
	for again := true; again; {
		again = false
		for i := len(best.Notes) - 2; i >= 0; i-- { // drop notification i
			if i >= len(best.Notes)-1 {
				continue
			}
			ns := append(append([]wnote(nil), best.Notes[:i]...), best.Notes[i+1:]...)
			if try(ns) {
				again = true
			}
		}
		for i := 0; i < len(best.Notes); i++ { // drop one change of a multi-change notification
			for j := 0; i < len(best.Notes) && j < len(best.Notes[i].Changes) && len(best.Notes[i].Changes) > 1; j++ {
				ns := append([]wnote(nil), best.Notes...)
				x := ns[i]
				x.Changes = append(append([]wchg(nil), x.Changes[:j]...), x.Changes[j+1:]...)
				ns[i] = x
				if try(ns) {
					again = true
					j--
				}
			}
		}
	}
	// the verdict on the shrunk session comes from the extracted specification
	res := c.Model([]drv.Req{best.req()})
	if len(res) != 1 || len(res[0]) != 2 || !bytes.Contains(res[0][1], []byte("0")) {
		best = orig
		res = c.Model([]drv.Req{best.req()})
		if len(res) != 1 || len(res[0]) != 2 || !bytes.Contains(res[0][1], []byte("0")) {
			return false
		}
	}
	in, shape := wireFailInput(best)
	c.Fail("property", famP, shape, in, fmt.Sprintf("after notification %d the server's copy differs from the editor's buffer (session of %d notifications replayed alone in a fresh process with %s, shrunk from %d)", len(best.Notes)-1, len(best.Notes), how, k+1))
	return true
}
