// Package core is the check framework: obligations, failures, known findings, evidence, verdict.
package core

import (
	"bytes"
	"encoding/json"
	"fmt"
	"os"
	"os/exec"
	"path/filepath"
	"regexp"
	"sort"
	"strings"
	"time"

	"verifharness/internal/drv"
	"verifharness/internal/rng"
)

const Root = "/verif"

// Repo is the tree the harness was built against (/repo; VERIF_REPO is a development aid for scratch worktrees).
func Repo() string {
	if r := os.Getenv("VERIF_REPO"); r != "" {
		return r
	}
	return "/repo"
}

type Obligation struct {
	Name   string `json:"name"`
	Kind   string `json:"kind"` // theorem | side-condition | correspondence | contract
	OK     bool   `json:"ok"`
	Detail string `json:"detail,omitempty"`
}

// Failure is one concrete input on which something went wrong.
//   Kind "property": the specification predicate is false on the implementation's behaviour - a violation with a replay.
//   Kind "tie":      model and implementation differ (the property may still hold) - a broken correspondence.
type Failure struct {
	Kind   string `json:"kind"`
	Family string `json:"family"`
	Shape  string `json:"shape,omitempty"` // decidable shape key used to match known findings
	Input  any    `json:"input"`
	Detail string `json:"detail"`
}

type Finding struct {
	Property string `json:"property"`
	Status   string `json:"status"` // known | fixed
	Shape    string `json:"shape"`
	Commit   string `json:"commit,omitempty"`
	What     string `json:"what"`
}

type Ctx struct {
	ID      string
	Tier    string
	Seed    uint64
	Rng     *rng.R
	Driver  string
	Replay  string
	start   time.Time
	Evals   int
	distinct map[string]struct{}
	Samples []any
	Obls    []Obligation
	Fails   []Failure
	Dist    map[string]int
	Assume  []string
	Trusted []string
	Rule    string
	Extra   map[string]any
	Level   string
}

type CheckFn func(c *Ctx)

// Table generators: the translator. Each returns Gallina source for data tables dumped from the live code.
var tableGens = map[string]func() string{}

func RegisterTable(name string, f func() string) { tableGens[name] = f }

// Tables renders coq/gen/Tables.v.
func Tables() string {
	var names []string
	for k := range tableGens {
		names = append(names, k)
	}
	sort.Strings(names)
	var sb strings.Builder
	sb.WriteString("(* REGENERATED on every run by `build/vcheck_Cnn tables` from /repo's working tree (build tag verif exports). Do not edit. *)\n")
	sb.WriteString("From Coq.Strings Require Import Byte String.\nFrom Coq Require Import List NArith.\nImport ListNotations.\nFrom V Require Import lib.Bytes.\nOpen Scope N_scope.\n\n")
	for _, n := range names {
		sb.WriteString("(* ---- " + n + " ---- *)\n")
		sb.WriteString(tableGens[n]())
		sb.WriteString("\n")
	}
	return sb.String()
}

// CoqBytes renders a byte string as a Gallina list of byte constructors.
func CoqBytes(b []byte) string {
	if len(b) == 0 {
		return "[]"
	}
	var sb strings.Builder
	sb.WriteString("[")
	for i, x := range b {
		if i > 0 {
			sb.WriteString(";")
		}
		fmt.Fprintf(&sb, "x%02x", x)
	}
	sb.WriteString("]")
	return sb.String()
}

var registry = map[string]CheckFn{}

func Register(id string, f CheckFn) { registry[id] = f }
func IDs() []string {
	var r []string
	for k := range registry {
		r = append(r, k)
	}
	sort.Strings(r)
	return r
}

func (c *Ctx) Quick() bool { return c.Tier != "thorough" }

// N picks a case count by tier.
func (c *Ctx) N(quick, thorough int) int {
	if c.Quick() {
		return quick
	}
	return thorough
}

// Count records one evaluation; key (if non-empty) identifies a distinct non-trivial case.
func (c *Ctx) Count(key string) {
	c.Evals++
	if key != "" {
		c.distinct[key] = struct{}{}
	}
}
func (c *Ctx) Hist(bucket string)  { c.Dist[bucket]++ }
func (c *Ctx) Sample(s any) {
	if len(c.Samples) < 12 {
		c.Samples = append(c.Samples, s)
	}
}
func (c *Ctx) Oblige(kind, name string, ok bool, detail string) {
	c.Obls = append(c.Obls, Obligation{Name: name, Kind: kind, OK: ok, Detail: detail})
}
func (c *Ctx) Fail(kind, family, shape string, input any, detail string) {
	if len(c.Fails) < 200 {
		c.Fails = append(c.Fails, Failure{Kind: kind, Family: family, Shape: shape, Input: input, Detail: detail})
	}
}
func (c *Ctx) NFails(family string) int {
	n := 0
	for _, f := range c.Fails {
		if f.Family == family {
			n++
		}
	}
	return n
}

// Model runs a batch of requests through this property's extracted driver.
func (c *Ctx) Model(reqs []drv.Req) [][][]byte {
	res, err := drv.Batch(c.Driver, reqs)
	if err != nil {
		c.Oblige("correspondence", "extracted-model-runs", false, err.Error())
		// return empty replies so callers see mismatches rather than panics
		res = make([][][]byte, len(reqs))
	}
	return res
}

// Hex/quoting helper for evidence and replay files.
func Q(b []byte) string { return fmt.Sprintf("%q", string(b)) }

var reAx = regexp.MustCompile(`(?m)^Axioms:`)

// Proofs re-checks props/<ID>.v and records one obligation per Theorem with its Print Assumptions result.
func (c *Ctx) Proofs() {
	coq := filepath.Join(Root, "coq")
	file := filepath.Join(coq, "props", c.ID+".v")
	src, err := os.ReadFile(file)
	if err != nil {
		c.Oblige("theorem", "props/"+c.ID+".v", false, "missing")
		return
	}
	thm := regexp.MustCompile(`(?m)^Theorem\s+(\w+)`).FindAllStringSubmatch(string(src), -1)
	// hygiene gate over the whole development
	// hygiene gate: every file props/<ID>.v and extract/X<nn>.v depend on (thorough tier: the whole development)
	bad := hygieneFiles(depClosure(coq, []string{file, filepath.Join(coq, "extract", "X"+c.ID[1:]+".v")}))
	if !c.Quick() {
		bad = hygiene(coq)
	}
	c.Oblige("side-condition", "no Admitted/Axiom/Parameter/guard switches in coq/", len(bad) == 0, strings.Join(bad, "; "))
	// are the compiled dependencies there?
	mk := exec.Command("timeout", "1500", "make", "-C", coq, "props/"+c.ID+".vo")
	mkout, mkerr := mk.CombinedOutput()
	if mkerr != nil {
		for _, t := range thm {
			c.Oblige("theorem", t[1], false, "does not build: "+lastLines(string(mkout), 12))
		}
		return
	}
	os.MkdirAll(filepath.Join(Root, "build", "recheck"), 0o755)
	cmd := exec.Command("timeout", "600", "coqc", "-Q", coq, "V", "-o", filepath.Join(Root, "build", "recheck", c.ID+".vo"), file)
	out, err := cmd.CombinedOutput()
	if err != nil {
		for _, t := range thm {
			c.Oblige("theorem", t[1], false, "coqc failed: "+lastLines(string(out), 12))
		}
		return
	}
	// Print Assumptions output, in order: one block per theorem.
	blocks := splitAssumptions(string(out))
	for i, t := range thm {
		if i >= len(blocks) {
			c.Oblige("theorem", t[1], false, "no Print Assumptions output")
			continue
		}
		b := strings.TrimSpace(blocks[i])
		ok := b == "Closed under the global context"
		c.Oblige("theorem", t[1], ok, b)
	}
	c.Trusted = append(c.Trusted, "coqc 8.16.1 kernel (+ vm_compute); Print Assumptions of every theorem in props/"+c.ID+".v: Closed under the global context")
}

var reBad = regexp.MustCompile(`\b(Admitted|admit|Axiom|Axioms|Parameter|Parameters|Conjecture)\b|Unset Guard|Unset Positivity|Unset Universe|bypass_check|type-in-type|impredicative-set|Admit Obligations`)
var reCtx = regexp.MustCompile(`^\s*(Variable|Variables|Hypothesis|Hypotheses|Context)\b`)
var reSecOpen = regexp.MustCompile(`^\s*Section\s+\w+`)
var reSecEnd = regexp.MustCompile(`^\s*End\s+\w+`)
var reModOpen = regexp.MustCompile(`^\s*Module\s+(Type\s+)?\w+\s*\.`)

// depClosure returns the .v files reachable from roots through `From V Require Import a.b c.d.` lines.
func depClosure(coq string, roots []string) []string {
	seen := map[string]bool{}
	var order []string
	var visit func(f string)
	visit = func(f string) {
		if seen[f] {
			return
		}
		b, err := os.ReadFile(f)
		if err != nil {
			return
		}
		seen[f] = true
		order = append(order, f)
		src := stripComments(string(b))
		for _, m := range regexp.MustCompile(`From\s+V\s+Require\s+(?:Import|Export)\s+([A-Za-z0-9_.\s]+?)\.\s`).FindAllStringSubmatch(src+" ", -1) {
			for _, mod := range strings.Fields(m[1]) {
				visit(filepath.Join(coq, strings.ReplaceAll(mod, ".", "/")+".v"))
			}
		}
	}
	for _, r := range roots {
		visit(r)
	}
	return order
}

func hygieneFiles(files []string) []string {
	var bad []string
	for _, f := range files {
		bad = append(bad, hygieneFile(f)...)
	}
	return bad
}

// hygiene scans every .v file under dir (comments removed) for declarations that would
// introduce an axiom or switch a kernel check off; Variable/Hypothesis are allowed inside Sections only.
func hygiene(dir string) []string {
	var bad []string
	filepath.Walk(dir, func(path string, info os.FileInfo, err error) error {
		if err != nil || info.IsDir() || !strings.HasSuffix(path, ".v") {
			return nil
		}
		bad = append(bad, hygieneFile(path)...)
		return nil
	})
	return bad
}

func hygieneFile(path string) []string {
	var bad []string
	b, err := os.ReadFile(path)
	if err != nil {
		return nil
	}
	src := stripComments(string(b))
	depth := 0
	var stack []bool // true = section
	for i, l := range strings.Split(src, "\n") {
		if reBad.MatchString(l) {
			bad = append(bad, fmt.Sprintf("%s:%d: %s", path, i+1, strings.TrimSpace(l)))
		}
		switch {
		case reSecOpen.MatchString(l):
			stack = append(stack, true)
			depth++
		case reModOpen.MatchString(l):
			stack = append(stack, false)
		case reSecEnd.MatchString(l):
			if n := len(stack); n > 0 {
				if stack[n-1] {
					depth--
				}
				stack = stack[:n-1]
			}
		case reCtx.MatchString(l) && depth == 0:
			bad = append(bad, fmt.Sprintf("%s:%d: outside a Section: %s", path, i+1, strings.TrimSpace(l)))
		}
	}
	return bad
}

// stripComments blanks out (* ... *) comments (nested) and string literals, keeping line structure.
func stripComments(s string) string {
	out := []byte(s)
	depth := 0
	inStr := false
	for i := 0; i < len(out); i++ {
		if depth == 0 && !inStr && out[i] == '"' {
			inStr = true
			continue
		}
		if inStr {
			if out[i] == '"' {
				inStr = false
			} else if out[i] != '\n' {
				out[i] = ' '
			}
			continue
		}
		if i+1 < len(out) && out[i] == '(' && out[i+1] == '*' {
			depth++
			out[i], out[i+1] = ' ', ' '
			i++
			continue
		}
		if depth > 0 && i+1 < len(out) && out[i] == '*' && out[i+1] == ')' {
			depth--
			out[i], out[i+1] = ' ', ' '
			i++
			continue
		}
		if depth > 0 && out[i] != '\n' {
			out[i] = ' '
		}
	}
	return string(out)
}

func splitAssumptions(out string) []string {
	var blocks []string
	lines := strings.Split(out, "\n")
	cur := ""
	in := false
	for _, l := range lines {
		if strings.HasPrefix(l, "Closed under the global context") {
			if in {
				blocks = append(blocks, cur)
			}
			blocks = append(blocks, l)
			cur, in = "", false
			continue
		}
		if reAx.MatchString(l) {
			if in {
				blocks = append(blocks, cur)
			}
			cur, in = l+"\n", true
			continue
		}
		if in {
			cur += l + "\n"
		}
	}
	if in {
		blocks = append(blocks, cur)
	}
	return blocks
}

func lastLines(s string, n int) string {
	ls := strings.Split(strings.TrimSpace(s), "\n")
	if len(ls) > n {
		ls = ls[len(ls)-n:]
	}
	return strings.Join(ls, " | ")
}

func loadFindings() []Finding {
	var fs []Finding
	b, err := os.ReadFile(filepath.Join(Root, "known_findings.json"))
	if err != nil {
		return nil
	}
	var doc struct {
		Findings []Finding `json:"findings"`
	}
	if json.Unmarshal(b, &doc) == nil {
		fs = doc.Findings
	}
	return fs
}

// Finish writes the evidence file, prints KNOWN-FINDING / VIOLATION lines and returns the exit code.
func (c *Ctx) Finish() int {
	known := map[string]Finding{}
	for _, f := range loadFindings() {
		if f.Property == c.ID && f.Status == "known" {
			known[f.Shape] = f
		}
	}
	var propFails, tieFails []Failure
	knownHit := map[string]int{}
	for _, f := range c.Fails {
		if f.Kind == "property" {
			if _, ok := known[f.Shape]; ok && f.Shape != "" {
				knownHit[f.Shape]++
				continue
			}
			propFails = append(propFails, f)
		} else {
			tieFails = append(tieFails, f)
		}
	}
	var brokenObl []Obligation
	discharged := 0
	for _, o := range c.Obls {
		if o.OK {
			discharged++
		} else {
			brokenObl = append(brokenObl, o)
		}
	}
	shapes := make([]string, 0, len(knownHit))
	for s := range knownHit {
		shapes = append(shapes, s)
	}
	sort.Strings(shapes)
	for _, s := range shapes {
		fmt.Printf("KNOWN-FINDING: property=%s %s (shape %s, %d inputs this run)\n", c.ID, known[s].What, s, knownHit[s])
	}
	exit := 0
	violations := 0
	os.MkdirAll(filepath.Join(Root, "replays"), 0o755)
	if len(propFails) > 0 {
		violations = len(propFails)
		path := filepath.Join(Root, "replays", fmt.Sprintf("%s_%s_%d.json", c.ID, c.Tier, c.Seed))
		writeJSON(path, map[string]any{"property": c.ID, "kind": "failing-input", "seed": c.Seed, "tier": c.Tier,
			"failures": propFails, "broken_obligations": brokenObl, "tie_failures": tieFails})
		fmt.Printf("VIOLATION property=%s replay=%s\n", c.ID, path)
		exit = 1
	} else if len(brokenObl) > 0 || len(tieFails) > 0 {
		violations = 1
		path := filepath.Join(Root, "replays", fmt.Sprintf("%s_%s_%d.json", c.ID, c.Tier, c.Seed))
		names := []string{}
		for _, o := range brokenObl {
			names = append(names, o.Kind+":"+o.Name)
		}
		for _, f := range tieFails {
			names = append(names, "correspondence:"+f.Family)
		}
		writeJSON(path, map[string]any{"property": c.ID, "kind": "no-failing-input-found", "seed": c.Seed, "tier": c.Tier,
			"no_longer_checks": uniq(names), "broken_obligations": brokenObl, "tie_failures": tieFails,
			"note": "a theorem or a model/implementation correspondence no longer checks; the search over the implementation found no input on which the specification predicate fails"})
		fmt.Printf("VIOLATION property=%s replay=%s no-failing-input-found\n", c.ID, path)
		exit = 1
	}
	level := c.Level
	if level == "" {
		level = "proof"
	}
	cov := map[string]any{
		"obligations":         len(c.Obls),
		"discharged":          discharged,
		"checker_cmd":         "make -C /verif/coq (coqc 8.16.1, full .vo build) && coqc -Q /verif/coq V /verif/coq/props/" + c.ID + ".v ; /verif/build/vcheck_" + c.ID + " " + c.ID,
		"trusted_base":        c.Trusted,
		"evaluations":         c.Evals,
		"distinct_nontrivial": len(c.distinct),
		"rule":                c.Rule,
		"samples":             c.Samples,
		"input_distribution":  c.Dist,
		"obligation_list":     c.Obls,
		"known_findings_hit":  knownHit,
	}
	for k, v := range c.Extra {
		cov[k] = v
	}
	if len(c.Samples) == 0 {
		cov["samples"] = []any{"(none)"}
	}
	if c.Assume == nil {
		c.Assume = []string{}
	}
	if c.Trusted == nil {
		c.Trusted = []string{}
	}
	cov["trusted_base"] = c.Trusted
	evd := map[string]any{
		"property_id": c.ID, "tier": c.Tier, "seed": c.Seed, "level": level,
		"coverage": cov, "assumptions": c.Assume,
		"wall_s": time.Since(c.start).Seconds(), "violations": violations,
	}
	os.MkdirAll(filepath.Join(Root, "evidence"), 0o755)
	writeJSON(filepath.Join(Root, "evidence", c.ID+".json"), evd)
	fmt.Printf("%s %s seed=%d: obligations %d/%d, evaluations %d (distinct non-trivial %d), failures: property=%d tie=%d, %.1fs\n",
		c.ID, c.Tier, c.Seed, discharged, len(c.Obls), c.Evals, len(c.distinct), len(propFails), len(tieFails), time.Since(c.start).Seconds())
	for _, o := range brokenObl {
		fmt.Printf("  BROKEN %s %s: %s\n", o.Kind, o.Name, trunc(o.Detail, 400))
	}
	for i, f := range append(propFails, tieFails...) {
		if i >= 8 {
			break
		}
		b, _ := json.Marshal(f.Input)
		fmt.Printf("  FAIL %s/%s shape=%s input=%s: %s\n", f.Kind, f.Family, f.Shape, trunc(string(b), 300), trunc(f.Detail, 300))
	}
	return exit
}

func trunc(s string, n int) string {
	if len(s) > n {
		return s[:n] + "..."
	}
	return s
}

func uniq(xs []string) []string {
	m := map[string]bool{}
	var r []string
	for _, x := range xs {
		if !m[x] {
			m[x] = true
			r = append(r, x)
		}
	}
	return r
}

func writeJSON(path string, v any) {
	var buf bytes.Buffer
	enc := json.NewEncoder(&buf)
	enc.SetEscapeHTML(false)
	enc.SetIndent("", " ")
	if err := enc.Encode(v); err != nil {
		fmt.Fprintln(os.Stderr, "evidence encode:", err)
	}
	os.WriteFile(path, buf.Bytes(), 0o644)
}

// Main is the entry point used by cmd/vcheck.
func Main(args []string) int {
	if len(args) < 1 {
		fmt.Println("usage: vcheck <Cnn> [--tier quick|thorough] [--seed N] [--replay file]; known:", IDs())
		return 2
	}
	id := args[0]
	if id == "tables" {
		if len(tableGens) > 0 {
			fmt.Print(Tables())
		}
		return 0
	}
	f, ok := registry[id]
	if !ok {
		fmt.Println("unknown property", id)
		return 2
	}
	c := &Ctx{ID: id, Tier: "quick", start: time.Now(), distinct: map[string]struct{}{}, Dist: map[string]int{}, Extra: map[string]any{}}
	if t := os.Getenv("VERIF_TIER"); t != "" {
		c.Tier = t
	}
	if s := os.Getenv("VERIF_SEED"); s != "" {
		fmt.Sscan(s, &c.Seed)
	}
	for i := 1; i < len(args); i++ {
		switch args[i] {
		case "--tier":
			i++
			c.Tier = args[i]
		case "--seed":
			i++
			fmt.Sscan(args[i], &c.Seed)
		case "--replay":
			i++
			c.Replay = args[i]
		}
	}
	c.Rng = rng.New(c.Seed)
	c.Driver = filepath.Join(Root, "build", "x"+strings.ToLower(id[1:]), "driver")
	f(c)
	return c.Finish()
}
