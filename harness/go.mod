module verifharness

go 1.23.0

require github.com/a-h/templ v0.0.0

require github.com/a-h/parse v0.0.0-20250122154542-74294addb73e // indirect

replace github.com/a-h/templ => /repo
