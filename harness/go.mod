module verifharness

go 1.23.0

require (
	github.com/a-h/parse v0.0.0-20250122154542-74294addb73e
	github.com/a-h/templ v0.0.0
	github.com/andybalholm/brotli v1.1.0
	github.com/fsnotify/fsnotify v1.7.0
	golang.org/x/net v0.37.0
)

require (
	github.com/cenkalti/backoff/v4 v4.3.0 // indirect
	github.com/cli/browser v1.3.0 // indirect
	github.com/natefinch/atomic v1.0.1 // indirect
	golang.org/x/mod v0.20.0 // indirect
	golang.org/x/sync v0.10.0 // indirect
	golang.org/x/sys v0.31.0 // indirect
	golang.org/x/tools v0.24.0 // indirect
)

replace github.com/a-h/templ => /repo
