// p08probe prints the generator-side wire form (astser) of a templ body before and after formatting (development aid for C08).
package main

import (
	"bytes"
	"fmt"
	"io"
	"os"
	"regexp"
	"strconv"
	"strings"

	"github.com/a-h/templ/generator"
	parser "github.com/a-h/templ/parser/v2"

	"verifharness/internal/astser"
	"verifharness/internal/fmttie"
)

var rePos = regexp.MustCompile(`( "\d+"){6}`)

var reLit = regexp.MustCompile(`WriteString\(templ_7745c5c3_Buffer, \d+, ("(?:[^"\\]|\\.)*")\)`)

func show(src string) {
	tf, err := parser.ParseString(src)
	if err != nil {
		fmt.Println("PARSE ERROR", err)
		return
	}
	var gb bytes.Buffer
	if _, err := generator.Generate(tf, &gb); err == nil {
		for _, m := range reLit.FindAllStringSubmatch(gb.String(), -1) {
			fmt.Println("  literal:", m[1])
		}
	}
	enc, ok, why := astser.File(tf)
	fmt.Println(ok, why, rePos.ReplaceAllString(pretty(enc), ""))
}

// pretty turns the length-prefixed wire form into a readable s-expression.
func pretty(s string) string {
	var sb strings.Builder
	var rec func()
	i := 0
	num := func() int {
		n := 0
		for s[i] != ':' {
			n = n*10 + int(s[i]-'0')
			i++
		}
		i++
		return n
	}
	rec = func() {
		switch s[i] {
		case 'a':
			i++
			n := num()
			sb.WriteString(strconv.Quote(s[i : i+n]))
			i += n
		case 'l':
			i++
			n := num()
			sb.WriteString("(")
			for k := 0; k < n; k++ {
				if k > 0 {
					sb.WriteString(" ")
				}
				rec()
			}
			sb.WriteString(")")
		}
	}
	rec()
	return sb.String()
}

func main() {
	b, _ := io.ReadAll(os.Stdin)
	src := "package p\n\ntempl t(c bool, s string) {\n" + string(b) + "\n}\n"
	show(src)
	out, _, err := fmttie.Format(src)
	if err != nil {
		fmt.Println("FORMAT ERROR", err)
		return
	}
	fmt.Print(out)
	show(out)
}
