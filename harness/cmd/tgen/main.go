// tgen prints one random templ file (development aid).
package main

import (
	"fmt"
	"os"

	"verifharness/internal/rng"
	"verifharness/internal/tgen"
)

func main() {
	var seed uint64 = 1
	if len(os.Args) > 1 {
		fmt.Sscan(os.Args[1], &seed)
	}
	fmt.Print(tgen.File(rng.New(seed), tgen.Default()))
}
