// scratch tool (not part of the check): formats stdin three times
package main

import (
	"fmt"
	"io"
	"os"

	"verifharness/internal/fmttie"
	"verifharness/internal/gentie"
)

func main() {
	b, _ := io.ReadAll(os.Stdin)
	cs, ok := fmttie.Run(gentie.Input{Name: "stdin", Src: string(b)})
	fmt.Printf("accepted=%v same=%v p2err=%q\n--- P1\n%s--- P2 (eq %v)\n%s--- P3 (eq %v)\n%s", ok, cs.SameStructure, cs.P2Err, cs.P1, cs.P1 == cs.P2, cs.P2, cs.P2 == cs.P3, cs.P3)
}
