package main

import (
	"fmt"
	"os"
	"strconv"
	"time"

	"verifharness/internal/c02"
)

func main() {
	size, _ := strconv.Atoi(os.Args[1])
	for _, l := range c02.Scratch(size) {
		fmt.Println(l)
	}
	_ = time.Now
}
