package main

import (
	"os"

	_ "verifharness/internal/c08"
	"verifharness/internal/core"
)

func main() { os.Exit(core.Main(os.Args[1:])) }
