package main

import (
	"os"

	"verifharness/internal/core"
)

func main() { os.Exit(core.Main(os.Args[1:])) }
