package main

import _ "verifharness/internal/c04"
