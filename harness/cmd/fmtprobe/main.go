// fmtprobe formats a templ body three times and prints the passes (development aid for C08/C09 findings).
package main

import (
	"fmt"
	"io"
	"os"

	"verifharness/internal/fmttie"
)

func main() {
	b, _ := io.ReadAll(os.Stdin)
	src := "package p\n\ntempl t(c bool, s string) {\n" + string(b) + "\n}\n"
	cur := src
	for i := 1; i <= 3; i++ {
		out, _, err := fmttie.Format(cur)
		if err != nil {
			fmt.Printf("pass %d: ERROR %v\n", i, err)
			return
		}
		fmt.Printf("--- pass %d (changed=%v)\n%s", i, out != cur, out)
		cur = out
	}
}
