package main

import (
	"encoding/json"
	"fmt"
	"os"

	"verifharness/internal/c14/probe"
)

func main() {
	var doc struct {
		Tie []struct {
			Family string `json:"family"`
			Input  struct {
				Scenario  *probe.Scenario `json:"scenario"`
				Goroutine int             `json:"goroutine"`
			} `json:"input"`
			Detail string `json:"detail"`
		} `json:"tie_failures"`
	}
	b, _ := os.ReadFile(os.Args[1])
	json.Unmarshal(b, &doc)
	n := 0
	for _, f := range doc.Tie {
		if f.Input.Scenario == nil {
			continue
		}
		sc := f.Input.Scenario
		probe.Setup(sc)
		g := sc.Gor[f.Input.Goroutine]
		gj, _ := json.Marshal(g)
		fmt.Println(string(gj))
		fmt.Println("registered", sc.Registered)
		ij, _ := json.Marshal(sc.Items)
		fmt.Println(string(ij))
		for _, r := range g.Renders {
			cj, _ := json.Marshal(sc.Comps[r.C])
			fmt.Println("comp", r.C, string(cj))
		}
		res := probe.RunGoroutine(g)
		fmt.Printf("OUT %s\n", res.Out)
		fmt.Println(f.Detail[:300])
		n++
		if n >= 2 {
			break
		}
	}
}
