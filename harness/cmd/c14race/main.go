// Command c14race is the subprocess of the C14 check that is built with -race: it reads scenarios (JSON array on
// stdin), runs each goroutine's renders alone (the sequential reference) and then all goroutines at once, and
// prints both, one line per scenario as soon as the scenario is finished (so that the parent knows which scenario was
// in progress when the process died or stalled). The race detector's report goes to stderr - after a line naming the
// scenario - and sets the exit status (GORACE exitcode).
package main

import (
	"encoding/json"
	"fmt"
	"os"
	"runtime/debug"
	"sync/atomic"
	"time"

	templruntime "github.com/a-h/templ/runtime"

	"verifharness/internal/c14/probe"
)

type out struct {
	Ref     []probe.Result `json:"ref"`
	Got     []probe.Result `json:"got"`
	Touches int            `json:"touches"`
	Dev     bool           `json:"dev"`
	Fresh   int64          `json:"fresh"`
}

func main() {
	var scs []probe.Scenario
	if err := json.NewDecoder(os.Stdin).Decode(&scs); err != nil {
		fmt.Fprintln(os.Stderr, "c14race: bad input:", err)
		os.Exit(3)
	}
	dev := templruntime.VerifC14DevMode()
	// an endless recursion of the code under test is a quick death, not gigabytes of stack
	debug.SetMaxStack(256 << 20)
	enc := json.NewEncoder(os.Stdout)
	for i := range scs {
		sc := &scs[i]
		fmt.Fprintf(os.Stderr, "c14race: scenario %d\n", i)
		probe.Setup(sc)
		base := time.Now().Add(-10 * time.Second)
		if dev {
			if err := probe.WriteDevFile(sc.DevLits, base); err != nil {
				fmt.Fprintln(os.Stderr, "c14race: text file:", err)
				os.Exit(3)
			}
		}
		o := out{Dev: dev}
		o.Ref = probe.Sequential(sc)
		stop := make(chan struct{})
		done := make(chan int, 1)
		if dev && sc.Touch {
			go probe.Toucher(base, stop, done)
		}
		o.Got = probe.Concurrent(sc)
		o.Fresh = atomic.LoadInt64(&probe.FreshBuffers)
		close(stop)
		if dev && sc.Touch {
			o.Touches = <-done
		}
		if err := enc.Encode(o); err != nil {
			os.Exit(3)
		}
	}
}
