package main

import (
	"os"

	_ "verifharness/internal/c05"
	"verifharness/internal/core"
)

func main() { os.Exit(core.Main(os.Args[1:])) }
