// fmtfull runs the full `templ fmt` pipeline (imports processing included) three times on stdin (development aid).
package main

import (
	"fmt"
	"io"
	"os"

	"verifharness/internal/fmttie"
)

func main() {
	b, _ := io.ReadAll(os.Stdin)
	cur := string(b)
	for i := 1; i <= 3; i++ {
		out, err := fmttie.FormatFull(cur)
		if err != nil {
			fmt.Printf("pass %d: ERROR %v\n", i, err)
			return
		}
		fmt.Printf("--- pass %d (changed=%v)\n%s", i, out != cur, out)
		cur = out
	}
}
