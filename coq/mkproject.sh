#!/bin/sh
# regenerate _CoqProject from the files present (extract/ and cases are compiled separately)
cd "$(dirname "$0")"
{ echo "-Q . V"; echo "-arg -w -arg -deprecated-syntactic-definition,-notation-overridden"; ls lib/*.v spec/*.v model/*.v gen/*.v proofs/*.v props/*.v 2>/dev/null; } > _CoqProject.new
cmp -s _CoqProject.new _CoqProject 2>/dev/null && rm _CoqProject.new || { mv _CoqProject.new _CoqProject; coq_makefile -f _CoqProject -o Makefile >/dev/null; }
[ -f Makefile ] || coq_makefile -f _CoqProject -o Makefile >/dev/null
