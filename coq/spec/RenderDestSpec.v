(* C10 - specification for a render whose destination is a buffered writer the CALLER owns (a *bufio.Writer in
   front of the connection, file, recorder ...), stated on what the writer BEHIND it is handed.

   The caller renders into its buffered writer and then flushes it.  What counts is what arrives at the writer
   behind it:
     d, de  : the document and the program's own first failure (from [RenderSpec.denote])
     hs     : the errors of the limited writers of the program's hand-written components (from [RenderSpec.host_errs])
     res    : what Render returned
     fres   : what the caller's Flush() returned afterwards
     got    : the bytes the writer behind the caller's buffered writer accepted, during Render and that Flush
     l1, l2 : the record of that writer's answers during Render / during the caller's Flush
     foreign: the number of calls any OTHER destination object of the caller saw in the meantime *)
From Coq.Strings Require Import Byte String.
From Coq Require Import List NArith Bool Arith.
Import ListNotations.
From V Require Import lib.Bytes spec.RenderSpec.
Local Open Scope nat_scope.

Definition spec_wrap_ok (d : bytes) (de : option err) (hs : list err) (res fres : option err) (got : bytes) (l1 l2 : list logent)
                        (foreign : nat) : Prop :=
  prefix got d /\
  (res = None -> fres = None -> got = d /\ de = None) /\
  (forall x, first_refusal l1 = Some x -> res = Some x \/ (res = de /\ de <> None) \/ (exists y, res = Some y /\ In y hs)) /\
  (first_refusal l1 = None -> res = de \/ (exists y, res = Some y /\ In y hs)) /\
  fres = first_refusal (l1 ++ l2) /\
  foreign = 0.

(* the same predicate over canonically encoded results, for the harness *)
Definition spec_wrap_okb (d : bytes) (de : option err) (hs : list err) (res fres : bytes) (got : bytes) (l1 l2 : list logent)
                         (foreign : nat) : bool :=
  prefixb got d &&
  (if bytes_eqb res (bs "nil") && bytes_eqb fres (bs "nil") then bytes_eqb got d && negb (is_some de) else true) &&
  match first_refusal l1 with
  | Some x => bytes_eqb res (enc_err x) || (bytes_eqb res (enc_res de) && is_some de) || res_in res hs
  | None => bytes_eqb res (enc_res de) || res_in res hs
  end &&
  bytes_eqb fres (enc_res (first_refusal (l1 ++ l2))) &&
  Nat.eqb foreign 0.
