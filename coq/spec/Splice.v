(* Specification for C17: what the EDITOR's buffer looks like after a content change.
   Written over the flat byte string only (no line array): a position is turned into a byte offset by
   walking the text, both ends are clamped (a column past the end of its line means the end of that line,
   a line past the last line means the end of the text), and the change is a byte splice.
   Columns are counted in bytes, as the anchored code counts them (UTF-16 units for non-ASCII lines are
   outside the property's alphabet, DESIGN section 10). *)
From Coq.Strings Require Import Byte String.
From Coq Require Import List NArith Arith Bool.
Import ListNotations.
From V Require Import lib.Bytes lib.Lsp.
Local Open Scope nat_scope.

Definition LF : byte := x0a.

(* byte offset of position (l, c) in s *)
Fixpoint offset_of (s : bytes) (l c : N) : nat :=
  match s with
  | [] => 0
  | b :: r =>
      if (l =? 0)%N then
        if (c =? 0)%N then 0
        else if Byte.eqb b LF then 0              (* column beyond the end of the line: stay before the LF *)
        else S (offset_of r 0%N (N.pred c))
      else S (offset_of r (if Byte.eqb b LF then N.pred l else l) c)
  end.

Definition splice (s : bytes) (a b : nat) (w : bytes) : bytes := firstn a s ++ w ++ skipn b s.

(* one content change applied to the editor's text *)
Definition edit (s : bytes) (r : option range) (w : bytes) : bytes :=
  match r with
  | None => w
  | Some r => splice s (offset_of s (line (start r)) (char (start r)))
                       (offset_of s (line (stop r)) (char (stop r))) w
  end.

Definition edit_change (s : bytes) (c : change) : bytes := edit s (crange c) (ctext c).

Definition editor_step (s : bytes) (e : event) : bytes :=
  match e with
  | Open s' => s'
  | Change cs => fold_left edit_change cs s
  end.

(* the editor's text after opening s0 and then sending the events es *)
Definition editor_text (s0 : bytes) (es : list event) : bytes := fold_left editor_step es s0.

(* an LSP range is valid when start <= end (lexicographically) *)
Definition pos_le (a b : pos) : Prop :=
  (line a < line b)%N \/ (line a = line b /\ (char a <= char b)%N).
Definition range_valid (r : option range) : Prop :=
  match r with None => True | Some r => pos_le (start r) (stop r) end.
Definition change_valid (c : change) : Prop := range_valid (crange c).
Definition event_valid (e : event) : Prop :=
  match e with Open _ => True | Change cs => Forall change_valid cs end.

(* decidable versions, for the extracted checker *)
Definition pos_leb (a b : pos) : bool :=
  (line a <? line b)%N || ((line a =? line b)%N && (char a <=? char b)%N).
Definition range_validb (r : option range) : bool :=
  match r with None => true | Some r => pos_leb (start r) (stop r) end.
