(* Specification for C11, components: what it means for a component built from templ's own combinators
   (ComponentFunc, templ.Raw, templ.Join, templ.Flush with children, OnceHandle.Once, generated templates,
   children blocks, a writer that fails) to render completely, and to fail.  Declarative (big-step
   relations), written independently of the model in model/CompModel.v.

   This is the Render contract the handler theorems take as their hypothesis - "Render returns an error
   iff something failed, and a render that did not fail has written the complete document" - spelled out
   for composed components: [ok] says which document a composition renders to, [ko] that a failure point
   is reached. *)
From Coq.Strings Require Import Byte String.
From Coq Require Import List NArith Bool.
Import ListNotations.
From V Require Import lib.Bytes.
Open Scope N_scope.

Inductive comp :=
| CNop                                   (* templ.NopComponent; a template body without nodes *)
| CLeaf (chs : list bytes) (fail : bool) (* templ.ComponentFunc writing the chunks, then returning an error iff [fail];
                                            a { expression } of a template whose Go expression returns (string, error) *)
| CRaw (b : bytes)                       (* templ.Raw(b); literal text of a generated template *)
| CSeq (a b : comp)                      (* templ.Join(a, b); successive nodes of a template body *)
| CFlush (c : comp)                      (* @templ.Flush() { c } : FlushComponent rendered with children c *)
| COnce (h : nat) (c : comp)             (* @handle.Once() { c } for the handle number h *)
| COnceC (h : nat) (c : comp)            (* templ.NewOnceHandle(templ.WithComponent(c)).Once(), handle number h *)
| CTempl (c : comp)                      (* a template generated from a .templ file whose body is c *)
| CLimit (n : N) (c : comp).             (* a ComponentFunc rendering c into a writer that accepts n bytes and fails from then on *)

(* The state of the context a component is rendered with: [None] - it carries no templ value (the handler
   hands r.Context() to the component as it is); [Some l] - it carries one, in which the once-handles [l]
   have been rendered.  Generated templates and calls with children give the components below them a context
   that carries a value; one created there is not seen by the components that follow. *)
Notation octx := (option (list nat)).
Definition enter (st : octx) : octx := match st with None => Some [] | _ => st end.
Definition leave (st st' : octx) : octx := match st with None => None | _ => st' end.
Definition seen (h : nat) (st : octx) : bool :=
  match st with Some l => existsb (Nat.eqb h) l | None => false end.
Definition mark (h : nat) (st : octx) : octx :=
  match st with Some l => Some (h :: l) | None => None end.

(* [ok d st c doc st']: rendered with a context in state [st] ([d]: the context is already done - cancelled
   or past its deadline), c renders completely; [doc] is what it wrote.
   [ko d st c]: a failure point is reached. *)
Inductive ok (d : bool) : octx -> comp -> bytes -> octx -> Prop :=
| ok_nop st : ok d st CNop [] st
| ok_leaf st chs : ok d st (CLeaf chs false) (concat chs) st
| ok_raw st b : ok d st (CRaw b) b st
| ok_seq st a b x1 st1 x2 st2 : ok d st a x1 st1 -> ok d st1 b x2 st2 -> ok d st (CSeq a b) (x1 ++ x2) st2
| ok_flush st c x st' : ok d (enter st) c x st' -> ok d st (CFlush c) x (leave st st')
| ok_once_again st h c : seen h (enter st) = true -> ok d st (COnce h c) [] st
| ok_once_first st h c x st' : seen h (enter st) = false -> ok d (mark h (enter st)) c x st' -> ok d st (COnce h c) x (leave st st')
| ok_oncec_again st h c : seen h st = true -> ok d st (COnceC h c) [] st
| ok_oncec_first st h c x st' : seen h st = false -> ok d (mark h st) c x st' -> ok d st (COnceC h c) x st'
| ok_templ st c x st' : d = false -> ok d (enter st) c x st' -> ok d st (CTempl c) x (leave st st')
| ok_limit st n c x st' : ok d st c x st' -> N.of_nat (length x) <= n -> ok d st (CLimit n c) x st'.

Inductive ko (d : bool) : octx -> comp -> Prop :=
| ko_leaf st chs : ko d st (CLeaf chs true)
| ko_seq_l st a b : ko d st a -> ko d st (CSeq a b)
| ko_seq_r st a b x1 st1 : ok d st a x1 st1 -> ko d st1 b -> ko d st (CSeq a b)
| ko_flush st c : ko d (enter st) c -> ko d st (CFlush c)
| ko_once st h c : seen h (enter st) = false -> ko d (mark h (enter st)) c -> ko d st (COnce h c)
| ko_oncec st h c : seen h st = false -> ko d (mark h st) c -> ko d st (COnceC h c)
| ko_templ_ctx st c : d = true -> ko d st (CTempl c)             (* generated code returns ctx.Err() first *)
| ko_templ st c : d = false -> ko d (enter st) c -> ko d st (CTempl c)
| ko_limit_in st n c : ko d st c -> ko d st (CLimit n c)
| ko_limit st n c x st' : ok d st c x st' -> n < N.of_nat (length x) -> ko d st (CLimit n c).

(* served by the handler: the context is the request's, without a templ value *)
Definition renders_to (d : bool) (c : comp) (doc : bytes) : Prop := exists st', ok d None c doc st'.
Definition render_fails (d : bool) (c : comp) : Prop := ko d None c.
