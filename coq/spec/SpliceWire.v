(* Specification for C17 at the wire: the EDITOR's open buffers after a stream of notifications.
   LSP 3.17, TextDocumentContentChangeEvent: an element with a range replaces that range of the buffer by
   text; an element without a range (member absent, or null) carries the whole new text.  rangeLength is
   deprecated and redundant with range; it does not change the meaning.  What a change means depends on that
   change's own members only - never on an earlier change or notification.
   The editor holds one buffer per open URI: didOpen creates (or resets) it, didClose drops it, didChange
   edits it; a didChange for a URI that is not open has no buffer to edit. *)
From Coq.Strings Require Import Byte String.
From Coq Require Import List NArith Arith Bool.
Import ListNotations.
From V Require Import lib.Bytes lib.Lsp lib.LspWire spec.Splice.

Definition wire_edit (s : bytes) (w : wchange) : bytes :=
  match wrange w with
  | Present r => splice s (offset_of s (line (start r)) (char (start r)))
                          (offset_of s (line (stop r)) (char (stop r))) (wtext w)
  | Absent | Null => wtext w
  end.

(* the editor's open buffers: URI -> text *)
Notation buffers := (bytes -> option bytes).
Definition no_buffers : buffers := fun _ => None.

Definition editor_note (m : buffers) (n : note) : buffers :=
  match n with
  | DidOpen u s => fun k => if bytes_eqb k u then Some s else m k
  | DidChange u cs =>
      match m u with
      | Some s => let s' := fold_left wire_edit cs s in fun k => if bytes_eqb k u then Some s' else m k
      | None => m
      end
  | DidClose u => fun k => if bytes_eqb k u then None else m k
  end.

Definition editor_buffers (ns : list note) : buffers := fold_left editor_note ns no_buffers.

(* valid: every range that is present has start <= end *)
Definition wchange_valid (w : wchange) : Prop :=
  match wrange w with Present r => pos_le (start r) (stop r) | Absent | Null => True end.
Definition note_valid (n : note) : Prop :=
  match n with DidChange _ cs => Forall wchange_valid cs | DidOpen _ _ | DidClose _ => True end.
