(* C12 - specification side: the vocabulary of a rendering history (scripts, CSS classes in every
   container form templ.Classes accepts, once handles, uses), the abstract event log, and what the
   property demands of a log.  Nothing here looks at how the runtime keeps its registry. *)
From Coq.Strings Require Import Byte String.
From Coq Require Import List NArith Bool.
Import ListNotations.
From V Require Import lib.Bytes.

(* templ.ComponentScript *)
Record script := mkScript { sname : bytes; sfun : bytes; scall : bytes; sinline : bytes }.
(* templ.ComponentCSSClass *)
Record cls := mkCls { cid : bytes; crule : bytes }.
(* a value of interface type templ.CSSClass *)
Inductive cssclass :=
| KComp (c : cls)            (* ComponentCSSClass *)
| KConst (n : bytes)         (* ConstantCSSClass *)
| KOther (n : bytes).        (* any other type with a ClassName method *)

(* every dynamic type the two type switches of runtime.go mention, plus "anything else" *)
Inductive cform :=
| FStrings (l : list bytes)                  (* []string *)
| FString (n : bytes)                        (* string *)
| FConst (n : bytes)                         (* ConstantCSSClass *)
| FComp (c : cls)                            (* ComponentCSSClass *)
| FMap (l : list (bytes * bool))             (* map[string]bool, in any order *)
| FListKVString (l : list (bytes * bool))    (* []KeyValue[string,bool] *)
| FKVString (n : bytes) (b : bool)           (* KeyValue[string,bool] *)
| FListKVClass (l : list (cssclass * bool))  (* []KeyValue[CSSClass,bool] *)
| FKVClass (k : cssclass) (b : bool)         (* KeyValue[CSSClass,bool] *)
| FKVComp (c : cls) (b : bool)               (* KeyValue[ComponentCSSClass,bool] *)
| FNested (l : list cform)                   (* CSSClasses (what templ.Classes returns) *)
| FListClass (l : list cssclass)             (* []CSSClass *)
| FFunc (k : cssclass)                       (* func() CSSClass *)
| FKVConst (n : bytes) (b : bool)            (* KeyValue[ConstantCSSClass,bool] *)
| FListKVConst (l : list (bytes * bool))     (* []KeyValue[ConstantCSSClass,bool] *)
| FOther (n : bytes)                         (* a value of some other CSSClass type, passed directly *)
| FUnknown.                                  (* anything else, e.g. an int *)

(* one use in a history *)
Inductive op :=
| OText (t : bytes)                                   (* literal markup *)
| ORender (s : script)                                (* @s : ComponentScript.Render *)
| OScriptItems (l : list script)                      (* templ.RenderScriptItems *)
| OCSSItems (fs : list cform)                         (* templ.RenderCSSItems *)
| OElem (fs : list cform) (ss : list script)          (* <div class={ fs... } onclick={ s } ...> as generated *)
| OOnce (h : N) (body : list op)                      (* @handle.Once() { body } : the handle is given a child block *)
| OOnceC (h : N) (body : list op)                     (* @handle.Once() (self-closing) on a handle built with
                                                         templ.NewOnceHandle(templ.WithComponent(c())), templ c() { body } *)
| OOnceSelf (h : N)                                   (* @handle.Once() (self-closing) on a handle that has no component:
                                                         nothing to render, the handle counts as rendered *)
| OCall (slot : bool) (pre : list op) (blk : bool) (block : list op) (post : list op)
                                                      (* @c() (blk = false) or @c() { block } (blk = true), where
                                                         templ c() { pre { children... } post } (slot = true) or
                                                         templ c() { pre post } (slot = false) *)
| ONonce (n : bytes)                                  (* templ.WithNonce(ctx, n) somewhere in the rendering context *)
| OMiddleware (l : list cssclass).                    (* the request, carrying this rendering context, passes through
                                                         templ.NewCSSMiddleware(next, l...): a second, stacked middleware, or
                                                         one below a handler that has already initialised the context and
                                                         rendered into it *)

(* ---------- the abstract log ---------- *)
Inductive id := Script (n : bytes) | Class (c : bytes) | Handle (h : N).
(* Reg i: from here on i is registered with a CSS middleware (its rule is served by that middleware's stylesheet) *)
Inductive ev := Def (i : id) | Use (i : id) | Reg (i : id).

Definition id_eqb (a b : id) : bool :=
  match a, b with
  | Script x, Script y => bytes_eqb x y
  | Class x, Class y => bytes_eqb x y
  | Handle x, Handle y => N.eqb x y
  | _, _ => false
  end.
Definition mem_id (i : id) (l : list id) : bool := existsb (id_eqb i) l.
Definition memb (n : bytes) (l : list bytes) : bool := existsb (bytes_eqb n) l.

Definition defs (l : list ev) : list id := flat_map (fun e => match e with Def i => [i] | _ => [] end) l.
Definition regs (l : list ev) : list id := flat_map (fun e => match e with Reg i => [i] | _ => [] end) l.

(* each definition at most once *)
Definition at_most_once (l : list ev) : Prop := NoDup (defs l).
(* every use is preceded by the definition, or the item was registered before the history began, or it was
   registered by a middleware the rendering context passed through before the use *)
Definition before_first_use (registered : id -> Prop) (l : list ev) : Prop :=
  forall pre i post, l = pre ++ Use i :: post -> registered i \/ In i (defs pre) \/ In i (regs pre).
(* once an item is registered with a middleware, whatever the context held before, it is not written into the page *)
Definition never_inlined_once_registered (l : list ev) : Prop :=
  forall pre i post, l = pre ++ Reg i :: post -> ~ In i (defs post).

(* ---------- which component classes an expression holds, with their switch ---------- *)
Definition held_class (k : cssclass) (b : bool) : list (cls * bool) :=
  match k with KComp c => [(c, b)] | _ => [] end.
Fixpoint held (f : cform) : list (cls * bool) :=
  match f with
  | FComp c => [(c, true)]
  | FKVComp c b => [(c, b)]
  | FKVClass k b => held_class k b
  | FListKVClass l => flat_map (fun kb : cssclass * bool => held_class (fst kb) (snd kb)) l
  | FListClass l => flat_map (fun k => held_class k true) l
  | FFunc k => held_class k true
  | FNested l => flat_map held l
  | _ => []
  end.
Definition held_l (fs : list cform) : list (cls * bool) := flat_map held fs.
Definition held_enabled (fs : list cform) : list cls :=
  flat_map (fun cb : cls * bool => if snd cb then [fst cb] else []) (held_l fs).

(* ---------- what every use must yield, whatever has been emitted before ---------- *)
Inductive want :=
| WCallInline (s : script)      (* <script>call</script> after @s *)
| WCallAttr (s : script)        (* the call in the on* attribute *)
| WAttr (fs : list cform).      (* the class attribute of an element *)

(* running a function with state over a list, collecting what it yields *)
Definition seqf {S A B} (f : S -> A -> S * list B) : S -> list A -> S * list B :=
  fix go (s : S) (l : list A) : S * list B :=
    match l with
    | [] => (s, [])
    | o :: t => let '(s1, w1) := f s o in let '(s2, w2) := go s1 t in (s2, w1 ++ w2)
    end.

(* only once handles decide whether a use is reached at all: a body is rendered on the handle's first use, whichever
   way the handle got its content; a children slot holds the block given at the call and nothing else: it is empty
   when the call has no block, whatever was rendered before *)
Fixpoint wanted1 (hs : list N) (o : op) : list N * list want :=
  match o with
  | OText t => (hs, [])
  | ONonce _ => (hs, [])
  | OMiddleware _ => (hs, [])
  | ORender s => (hs, match scall s with [] => [] | _ => [WCallInline s] end)
  | OScriptItems _ => (hs, [])
  | OCSSItems _ => (hs, [])
  | OElem fs ss => (hs, match fs with [] => [] | _ => [WAttr fs] end ++ map WCallAttr ss)
  | OOnce h body =>
      if existsb (N.eqb h) hs then (hs, [])
      else (fix go (hs : list N) (l : list op) : list N * list want :=
              match l with
              | [] => (hs, [])
              | o :: t => let '(h1, w1) := wanted1 hs o in let '(h2, w2) := go h1 t in (h2, w1 ++ w2)
              end) (h :: hs) body
  | OOnceC h body => if existsb (N.eqb h) hs then (hs, []) else seqf wanted1 (h :: hs) body
  | OOnceSelf h => if existsb (N.eqb h) hs then (hs, []) else (h :: hs, [])
  | OCall slot pre blk block post =>
      let '(h1, w1) := seqf wanted1 hs pre in
      let '(h2, w2) := if slot && blk then seqf wanted1 h1 block else (h1, []) in
      let '(h3, w3) := seqf wanted1 h2 post in
      (h3, w1 ++ w2 ++ w3)
  end.
Fixpoint wanted (hs : list N) (l : list op) : list N * list want :=
  match l with
  | [] => (hs, [])
  | o :: t => let '(h1, w1) := wanted1 hs o in let '(h2, w2) := wanted h1 t in (h2, w1 ++ w2)
  end.

(* ---------- the names an expression sets, with their switches (templ.KV(name, false) switches a name off;
   the last setting of a name wins) ---------- *)
Definition class_name (k : cssclass) : bytes :=
  match k with KComp c => cid c | KConst n => n | KOther n => n end.
Fixpoint settings (f : cform) : list (bytes * bool) :=
  match f with
  | FStrings l => map (fun n => (n, true)) l
  | FString n => [(n, true)]
  | FConst n => [(n, true)]
  | FComp c => [(cid c, true)]
  | FMap l => l
  | FListKVString l => l
  | FKVString n b => [(n, b)]
  | FListKVClass l => map (fun kb : cssclass * bool => (class_name (fst kb), snd kb)) l
  | FKVClass k b => [(class_name k, b)]
  | FKVComp c b => [(cid c, b)]
  | FNested l => flat_map settings l
  | FListClass l => map (fun k => (class_name k, true)) l
  | FFunc k => [(class_name k, true)]
  | FKVConst n b => [(n, b)]
  | FListKVConst l => l
  | FOther n => [(n, true)]
  | FUnknown => []
  end.
Definition switched_off (fs : list cform) (n : bytes) : bool :=
  existsb (fun nb : bytes * bool => bytes_eqb (fst nb) n && negb (snd nb)) (flat_map settings fs).

(* ---------- the decidable form of the demands, run on what the implementation wrote ---------- *)
(* what the harness reads back from the rendered bytes, in document order *)
Inductive iev :=
| IDef (i : id)                 (* a function definition inside <script>, a rule inside <style>, a once body's marker *)
| ICallInline (c : bytes)       (* <script>c</script> holding a call *)
| ICallAttr (c : bytes)         (* on*="c" *)
| INames (ns : list bytes)      (* class="n1 n2 ..." *)
| IReg (i : id).                (* no bytes: at this point of the document the rendering context passed through a CSS
                                   middleware that registers i *)

(* check_log d w l: no definition repeats or repeats something in d (registered up front, registered by a
   middleware passed since, or defined earlier); every use in l is the next wanted one, carries its call / the names of the component
   classes it holds enabled (unless the expression switches that name off), and what it uses has been
   defined; nothing wanted is left over. *)
Fixpoint check_log (d : list id) (w : list want) (l : list iev) : bool :=
  match l with
  | [] => match w with [] => true | _ => false end
  | IDef i :: t => negb (mem_id i d) && check_log (i :: d) w t
  | IReg i :: t => check_log (i :: d) w t
  | ICallInline c :: t =>
      match w with
      | WCallInline s :: w' => bytes_eqb c (sinline s) && mem_id (Script (sname s)) d && check_log d w' t
      | _ => false end
  | ICallAttr c :: t =>
      match w with
      | WCallAttr s :: w' => bytes_eqb c (scall s) && mem_id (Script (sname s)) d && check_log d w' t
      | _ => false end
  | INames ns :: t =>
      match w with
      | WAttr fs :: w' =>
          forallb (fun c => (switched_off fs (cid c) || memb (cid c) ns) &&
                            (negb (memb (cid c) ns) || mem_id (Class (cid c)) d)) (held_enabled fs)
          && check_log d w' t
      | _ => false end
  end.
