(* SPECIFICATION side of C03, script level: how a JavaScript engine reads the TEXT OF A WHOLE SCRIPT ELEMENT, and what
   "the Go values arrive as data only" means for a script whose text has holes.
   Independent of templ's code: nothing here mentions templ's parser, its escapers or encoding/json.

     sym                       a template symbol: a byte of the author's script text, or hole number i (a {{ }} expression)
     step / run                a lexer for script text, one symbol at a time, over the modes
                                 MCode        script text outside literals and comments
                                 MStr q e     inside a '...', "..." or `...` literal (e: after a backslash / after backslash CR)
                                 MLine        inside a // comment (ends at LF, CR, U+2028, U+2029)
                                 MBlock       inside a /* comment
                                 MStop        lexing stopped (see TStop)
                               The string mode makes exactly the decisions of JsLex.lex_go (proved: proofs/JsScriptProof.v).
                               It emits tokens
                                 TCode c      a maximal run of script text outside literals and comments
                                 TStr v       a string literal (or template without substitutions) and its value
                                 TCom c       a comment
                                 TStop w      lexing stopped: L = line terminator inside '...' / "...", I = template interpolation "${",
                                              U = input ended inside a literal or block comment, E = a hole right after a backslash
                                              (what stands there is an escape sequence begun by the author) or inside a comment
                               and, for every hole, its lexical position (EPos true = inside a literal).
                               LINE TERMINATORS (ECMAScript 12.3) are LF, CR, U+2028, U+2029; CR LF is one terminator sequence.
                                 - in script text they are script text; each of the four ends a // comment;
                                 - backslash + terminator sequence inside any literal is a LineContinuation: it contributes
                                   nothing to the value.  Backslash CR is complete as it stands (state E2): an LF that follows
                                   belongs to it, anything else - a hole included - is read as the next character of the literal;
                                 - a raw terminator inside `...` is part of the value (CR LF and CR cook to LF);
                                 - a raw terminator inside '...' / "..." is not JavaScript: the literal is not closed on its line
                                   and no engine runs any part of such a script.  Lexing stops there (TStop L).  U+2028/9 are
                                   treated this way too (engines before ES2019): conservative.
                               On a template, a hole in script text stands for ONE string token whose value is the Go string
                               (invalid bytes scrubbed, as a JSON encoder must); a hole inside a literal stands for the Go string's
                               bytes as part of that literal's value.
     confined vals tpl out     THE PROPERTY for one rendering: the token sequence of the rendered script [out] is the token
                               sequence of the template [tpl] with the holes standing for the values [vals] - so every byte of
                               script text outside literals is the author's, every literal ends where the author ended it and has
                               the value the author wrote around the Go string - and [out] has as many "</script" / "<!--" places
                               as the author's text.
                               TEMPLATES THAT ARE NOT JAVASCRIPT (lexing stops: a literal not closed on its line, "${", input
                               ending inside a literal or comment): the token sequence ends with the TStop token, and [confined]
                               demands that the rendering has the same tokens up to there AND stops at the same place for the
                               same reason - whatever the values of the holes before it, the rendering is rejected by the engine
                               exactly as the author's text is, so no value makes a script run that the author's text does not.
                               Nothing behind the stop is compared as JavaScript (there is no token structure to preserve; the
                               holes behind it get no lexical position), but the "</script" / "<!--" places are counted over the
                               WHOLE text, stop or not: a value behind the stop still cannot end the element.  What templ's
                               parser makes of the text behind a stop is the subject of the model tracker (model/JsTrack.v,
                               tied to the parser on every generated template) - not of this predicate.
   Not recognised (trusted limits): regular-expression literals (a "/" that is not "//" or "/*" is script text), "${ }"
   interpolations (lexing stops there), HTML-like comments of Annex B ("<!--", "-->").                                        *)
From Coq.Strings Require Import Byte String.
From Coq Require Import List NArith Bool Lia.
Import ListNotations.
From V Require Import lib.Bytes lib.Utf8 spec.JsLex.

Inductive sym := SB (b : byte) | SH (i : nat).

(* ---------------- look-ahead over symbols: a hole is never part of a byte pattern ---------------- *)
Fixpoint sb_prefix (p : bytes) (s : list sym) : bool :=
  match p, s with
  | [], _ => true
  | x :: p', SB y :: s' => Byte.eqb x y && sb_prefix p' s'
  | _ :: _, _ => false
  end.
Fixpoint sb_prefix_ci (p : bytes) (s : list sym) : bool :=   (* p is given in lower case *)
  match p, s with
  | [], _ => true
  | x :: p', SB y :: s' => Byte.eqb x (lower y) && sb_prefix_ci p' s'
  | _ :: _, _ => false
  end.
Definition s_next_is (b : byte) (r : list sym) : bool := match r with SB d :: _ => Byte.eqb d b | _ => false end.
Definition s_lsps_at (s : list sym) : bool := sb_prefix ls_bytes s || sb_prefix ps_bytes s.
Definition s_lt_at (s : list sym) : bool :=
  match s with SB c :: _ => Byte.eqb c x0a || Byte.eqb c x0d || s_lsps_at s | _ => false end.

(* ---------------- tokens ---------------- *)
Inductive tok := TCode (c : bytes) | TStr (v : option bytes) | TCom (c : bytes) | TStop (why : byte).
Inductive ev := ETok (t : tok) | EPos (inside : bool).

(* the body of a literal on a template: raw bytes of the author and holes *)
Inductive piece := PcRaw (b : byte) | PcHole (i : nat).

(* value of a literal: every maximal run of raw bytes is read by JsLex.js_unescape, every hole contributes its string *)
Fixpoint lit_value (q : quote) (vals : list bytes) (ps : list piece) (raw : bytes) : option bytes :=
  match ps with
  | [] => js_unescape q (rev raw)
  | PcRaw b :: r => lit_value q vals r (b :: raw)
  | PcHole i :: r =>
      match js_unescape q (rev raw), lit_value q vals r [] with
      | Some a, Some b => Some (a ++ nth i vals [] ++ b)
      | _, _ => None
      end
  end.

Inductive escst := E0 | E1 | E2.      (* E1: the previous byte was an unescaped backslash; E2: backslash CR was just read *)
Inductive mode :=
| MCode (acc : bytes)                                   (* acc, ps: what the current token holds so far, reversed *)
| MStr (q : quote) (e : escst) (ps : list piece)
| MLine (acc : bytes)
| MBlockOpen (acc : bytes)                              (* the "/" of "/*" was read, its "*" is next *)
| MBlock (acc : bytes) (star : bool)                    (* star: the previous byte was a "*" that can close the comment *)
| MStop.

Definition quote_of (c : byte) : option quote :=
  if Byte.eqb c x27 then Some QSingle else if Byte.eqb c x22 then Some QDouble else if Byte.eqb c x60 then Some QBacktick else None.
Definition code_tok (acc : bytes) : list ev := match acc with [] => [] | _ => [ETok (TCode (rev acc))] end.
Definition stop (w : byte) : mode * list ev := (MStop, [ETok (TStop w)]).

(* one symbol: s is the input from the current symbol on (for look-ahead) *)
Definition step (vals : list bytes) (m : mode) (s : list sym) : mode * list ev :=
  match s with
  | [] => (m, [])
  | x :: r =>
      match m with
      | MStop => (MStop, [])
      | MCode acc =>
          match x with
          | SH i => (MCode [], code_tok acc ++ [EPos false; ETok (TStr (Some (scrub (nth i vals []))))])
          | SB c =>
              match quote_of c with
              | Some q => (MStr q E0 [], code_tok acc)
              | None =>
                  if Byte.eqb c x2f && s_next_is x2f r then (MLine [c], code_tok acc)
                  else if Byte.eqb c x2f && s_next_is x2a r then (MBlockOpen [c], code_tok acc)
                  else (MCode (c :: acc), [])
              end
          end
      | MStr q e ps =>
          match x with
          | SH i => match e with E1 => stop x45 | _ => (MStr q E0 (PcHole i :: ps), [EPos true]) end
          | SB c =>
              match (match e with E2 => if Byte.eqb c x0a then E2 else E0 | _ => e end) with
              | E2 => (MStr q E0 (PcRaw c :: ps), [])                       (* the LF of a backslash CR LF continuation *)
              | E1 => (MStr q (if Byte.eqb c x0d then E2 else E0) (PcRaw c :: ps), [])   (* whatever follows a backslash *)
              | E0 =>
                  if Byte.eqb c x5c then (MStr q E1 (PcRaw c :: ps), [])
                  else if Byte.eqb c (qbyte q) then (MCode [], [ETok (TStr (lit_value q vals (rev ps) []))])
                  else if is_backtick q && Byte.eqb c x24 && s_next_is x7b r then stop x49
                  else if negb (is_backtick q) && s_lt_at s then stop x4c
                  else (MStr q E0 (PcRaw c :: ps), [])
              end
          end
      | MLine acc =>
          match x with
          | SH _ => stop x45
          | SB c => if s_lt_at s then (MCode [c], [ETok (TCom (rev acc))]) else (MLine (c :: acc), [])
          end
      | MBlockOpen acc =>
          match x with
          | SH _ => stop x45
          | SB c => (MBlock (c :: acc) false, [])
          end
      | MBlock acc star =>
          match x with
          | SH _ => stop x45
          | SB c => if star && Byte.eqb c x2f then (MCode [], [ETok (TCom (rev (c :: acc)))])
                    else (MBlock (c :: acc) (Byte.eqb c x2a), [])
          end
      end
  end.

Definition flush (m : mode) : list ev :=
  match m with
  | MCode acc => code_tok acc
  | MLine acc => [ETok (TCom (rev acc))]
  | MStr _ _ _ | MBlockOpen _ | MBlock _ _ => [ETok (TStop x55)]
  | MStop => []
  end.

Fixpoint run (vals : list bytes) (m : mode) (s : list sym) : list ev :=
  match s with
  | [] => flush m
  | x :: r => let '(m', evs) := step vals m (x :: r) in evs ++ run vals m' r
  end.

Definition lex_script (vals : list bytes) (s : list sym) : list ev := run vals (MCode []) s.

Fixpoint toks_of (l : list ev) : list tok :=
  match l with [] => [] | ETok t :: r => t :: toks_of r | EPos _ :: r => toks_of r end.
Fixpoint positions (l : list ev) : list bool :=
  match l with [] => [] | EPos b :: r => b :: positions r | ETok _ :: r => positions r end.

(* ---------------- decidable equality of token sequences ---------------- *)
Definition obytes_eqb (a b : option bytes) : bool :=
  match a, b with Some x, Some y => bytes_eqb x y | None, None => true | _, _ => false end.
Definition tok_eqb (a b : tok) : bool :=
  match a, b with
  | TCode x, TCode y => bytes_eqb x y
  | TStr x, TStr y => obytes_eqb x y
  | TCom x, TCom y => bytes_eqb x y
  | TStop x, TStop y => Byte.eqb x y
  | _, _ => false
  end.
Fixpoint toks_eqb (a b : list tok) : bool :=
  match a, b with
  | [], [] => true
  | x :: a', y :: b' => tok_eqb x y && toks_eqb a' b'
  | _, _ => false
  end.

(* ---------------- the HTML level: places where the script element can end or a comment can open ---------------- *)
Definition s_end_at (s : list sym) : bool := sb_prefix_ci script_close s || sb_prefix comment_open s.
Fixpoint count_ends (s : list sym) : nat :=
  match s with [] => O | _ :: r => ((if s_end_at s then 1 else 0) + count_ends r)%nat end.

(* ---------------- the property for one rendering ---------------- *)
Definition bytes_syms (out : bytes) : list sym := map SB out.
Definition same_tokens (vals : list bytes) (tpl : list sym) (out : bytes) : bool :=
  toks_eqb (toks_of (lex_script [] (bytes_syms out))) (toks_of (lex_script vals tpl)).
Definition same_ends (tpl : list sym) (out : bytes) : bool := Nat.eqb (count_ends (bytes_syms out)) (count_ends tpl).
Definition confined (vals : list bytes) (tpl : list sym) (out : bytes) : bool := same_tokens vals tpl out && same_ends tpl out.

(* ---------------- the same template saved with CR LF line endings ---------------- *)
(* every LF of the author's text becomes CR LF; holes are untouched *)
Definition crlf_sym (x : sym) : list sym :=
  match x with SB c => if Byte.eqb c x0a then [SB x0d; SB x0a] else [x] | SH _ => [x] end.
Definition crlf (s : list sym) : list sym := flat_map crlf_sym s.
Definition no_cr (s : list sym) : bool :=
  forallb (fun x => match x with SB c => negb (Byte.eqb c x0d) | SH _ => true end) s.

(* the token structure alone: literal values forgotten *)
Definition skel_tok (t : tok) : tok := match t with TStr _ => TStr None | _ => t end.
Definition skeleton (l : list ev) : list tok := map skel_tok (toks_of l).

(* ---------------- the fragment of templates the theorems of props/C03.v cover ---------------- *)
(* [walk ok vals m s]: lexing s from mode m never stops, ends in script text, and [ok] holds before every symbol *)
Definition is_stop (m : mode) : bool := match m with MStop => true | _ => false end.
Definition in_code (m : mode) : bool := match m with MCode _ => true | _ => false end.
Fixpoint walk (ok : mode -> list sym -> bool) (vals : list bytes) (m : mode) (s : list sym) : bool :=
  match s with
  | [] => in_code m
  | x :: r => ok m (x :: r) && negb (is_stop (fst (step vals m (x :: r)))) && walk ok vals (fst (step vals m (x :: r))) r
  end.

Definition is_cont (b : byte) : bool := inr 128 191 b.                 (* a UTF-8 continuation byte *)
Definition head_not_cont (v : bytes) : bool := match v with b :: _ => negb (is_cont b) | [] => true end.
Definition js_ws (c : byte) : bool := inr 9 13 c || Byte.eqb c x20.    (* ASCII white space *)
Fixpoint skip_ws (s : list sym) : list sym :=
  match s with SB c :: r => if js_ws c then skip_ws r else s | _ => s end.
Definition lt_slash : bytes := [x3c; x2f].                             (* "</" *)

(* junctions between the author's text and a value, as far as LEXING is concerned:
     - the author's text is cut at rune boundaries: the lead byte E2 is followed by two bytes, no hole is followed by a
       continuation byte, and no value starts with one (all true of valid UTF-8);
     - in a template literal no "$" of the author stands directly before a hole *)
(* the CR of a "backslash CR" continuation and an LF of the author are not made one line ending by an empty value
   between them: the value of a hole that directly follows backslash CR is not empty, or the author's text after the hole
   starts with something other than LF *)
Definition cr_lf_kept (v : bytes) (r : list sym) : bool :=
  match v with
  | _ :: _ => true
  | [] => match r with SB d :: _ => negb (Byte.eqb d x0a) | [] => true | SH _ :: _ => false end
  end.
Definition after_bs_cr (m : mode) : bool := match m with MStr _ E2 _ => true | _ => false end.

Definition ok_junction (vals : list bytes) (m : mode) (s : list sym) : bool :=
  match s with
  | SB c :: r =>
      (if Byte.eqb c xe2 then match r with SB _ :: SB _ :: _ => true | _ => false end else true) &&
      match m with
      | MStr q E1 _ => true                                              (* an escaped "$" is an ordinary character *)
      | MStr q _ _ => negb (is_backtick q && Byte.eqb c x24 && match r with SH _ :: _ => true | _ => false end)
      | _ => true
      end
  | SH i :: r => head_not_cont (nth i vals []) && match r with SB d :: _ => negb (is_cont d) | _ => true end &&
                 (if after_bs_cr m then cr_lf_kept (nth i vals []) r else true)
  | [] => true
  end.
(* the same without the "$" clause (to state what fails without it) *)
Definition ok_junction_no_dollar (vals : list bytes) (m : mode) (s : list sym) : bool :=
  match s with
  | SB c :: r => if Byte.eqb c xe2 then match r with SB _ :: SB _ :: _ => true | _ => false end else true
  | SH i :: r => head_not_cont (nth i vals []) && match r with SB d :: _ => negb (is_cont d) | _ => true end &&
                 (if after_bs_cr m then cr_lf_kept (nth i vals []) r else true)
  | [] => true
  end.

(* where templ's script parser is known to read the text differently from a JavaScript lexer:
     - a backslash or "</" in script text (outside literals and comments);
     - "</" directly after a hole inside a literal (white space apart; something other than white space must follow the hole);
     - a line comment holding CR, U+2028 or U+2029 *)
Definition ok_tracker (m : mode) (s : list sym) : bool :=
  match m, s with
  | MCode _, SB c :: _ => negb (Byte.eqb c x5c) && negb (sb_prefix lt_slash s)
  | MStr _ e _, SH _ :: r =>
      match e with E1 => true | _ => match skip_ws r with [] => false | _ => negb (sb_prefix lt_slash (skip_ws r)) end end
  | MLine _, SB c :: _ => negb (Byte.eqb c x0d) && negb (s_lsps_at s)
  | _, _ => true
  end.
Definition ok_both (vals : list bytes) (m : mode) (s : list sym) : bool := ok_junction vals m s && ok_tracker m s.

Definition lexes_cleanly (vals : list bytes) (tpl : list sym) : bool := walk (ok_junction vals) vals (MCode []) tpl.
Definition tracker_fragment (vals : list bytes) (tpl : list sym) : bool := walk ok_tracker vals (MCode []) tpl.
Definition fragment (vals : list bytes) (tpl : list sym) : bool := walk (ok_both vals) vals (MCode []) tpl.
