(* Specification of property C05 END TO END: the CSS a browser reads out of a rendered document.

   style attribute:  the browser tokenizes the document (spec/HtmlTok.v), takes the raw value of the style
     attribute, DECODES ITS CHARACTER REFERENCES (spec/HtmlRefs.v, attribute mode, with the standard's full table
     spec/HtmlEntities.v and UTF-8) and hands the result to the CSS parser as a declaration list.  The property is
     judged on that decoded text: it must read back (spec/CssScan.v) as exactly the declarations written, one per
     dynamic (name, value) pair, each with a letters-and-hyphen name, a confined value and allow-listed URLs.
   <style> element:  the tokenizer is in RAWTEXT inside <style>: no character reference is decoded, the element
     ends at the first "</style".  The text of the element is handed to the CSS parser as a style sheet: a
     sequence of rules  selector { declarations }.  The property is judged on that text: it must read back as
     exactly the rules written (one per css component class), each holding exactly the declarations written.
   Written without reference to the model. *)
From Coq.Strings Require Import Byte String.
From Coq Require Import List NArith Bool.
Import ListNotations.
From V Require Import lib.Bytes spec.HtmlTok spec.HtmlRefs spec.HtmlEntities spec.Whatwg spec.CssScan.

(* attribute-value decoding as a browser does it *)
Definition css_decode_attr (v : bytes) : bytes := decode_refs html5_entities utf8_cp true v.

(* one declaration the property accepts *)
Definition decl_ok (d : bytes * bytes) : bool := name_ok (fst d) && confined (snd d) && urls_ok (snd d).

(* the declaration list t reads back as exactly n declarations, each acceptable *)
Definition decls_okb (t : bytes) (n : nat) : bool :=
  match decl_list t with
  | None => false
  | Some ds => Nat.eqb (length ds) n && forallb decl_ok ds
  end.

(* ---------- the style attribute ---------- *)
Fixpoint attr_raw (k : bytes) (l : list (bytes * bytes)) : option bytes :=
  match l with
  | [] => None
  | (n, v) :: r => if bytes_eqb n k then Some v else attr_raw k r    (* the first wins: later duplicates are dropped *)
  end.
(* raw value of the style attribute of the first start tag named elem that has one *)
Fixpoint find_style (elem : bytes) (ts : list token) : option bytes :=
  match ts with
  | [] => None
  | TStart n a _ :: r =>
      if bytes_eqb n elem then match attr_raw (bs "style") a with Some v => Some v | None => find_style elem r end
      else find_style elem r
  | _ :: r => find_style elem r
  end.
(* the CSS the browser's CSS parser receives for it *)
Definition style_attr_css (doc elem : bytes) : option bytes := option_map css_decode_attr (find_style elem (tok doc)).
(* END-TO-END predicate for a style attribute that was written from n dynamic (name, value) pairs *)
Definition style_attr_okb (doc elem : bytes) (n : nat) : bool :=
  match style_attr_css doc elem with Some css => decls_okb css n | None => false end.

(* ---------- <style> elements ---------- *)
(* the texts of the style elements of a token stream, in document order; None when one of them is not closed or
   holds anything but character tokens *)
Fixpoint style_scan (ts : list token) (cur : option bytes) (out : list bytes) : option (list bytes) :=
  match ts with
  | [] => match cur with None => Some (rev out) | Some _ => None end
  | t :: r =>
      match cur with
      | None =>
          match t with
          | TStart n _ _ => if isn n "style" then style_scan r (Some []) out else style_scan r None out
          | _ => style_scan r None out
          end
      | Some acc =>
          match t with
          | TChar b => style_scan r (Some (b :: acc)) out
          | TEnd n => if isn n "style" then style_scan r None (rev acc :: out) else None
          | _ => None
          end
      end
  end.
Definition style_texts (doc : bytes) : option (list bytes) := style_scan (tok doc) None [].

(* a style sheet "sel1{n:v;n:v;}sel2{...}" as the emitters write it, split with the CSS scanner: the selector
   runs to the first '{'; inside the block a '}' met where a declaration would start closes the rule; a name runs
   to the first ':', a value to the first ';' met between tokens with every block closed *)
Fixpoint take_selector (v : bytes) (acc : bytes) : option (bytes * bytes) :=
  match v with
  | [] => None
  | c :: r => if Byte.eqb c x7b then Some (rev acc, r) else take_selector r (c :: acc)
  end.
Fixpoint body_decls (fuel : nat) (v : bytes) : option (list (bytes * bytes) * bytes) :=
  match fuel with
  | O => None
  | S f =>
      match v with
      | [] => None
      | c :: r =>
          if Byte.eqb c x7d then Some ([], r)
          else match take_name v [] with
               | None => None
               | Some (n, r1) =>
                   match take_value init r1 [] with
                   | None => None
                   | Some (val, r2) =>
                       match body_decls f r2 with Some (ds, rest) => Some ((n, val) :: ds, rest) | None => None end
                   end
               end
      end
  end.
Fixpoint rules (fuel : nat) (v : bytes) : option (list (bytes * list (bytes * bytes))) :=
  match v with
  | [] => Some []
  | _ =>
      match fuel with
      | O => None
      | S f =>
          match take_selector v [] with
          | None => None
          | Some (sel, r) =>
              match body_decls (S (length r)) r with
              | None => None
              | Some (ds, rest) => match rules f rest with Some rs => Some ((sel, ds) :: rs) | None => None end
              end
          end
      end
  end.
Definition rule_list (v : bytes) : option (list (bytes * list (bytes * bytes))) := rules (S (length v)) v.

(* a class selector as templ writes it: '.' and a non-empty run of letters, digits, '_' and '-' *)
Definition class_byte (b : byte) : bool := css_alpha b || css_digit b || Byte.eqb b x5f || Byte.eqb b x2d.
Definition selector_ok (s : bytes) : bool :=
  match s with
  | c :: (_ :: _) as r => Byte.eqb c x2e && forallb class_byte r
  | _ => false
  end.

(* END-TO-END predicate for the text of a <style> element written for css component classes with counts[i]
   properties each: exactly those rules, class selectors, exactly those declarations, each acceptable *)
Fixpoint rules_match (rs : list (bytes * list (bytes * bytes))) (counts : list nat) : bool :=
  match rs, counts with
  | [], [] => true
  | (sel, ds) :: rs', n :: counts' => selector_ok sel && Nat.eqb (length ds) n && forallb decl_ok ds && rules_match rs' counts'
  | _, _ => false
  end.
Definition style_elem_okb (text : bytes) (counts : list nat) : bool :=
  match rule_list text with Some rs => rules_match rs counts | None => false end.
