(* Specification: the script elements the author of a page meant when the runtime is asked to render script
   templates, script handlers and JSON script elements in one context, as tokens.
     - every script element written on behalf of a script template carries the context's CSP nonce as ONE
       attribute value (no nonce attribute when the nonce is empty) and nothing else, whichever call wrote it and
       whatever was rendered before it in the same context;
     - the function text of a script name appears once per context (first use), the call of a component every time;
     - a JSON script element carries id, type and its nonce as single attribute values. *)
From Coq.Strings Require Import Byte String.
From Coq Require Import List NArith Bool.
Import ListNotations.
From V Require Import lib.Bytes spec.HtmlTok model.Escape model.DocFrag spec.DocExpect model.ScriptCtx.

(* one intended script element: id, type, nonce (absent when empty), content *)
Record sel := SEL { se_id : bytes; se_ty : bytes; se_nonce : bytes; se_body : bytes }.

Definition oattr (name v : bytes) : list (bytes * bytes) := match v with [] => [] | _ => [(name, escape v)] end.
Definition sel_tokens (e : sel) : list token :=
  TStart (bs "script") (oattr (bs "id") (se_id e) ++ oattr (bs "type") (se_ty e) ++ oattr (bs "nonce") (se_nonce e)) false
  :: chars (se_body e) ++ [TEnd (bs "script")].

(* the scripts of l whose name has not been rendered in this context yet, each name once *)
Fixpoint fresh (seen : list bytes) (l : list cscript) : list cscript :=
  match l with
  | [] => []
  | s :: r => if seen_has (cs_name s) seen then fresh seen r else s :: fresh (cs_name s :: seen) r
  end.
Definition defs (nonce : bytes) (fns : bytes) : list sel := match fns with [] => [] | _ => [SEL [] [] nonce fns] end.
Definition op_elems (nonce : bytes) (seen : list bytes) (o : sop) : list sel :=
  match o with
  | OItems l => defs nonce (flat_map cs_fn (fresh seen l))
  | ORender s => defs nonce (flat_map cs_fn (fresh seen [s])) ++
                 match cs_call s with [] => [] | _ => [SEL [] [] nonce (cs_inline s)] end
  | OJson id ty own body => [SEL id ty (match own with Some n => n | None => nonce end) body]
  end.
Definition op_seen (seen : list bytes) (o : sop) : list bytes :=
  match o with
  | OItems l => rev (map cs_name (fresh seen l)) ++ seen
  | ORender s => rev (map cs_name (fresh seen [s])) ++ seen
  | OJson _ _ _ _ => seen
  end.
Fixpoint ops_elems (keep : bool) (nonce : bytes) (seen : list bytes) (ops : list sop) : list sel :=
  match ops with
  | [] => []
  | o :: r => op_elems nonce seen o ++ ops_elems keep nonce (if keep then op_seen seen o else []) r
  end.
Definition ops_expected (keep : bool) (nonce : bytes) (seen : list bytes) (ops : list sop) : list token :=
  flat_map sel_tokens (ops_elems keep nonce seen ops).

(* the author's side: the text of every script element (function text, inline call, encoded JSON) holds no
   </script and no <!  - the same condition as for static script content (raw_static_ok) *)
Definition ops_wf (keep : bool) (nonce : bytes) (seen : list bytes) (ops : list sop) : bool :=
  forallb (fun e => raw_static_ok XScript (bs "script") (se_body e)) (ops_elems keep nonce seen ops).
