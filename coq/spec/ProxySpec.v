(* What C07 demands of the language-server proxy's per-document state (Server.TemplSource, Server.SourceMapCache,
   the Go text gopls was last given), independently of how the server maintains it.
   [generate d] = the Go text and the source map (both tables) the generator yields for the document text d, None
   when d is not an accepted template file. *)
From Coq.Strings Require Import Byte String.
From Coq Require Import List NArith Bool.
Import ListNotations.
From V Require Import lib.Bytes.
Notation pos := (N * N * N)%type.
Notation key := (N * N)%type.
Notation smap := (list (key * pos)).

Section ProxySpec.
  Variable generate : bytes -> option (bytes * (smap * smap)).

  (* Whenever the text held for a document is accepted, the map held for it is the source map of THAT text and gopls
     has the Go text generated from THAT text: positions of the text the editor shows are translated with the map of
     that text into the Go file gopls actually has. *)
  Definition held_map_current (held : option bytes) (cached : option (smap * smap)) (at_gopls : option bytes) : Prop :=
    forall d code m, held = Some d -> generate d = Some (code, m) -> cached = Some m /\ at_gopls = Some code.

  (* Whatever map is held (also while the held text is not accepted) is the source map of an accepted text whose
     generated Go text is the one gopls has: map and Go file never come from different versions. *)
  Definition held_map_matches_gopls (cached : option (smap * smap)) (at_gopls : option bytes) : Prop :=
    forall m, cached = Some m -> exists d code, generate d = Some (code, m) /\ at_gopls = Some code.
End ProxySpec.
