(* Specification for C05: what it means for a CSS declaration value to stay inside its declaration.

   A scanner over the bytes of a value, following CSS Syntax Level 3 section 4 (tokenisation) and
   section 5.4.6-5.4.8 (consume a declaration / a component value / a simple block), written
   independently of the sanitiser.  The value is read as the text between "name:" and the ";" that the
   emitter writes after it.  [confined v] holds when that ";" is the one that ends the declaration:

     - no ';' at the top level of v, no '{' or '}' outside a string (a {}-block in a declaration value is
       re-read as a nested rule by CSS Nesting parsers; '}' at the top level ends the rule);
     - every string is closed inside v and contains no line break (bad-string) and no trailing '\';
     - no comment opener "/*";
     - no '\' that would escape the following ';' and no '\' followed by a line break or by '<';
     - every '(' opens url( - an identifier that is exactly "url" (ASCII case-insensitively), not the tail
       of a longer identifier, hash, at-keyword or dimension, and not written with escapes;
     - a url( token / function is closed inside v; a bad-url (4.3.14: its remnants run to the next
       unescaped ')') is closed inside v as well and references nothing;
     - every '[' and 'url(' opened in v is closed in v;
     - no '<' anywhere (so "</style" cannot occur in a <style> element).

   The scanner is conservative: it may reject text a browser would keep inside the declaration,
   never the converse.  [urls v] lists the arguments of the url(...) references met on the way, raw
   (no escape is decoded; a URL that contains a '\' is simply not [url_ok]).  *)
From Coq.Strings Require Import Byte String.
From Coq Require Import List NArith Bool.
Import ListNotations.
From V Require Import lib.Bytes spec.Whatwg.
Open Scope N_scope.

Inductive mode :=
| Normal                              (* between tokens, or inside an identifier-like run *)
| Slash                               (* just read '/' *)
| Esc                                 (* just read '\' outside a string *)
| Str (q : byte) (u : bool)           (* inside a string opened by q; u: it is the argument of url( *)
| StrEsc (q : byte) (u : bool)        (* just read '\' inside that string *)
| UrlStart                            (* just read "url(": white space, then a quote or an unquoted URL *)
| UrlRaw                              (* inside an unquoted url( token *)
| UrlRawEsc                           (* just read '\' inside it *)
| UrlEnd                              (* white space after an unquoted URL: only white space or ')' may follow *)
| BadUrl                              (* consuming the remnants of a bad url, up to the next unescaped ')' *)
| BadUrlEsc                           (* just read '\' inside them *)
| Bad.                                (* the value has left its declaration (absorbing) *)

Record st := mk {
  md : mode;
  stack : list byte;    (* closers of the blocks that are open, innermost first: ')' or ']' *)
  prev : bytes;         (* the identifier-like run that ends at the cursor, reversed *)
  cur : bytes;          (* URL argument being read, reversed *)
  urls : list bytes     (* URL arguments completed so far, latest first *)
}.

Definition init : st := mk Normal [] [] [] [].
Definition fail (s : st) : st := mk Bad (stack s) [] [] (urls s).

Definition css_ws (c : byte) : bool :=
  Byte.eqb c x20 || Byte.eqb c x09 || Byte.eqb c x0a || Byte.eqb c x0d || Byte.eqb c x0c.
Definition css_nl (c : byte) : bool := Byte.eqb c x0a || Byte.eqb c x0d || Byte.eqb c x0c.
Definition css_quote (c : byte) : bool := Byte.eqb c x22 || Byte.eqb c x27.
Definition css_alpha (c : byte) : bool := let n := bN c in ((65 <=? n) && (n <=? 90)) || ((97 <=? n) && (n <=? 122)).
Definition css_digit (c : byte) : bool := let n := bN c in (48 <=? n) && (n <=? 57).
(* bytes that continue an identifier, hash, at-keyword or dimension: name code points, every non-ASCII
   byte, NUL (pre-processed to U+FFFD), and the '#' / '@' that start a hash / at-keyword *)
Definition css_name_byte (c : byte) : bool :=
  css_alpha c || css_digit c || Byte.eqb c x2d || Byte.eqb c x5f || (128 <=? bN c) || Byte.eqb c x00
  || Byte.eqb c x23 || Byte.eqb c x40.
(* non-printable code points (4.2) make an unquoted url( a bad-url.  NUL is not among them here: input
   pre-processing turns it into U+FFFD, an ordinary URL code point *)
Definition css_nonprintable (c : byte) : bool :=
  let n := bN c in ((1 <=? n) && (n <=? 8)) || (n =? 11) || ((14 <=? n) && (n <=? 31)) || (n =? 127).

Definition is_url_ident (rprev : bytes) : bool := bytes_eqb (map lower rprev) (bs "lru").

Definition finish_url (s : st) : st := mk Normal (stack s) [] [] (rev (cur s) :: urls s).
Definition bad_url (s : st) : st := mk BadUrl (stack s) [] [] (urls s).

Definition step_normal (s : st) (c : byte) : st :=
  if Byte.eqb c x3b then match stack s with [] => fail s | _ => mk Normal (stack s) [] [] (urls s) end
  else if Byte.eqb c x7b || Byte.eqb c x7d || Byte.eqb c x3c then fail s
  else if Byte.eqb c x5b then mk Normal (x5d :: stack s) [] [] (urls s)
  else if Byte.eqb c x28 then
    (if is_url_ident (prev s) then mk UrlStart (stack s) [] [] (urls s) else fail s)
  else if Byte.eqb c x29 || Byte.eqb c x5d then
    match stack s with
    | t :: st' => if Byte.eqb t c then mk Normal st' [] [] (urls s) else mk Normal (stack s) [] [] (urls s)
    | [] => mk Normal [] [] [] (urls s)
    end
  else if css_quote c then mk (Str c false) (stack s) [] [] (urls s)
  else if Byte.eqb c x2f then mk Slash (stack s) [] [] (urls s)
  else if Byte.eqb c x5c then mk Esc (stack s) (prev s) [] (urls s)
  else if css_name_byte c then mk Normal (stack s) (c :: prev s) [] (urls s)
  else mk Normal (stack s) [] [] (urls s).

Definition step_urlraw (s : st) (c : byte) : st :=
  if Byte.eqb c x29 then finish_url s
  else if css_ws c then mk UrlEnd (stack s) [] (cur s) (urls s)
  else if Byte.eqb c x3c then fail s
  else if css_quote c || Byte.eqb c x28 || css_nonprintable c then bad_url s
  else if Byte.eqb c x5c then mk UrlRawEsc (stack s) [] (c :: cur s) (urls s)
  else mk UrlRaw (stack s) [] (c :: cur s) (urls s).

Definition step (s : st) (c : byte) : st :=
  match md s with
  | Bad => s
  | Normal => step_normal s c
  | Slash => if Byte.eqb c x2a then fail s else step_normal s c
  | Esc => if css_nl c || Byte.eqb c x3c then fail s else mk Normal (stack s) (x5c :: prev s) [] (urls s)
  | Str q u =>
      if Byte.eqb c q then
        (if u then mk Normal (stack s) [] [] (rev (cur s) :: urls s) else mk Normal (stack s) [] [] (urls s))
      else if css_nl c || Byte.eqb c x3c then fail s
      else if Byte.eqb c x5c then mk (StrEsc q u) (stack s) [] (if u then c :: cur s else []) (urls s)
      else mk (Str q u) (stack s) [] (if u then c :: cur s else []) (urls s)
  | StrEsc q u =>
      if Byte.eqb c x3c then fail s
      else mk (Str q u) (stack s) [] (if u then c :: cur s else []) (urls s)
  | UrlStart =>
      if css_ws c then s
      else if css_quote c then mk (Str c true) (x29 :: stack s) [] [] (urls s)
      else step_urlraw s c
  | UrlRaw => step_urlraw s c
  | UrlRawEsc =>
      if Byte.eqb c x3c then fail s else if css_nl c then bad_url s else mk UrlRaw (stack s) [] (c :: cur s) (urls s)
  | UrlEnd =>
      if css_ws c then s else if Byte.eqb c x29 then finish_url s
      else if Byte.eqb c x3c then fail s
      else if Byte.eqb c x5c then mk BadUrlEsc (stack s) [] [] (urls s) else bad_url s
  | BadUrl =>
      if Byte.eqb c x29 then mk Normal (stack s) [] [] (urls s)
      else if Byte.eqb c x3c then fail s
      else if Byte.eqb c x5c then mk BadUrlEsc (stack s) [] [] (urls s) else s
  | BadUrlEsc => if Byte.eqb c x3c then fail s else bad_url s
  end.

Definition run (s : st) (v : bytes) : st := fold_left step v s.

(* the emitter's ';' arrives between tokens with every block closed *)
Definition accepting (s : st) : bool :=
  match md s, stack s with
  | Normal, [] => true
  | Slash, [] => true
  | _, _ => false
  end.

Definition confined (v : bytes) : bool := accepting (run init v).
Definition urls_of (v : bytes) : list bytes := urls (run init v).

(* a URL reference is acceptable when it is written without escapes and a browser resolves it as a
   relative reference or with scheme http, https or mailto (WHATWG scheme extraction, spec/Whatwg.v) *)
Definition css_schemes : list bytes := map bs ["http"; "https"; "mailto"]%string.
Definition url_ok (u : bytes) : bool :=
  negb (existsb (fun b => Byte.eqb b x5c) u) &&
  match browser_scheme u with None => true | Some sc => existsb (bytes_eqb sc) css_schemes end.
Definition urls_ok (v : bytes) : bool := forallb url_ok (urls_of v).

(* property names: a non-empty run of ASCII letters and '-' *)
Definition name_ok (p : bytes) : bool :=
  match p with [] => false | _ => forallb (fun b => css_alpha b || Byte.eqb b x2d) p end.

(* A declaration list "n1:v1;n2:v2;..." as written by the emitters, split with the same scanner:
   the name runs to the first ':', the value to the first ';' met between tokens with every block
   closed.  Used to read back whole style attributes and <style> rule bodies. *)
Fixpoint take_value (s : st) (v : bytes) (acc : bytes) : option (bytes * bytes) :=
  match v with
  | [] => None
  | c :: r =>
      if accepting s && Byte.eqb c x3b then Some (rev acc, r)
      else match md (step s c) with
           | Bad => None
           | _ => take_value (step s c) r (c :: acc)
           end
  end.
Fixpoint take_name (v : bytes) (acc : bytes) : option (bytes * bytes) :=
  match v with
  | [] => None
  | c :: r => if Byte.eqb c x3a then Some (rev acc, r) else take_name r (c :: acc)
  end.
Fixpoint decls (fuel : nat) (v : bytes) : option (list (bytes * bytes)) :=
  match v with
  | [] => Some []
  | _ => match fuel with O => None | S f =>
         match take_name v [] with
         | None => None
         | Some (n, r) =>
             match take_value init r [] with
             | None => None
             | Some (val, r') => match decls f r' with Some ds => Some ((n, val) :: ds) | None => None end
             end
         end end
  end.
Definition decl_list (v : bytes) : option (list (bytes * bytes)) := decls (S (length v)) v.
