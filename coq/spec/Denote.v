(* Specification for C02 / C13: what a template denotes.  A direct recursive renderer over the AST:
   no Go text, no literal indices, no buffers.  Go expressions are opaque: an environment oracle gives each
   expression text its value.  Runtime-processed sinks (class list, style value, spread attributes, script
   data) take the processed string from the oracle under a prefixed key: those functions are the subject of
   C01/C03/C05/C12, not of the generator.
   The children slot follows the code: WithChildren writes one shared slot; generated templates and the
   helper wrap() read-then-clear on entry; the caller clears after a call that was given a block; Once/Flush
   empty the slot while they render the children and restore it afterwards. *)
From Coq.Strings Require Import Byte String.
From Coq Require Import List Arith NArith Bool.
Import ListNotations.
From V Require Import lib.Bytes lib.Sexp model.Ast model.Url.
Local Open Scope nat_scope.

(* ---------- small text helpers (html.EscapeString; element classes) ---------- *)
Definition hesc1 (b : byte) : bytes :=
  if Byte.eqb b x26 then bs "&amp;" else if Byte.eqb b x27 then bs "&#39;" else if Byte.eqb b x3c then bs "&lt;"
  else if Byte.eqb b x3e then bs "&gt;" else if Byte.eqb b x22 then bs "&#34;" else [b].
Definition hesc (s : bytes) : bytes := flat_map hesc1 s.
Definition beq (a b : bytes) : bool := bytes_eqb a b.
Definition mem (n : bytes) (l : list string) : bool := existsb (fun s => beq n (bs s)) l.
(* the generator's inline/block classification and the void elements (parser tables) *)
Definition block_name (n : bytes) : bool :=
  mem n ["address";"article";"aside";"body";"blockquote";"canvas";"dd";"div";"dl";"dt";"fieldset";"figcaption";"figure";"footer";"form";"h1";"h2";"h3";"h4";"h5";"h6";"head";"header";"hr";"html";"li";"main";"meta";"nav";"noscript";"ol";"p";"pre";"script";"section";"table";"template";"tfoot";"turbo-stream";"ul";"video";"title";"style";"link";"td";"th";"tr";"br"]%string.
Definition void_name (n : bytes) : bool :=
  mem n ["area";"base";"br";"col";"command";"embed";"hr";"img";"input";"keygen";"link";"meta";"param";"source";"track";"wbr"]%string.
Definition blank (b : byte) : bool := match b with x20 | x09 | x0a | x0d | x0b | x0c => true | _ => false end.

(* ---------- environment oracle ---------- *)
Inductive value :=
| VStr (s : bytes)
| VErr
| VBool (b : bool)
| VIdx (i : nat)                                  (* switch: index of the selected case; >= number of cases = none *)
| VIter (its : list (list (bytes * value))).      (* for: one binding list per iteration *)
Notation env := (list (bytes * value)).
Fixpoint lookup (e : env) (k : bytes) : option value :=
  match e with [] => None | (k', v) :: r => if beq k k' then Some v else lookup r k end.

Inductive comp :=
| CTempl (name : bytes)      (* generated template of this file, called with the caller's parameter values *)
| CWrap (o c : bytes)        (* hand-written: o children c - takes the slot (read, clear) like the documented idiom;
                                wrap() writes through, capt() renders the children into a plain bytes.Buffer first *)
| CIgnore                    (* hand-written: "(i)", never looks at the slot *)
| CRaw (s : bytes)           (* templ.Raw(s) *)
| COnce (k : bytes)          (* handle.Once(): renders its children once per handle k *)
| CFlush                     (* templ.Flush(): renders its children *)
| CNop
| CUnknown
| CJoin (args : list bytes)  (* templ.Join(a, b, ...): renders each argument with the same context *)
| CFlushWith (arg : bytes)
| CEager (arg : bytes).      (* hand-written eager(ctx, c): renders c at once, while the call EXPRESSION is evaluated (before any
                                block is attached to the context), and returns the bytes as a raw component *)  (* hand-written flushWith(c): renders templ.Flush() with the COMPONENT c as its children *)
Fixpoint upto_paren (s : bytes) : bytes := match s with [] => [] | b :: r => if Byte.eqb b x28 then [] else b :: upto_paren r end.
(* top-level comma split of an argument list (parenthesis depth 0; the probe vocabulary has no strings with parentheses or commas) *)
Fixpoint split_args (s acc : bytes) (depth : nat) : list bytes :=
  match s with
  | [] => match acc with [] => [] | _ => [rev acc] end
  | b :: r =>
      if Byte.eqb b x28 then split_args r (b :: acc) (S depth)
      else if Byte.eqb b x29 then split_args r (b :: acc) (pred depth)
      else if Byte.eqb b x2c && (depth =? 0) then rev acc :: split_args r [] 0
      else split_args r (b :: acc) depth
  end.
Definition comp_of (x : bytes) : comp :=
  if beq x (bs "wrap()") then CWrap (bs "[") (bs "]") else if beq x (bs "capt()") then CWrap (bs "{") (bs "}")
  else if beq x (bs "hflush()") then CWrap (bs "<f>") (bs "</f>")
  else if beq x (bs "ignore()") then CIgnore
  else if beq x (bs "c0") then CNop
  else if beq x (bs "templ.Flush()") then CFlush
  else if has_prefix (bs "templ.Join(") x then CJoin (map (drop_while (fun c => Byte.eqb c x20)) (split_args (removelast (skipn 11 x)) [] 0))
  else if has_prefix (bs "flushWith(") x then CFlushWith (removelast (skipn 10 x))
  else if has_prefix (bs "eager(ctx, ") x then CEager (removelast (skipn 11 x))
  else if has_prefix (bs "once") x then COnce (upto_paren x)
  else if has_prefix (bs "templ.Raw(""") x then CRaw (removelast (removelast (skipn 11 x)))
  else let n := upto_paren x in
       match n with
       | b :: _ => if (65 <=? Byte.to_nat b) && (Byte.to_nat b <=? 90) then CTempl n else CUnknown   (* templates of the file: upper-case names *)
       | [] => CUnknown end.

(* ---------- rendering state ---------- *)
Inductive block := Blk (body : list node) (captured : env) (kids : option block).
(* failure carries the position recorded for templ.Error: line+1, col of the expression's range end *)
Record st := { outp : list bytes; slot : option block; failed : option (N * N); onces : list bytes }.
Definition emit (s : bytes) (x : st) : st :=
  match failed x with Some _ => x | None => {| outp := s :: outp x; slot := slot x; failed := None; onces := onces x |} end.
Definition set_slot (b : option block) (x : st) : st := {| outp := outp x; slot := b; failed := failed x; onces := onces x |}.
Definition fail_at (e : expr) (x : st) : st :=
  match failed x with Some _ => x | None => {| outp := outp x; slot := slot x; failed := Some (N.succ (e_tl e), e_tc e); onces := onces x |} end.
Definition fail0 (x : st) : st :=
  match failed x with Some _ => x | None => {| outp := outp x; slot := slot x; failed := Some (0%N, 0%N); onces := onces x |} end.
Definition mark_once (k : bytes) (x : st) : st := {| outp := outp x; slot := slot x; failed := failed x; onces := k :: onces x |}.

Definition is_wsn (n : node) : bool := match n with NWs _ => true | _ => false end.
Definition strip_ws (l : list node) := filter (fun n => negb (is_wsn n)) l.
Fixpoint strip_lead (l : list node) := match l with n :: r => if is_wsn n then strip_lead r else l | [] => [] end.
Definition strip_lt (l : list node) := rev (strip_lead (rev (strip_lead l))).
Definition inline_or_text (n : option node) : bool :=
  match n with
  | Some (NIf _ _ _ _) | Some (NSwitch _ _) | Some (NFor _ _) | Some (NText _ _) | Some (NStr _ _) => true
  | Some (NElem name _ _ _) => negb (block_name name)
  | _ => false end.
Definition trail_of (n : node) : option trailing := match n with NText _ t | NElem _ _ _ t | NStr _ t => Some t | _ => None end.
Definition script_attr (n : bytes) : bool := has_prefix (bs "on") n || has_prefix (bs "hx-on:") n.

(* parameters every template of a probe file takes; a callee sees exactly these *)
Definition params : list bytes := map bs ["s0"; "s1"; "b0"; "b1"; "xs"; "c0"; "at"]%string.
Definition for_bound (k : bytes) : bool := match k with x78 :: _ => true | _ => false end.   (* keys starting with x: loop variable *)
Definition restrict (e : env) : env := filter (fun kv => negb (for_bound (fst kv))) e.

Section Render.
Variable templates : list (bytes * list node).
Fixpoint find_templ (l : list (bytes * list node)) (n : bytes) : option (list node) :=
  match l with [] => None | (k, b) :: r => if beq k n then Some b else find_templ r n end.

Definition pre (p : string) (k : bytes) : bytes := bs p ++ k.

(* one attribute.  AExpr dispatch follows the element/attribute names exactly as HTML reads them. *)
Fixpoint render_attr (fuel : nat) (elem : bytes) (e : env) (a : attr) (x : st) : st :=
  match fuel with O => fail0 x | S f =>
  match a with
  | ABoolConst n => emit ([x20] ++ hesc n) x
  | AConst n v => emit ([x20] ++ hesc n ++ bs "=""" ++ hesc v ++ bs """") x
  | ABoolExpr n ex => match lookup e (e_val ex) with Some (VBool true) => emit ([x20] ++ hesc n) x | Some (VBool false) => x | _ => fail0 x end
  | AExpr n ex =>
      let x1 := emit ([x20] ++ hesc n ++ bs "=""") x in
      let plain := fun k => match lookup e k with
                            | Some (VStr s) => emit (bs """") (emit (hesc s) x1)
                            | Some VErr => fail_at ex x1
                            | _ => fail0 x1 end in
      if url_sink elem n then plain (e_val ex)                         (* value is a templ.SafeURL *)
      else if script_attr n then fail0 x                                (* script calls: C03/C12, not rendered here *)
      else if beq n (bs "style") then                                   (* SanitizeStyleAttributeValues: already escaped *)
        match lookup e (pre "style:" (e_val ex)) with
        | Some (VStr s) => emit (bs """") (emit s x1) | Some VErr => fail_at ex x1 | _ => fail0 x1 end
      else if beq (hesc n) (bs "class") then plain (pre "class:" (e_val ex))   (* templ.CSSClasses(...).String() *)
      else plain (e_val ex)
  | ASpread ex => match lookup e (pre "spread:" (e_val ex)) with Some (VStr s) => emit s x | _ => fail0 x end
  | ACond ex th el =>
      match lookup e (e_val ex) with
      | Some (VBool true) => fold_left (fun x a => render_attr f elem e a x) th x
      | Some (VBool false) => fold_left (fun x a => render_attr f elem e a x) el x
      | _ => fail0 x end
  end end.
Definition render_attrs (elem : bytes) (e : env) (l : list attr) (x : st) : st :=
  fold_left (fun x a => render_attr 50 elem e a x) l x.

Definition render_spart (e : env) (p : spart) (x : st) : st :=
  match p with
  | SJs v => emit v x
  | SGo ex tr inside =>
      match lookup e (pre (if inside then "js-in:" else "js-out:") (e_val ex)) with
      | Some (VStr s) => emit tr (emit s x)
      | Some VErr => fail_at ex x
      | _ => fail0 x end
  end.

(* the pieces of the renderer, parameterised by the recursive call R (= render_node at smaller fuel) *)
Definition rfun := env -> option block -> node -> option node -> st -> st.
Fixpoint nodes_with (R : rfun) (e : env) (kids : option block) (l : list node) (next : option node) (x : st) : st :=
  match l with
  | [] => x
  | c :: r => nodes_with R e kids r next (R e kids c (match r with y :: _ => Some y | [] => next end) x)
  end.
Definition render_block_with (R : rfun) (b : option block) (x : st) : st :=
  match b with Some (Blk body cap k) => nodes_with R cap k (strip_lt body) None x | None => x end.
(* Once/Flush: renderChildren - the slot is emptied while the children render and restored afterwards *)
Definition render_children_restoring (R : rfun) (x : st) : st :=
  let saved := slot x in set_slot saved (render_block_with R saved (set_slot None x)).
Definition render_comp_with (R : rfun) (e : env) (c : comp) (x : st) : st :=
  match c with
  | CNop => x
  | CUnknown => fail0 x
  | CIgnore => emit (bs "(i)") x
  | CRaw s => emit s x
  | CWrap o c => let mine := slot x in emit c (render_block_with R mine (set_slot None (emit o x)))
  | CFlush => render_children_restoring R x
  | COnce k => if existsb (beq k) (onces x) then x else render_children_restoring R (mark_once k x)
  | CJoin args =>
      fold_left (fun x a => R e None (NCallT {| e_val := a; e_fi := 0%N; e_fl := 0%N; e_fc := 0%N; e_ti := 0%N; e_tl := 0%N; e_tc := 0%N |}) None x) args x
  | CEager a =>
      (* the argument is rendered when the callee expression is evaluated: the slot does not yet hold this call's block *)
      let saved := slot x in
      set_slot saved (emit (bs "</e>")
        (R e None (NCallT {| e_val := a; e_fi := 0%N; e_fl := 0%N; e_fc := 0%N; e_ti := 0%N; e_tl := 0%N; e_tc := 0%N |}) None (emit (bs "<e>") (set_slot None x))))
  | CFlushWith a =>
      (* templ.Flush().Render(templ.WithChildren(ctx, c), w); ctx = templ.ClearChildren(ctx) *)
      let blk := Blk [NCallT {| e_val := a; e_fi := 0%N; e_fl := 0%N; e_fc := 0%N; e_ti := 0%N; e_tl := 0%N; e_tc := 0%N |}] e None in
      set_slot None (render_children_restoring R (set_slot (Some blk) x))
  | CTempl name =>
      match find_templ templates name with
      | Some body => let mine := slot x in nodes_with R (restrict e) mine (strip_ws body) None (set_slot None x)
      | None => fail0 x
      end
  end.
Fixpoint chain_with (R : rfun) (e : env) (kids : option block) (next : option node) (el : list node) (l : list (expr * list node)) (x : st) : st :=
  match l with
  | [] => nodes_with R e kids (strip_lt el) next x
  | (ce, cb) :: r => match lookup e (e_val ce) with
                     | Some (VBool true) => nodes_with R e kids (strip_lt cb) next x
                     | Some (VBool false) => chain_with R e kids next el r x
                     | _ => fail0 x end
  end.

Definition open_tag (name : bytes) (e : env) (attrs : list attr) (x : st) : st :=
  emit (bs ">") (render_attrs name e attrs (emit (bs "<" ++ hesc name) x)).

Fixpoint render_node (fuel : nat) (e : env) (kids : option block) (n : node) (next : option node) (x : st) {struct fuel} : st :=
  match fuel with O => fail0 x | S f =>
  match failed x with Some _ => x | None =>
  let R := render_node f in
  let x :=
    match n with
    | NWs v => match v with [] => x | _ => emit [x20] x end
    | NDoc v => emit (bs "<!doctype " ++ v ++ bs ">") x
    | NText v _ => emit v x
    | NStr ex _ => if forallb blank (e_val ex) then x else
                   match lookup e (e_val ex) with
                   | Some (VStr s) => emit (hesc s) x
                   | Some VErr => fail_at ex x
                   | _ => fail0 x end
    | NGoComment => x
    | NGoCode _ => x
    | NHtmlComment c => emit (bs "<!--" ++ c ++ bs "-->") x
    | NChildren => render_block_with R kids x
    | NCallT ex => render_comp_with R e (comp_of (e_val ex)) x
    | NCall ex [] => render_comp_with R e (comp_of (e_val ex)) x                 (* .Render(ctx, ...): slot untouched *)
    | NCall ex ch =>                                                            (* WithChildren writes the slot; cleared after the call *)
        set_slot None (render_comp_with R e (comp_of (e_val ex)) (set_slot (Some (Blk ch e kids)) x))
    | NIf ex th elifs el =>
        match lookup e (e_val ex) with
        | Some (VBool true) => nodes_with R e kids (strip_lt th) next x
        | Some (VBool false) => chain_with R e kids next el elifs x
        | _ => fail0 x end
    | NSwitch ex cases =>
        match lookup e (pre "switch:" (e_val ex) ++ bs "@" ++ dec (e_fi ex)) with
        | Some (VIdx i) => match nth_error cases i with
                           | Some (_, body) => nodes_with R e kids (strip_lt body) next x
                           | None => x end
        | _ => fail0 x end
    | NFor ex body =>
        match lookup e (e_val ex) with
        | Some (VIter its) => fold_left (fun x bind => nodes_with R (bind ++ e) kids (strip_lt body) next x) its x
        | _ => fail0 x end
    | NElem name attrs ch _ =>
        let x := open_tag name e attrs x in
        if void_name name && match ch with [] => true | _ => false end then x
        else emit (bs "</" ++ hesc name ++ bs ">") (nodes_with R e kids (strip_ws ch) None x)
    | NRaw name attrs c => emit (bs "</" ++ hesc name ++ bs ">") (emit c (open_tag name e attrs x))
    | NScript attrs parts => emit (bs "</script>") (fold_left (fun x p => render_spart e p x) parts (open_tag (bs "script") e attrs x))
    end in
  match trail_of n with
  | Some SpNone | None => x
  | Some _ => if inline_or_text (Some n) && inline_or_text next then emit [x20] x else x
  end
  end end.
End Render.

(* ---------- whole-case entry: render template `name` of file f in environment ev ---------- *)
Fixpoint dvalue (fuel : nat) (x : sexp) : value :=
  match fuel with O => VErr | S f =>
  match x with
  | SList [Atom t; v] =>
      if is t "str" then VStr (db v) else if is t "bool" then VBool (beq (db v) (bs "1"))
      else if is t "idx" then VIdx (N.to_nat (dn v))
      else if is t "iter" then
        match v with
        | SList its => VIter (map (fun it => match it with
                                             | SList kvs => map (fun kv => match kv with SList [k; v'] => (db k, dvalue f v') | _ => ([], VErr) end) kvs
                                             | _ => [] end) its)
        | _ => VErr end
      else VErr
  | SList [Atom t] => if is t "err" then VErr else VErr
  | _ => VErr end end.
Definition denv (x : sexp) : env :=
  match x with SList kvs => map (fun kv => match kv with SList [k; v] => (db k, dvalue 6 v) | _ => ([], VErr) end) kvs | _ => [] end.
Definition templ_table (f : file) : list (bytes * list node) :=
  flat_map (fun n => match n with FTempl e ch => [(upto_paren (e_val e), ch)] | _ => [] end) (f_nodes f).

Definition show_N (n : N) : bytes := dec n.
Definition denote_case (f : file) (name : bytes) (ev : env) : bytes :=
  let tbl := templ_table f in
  match find_templ tbl name with
  | Some body =>
      let r := nodes_with (render_node tbl 300) ev None (strip_ws body) None {| outp := []; slot := None; failed := None; onces := [] |} in
      match failed r with
      | None => bs "OK:" ++ concat (rev (outp r))
      | Some (l, c) => bs "ERR:" ++ show_N l ++ bs ":" ++ show_N c ++ bs ":" ++ concat (rev (outp r))
      end
  | None => bs "NO-TEMPLATE" end.
