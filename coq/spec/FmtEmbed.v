(* C08 at the level of rendered output: the bridge between the formatter AST (model/Fmt.v, what TemplateFile.Write reads)
   and the generator AST (model/Ast.v, what the generator reads and spec/Denote.v renders).  Both wire formats
   (harness/internal/fmtser, harness/internal/astser) describe the SAME parser.TemplateFile; [embed] maps the first
   description to the second, dropping what only the formatter reads (IndentAttrs/IndentChildren/Multiline flags, quote
   kind, gofmt oracle of the reference layout) and filling what only the generator reads (source positions: 0).  The
   harness checks on every run that [embed (decode fmtser tf)] and [decode astser tf] agree ([file_agrees]).
   [reparse_ws] completes Fmt.reparse with what the parser additionally does when it reads the printed text and the
   formatter never looks at: it emits a Whitespace node after every node that does not carry its own trailing white
   space (every such node is printed at the end of a line), and reads the legacy call `{! x }`, printed as `@x`, as an
   element call without a block.  Definitions only. *)
From Coq.Strings Require Import Byte String.
From Coq Require Import List Arith NArith Bool.
Import ListNotations.
From V Require Import lib.Bytes lib.Sexp model.Fmt model.Ast spec.Denote.
Local Open Scope nat_scope.

(* ---------- embed : Fmt -> Ast ---------- *)
Definition mkexpr (v : bytes) : Ast.expr :=
  {| e_val := v; e_fi := 0%N; e_fl := 0%N; e_fc := 0%N; e_ti := 0%N; e_tl := 0%N; e_tc := 0%N |}.
Definition embed_trail (t : Fmt.trailing) : Ast.trailing :=
  match t with Fmt.SpNone => Ast.SpNone | Fmt.SpHoriz => Ast.SpHoriz | Fmt.SpVert => Ast.SpVert end.
(* a multi-line Go expression is one Expression.Value holding the line breaks *)
Fixpoint join_nl (l : list bytes) : bytes :=
  match l with [] => [] | [a] => a | a :: r => a ++ [x0a] ++ join_nl r end.
Fixpoint embed_attr (a : Fmt.attr) : Ast.attr :=
  match a with
  | Fmt.ABoolConst n => Ast.ABoolConst n
  | Fmt.AConst n v _ _ => Ast.AConst n v
  | Fmt.ABoolExpr n v => Ast.ABoolExpr n (mkexpr v)
  | Fmt.AExpr n lines => Ast.AExpr n (mkexpr (join_nl lines))
  | Fmt.ASpread v => Ast.ASpread (mkexpr v)
  | Fmt.ACond v th el => Ast.ACond (mkexpr v) (map embed_attr th) (map embed_attr el)
  end.
(* InsideStringLiteral is not read by the formatter: the wire format of Fmt does not carry it (compared as "don't care") *)
Definition embed_spart (p : Fmt.spart) : Ast.spart :=
  match p with Fmt.SJs v => Ast.SJs v | Fmt.SGo v tr => Ast.SGo (mkexpr v) tr false end.
Fixpoint embed_node (n : Fmt.node) : Ast.node :=
  match n with
  | Fmt.NWs => Ast.NWs [x20]                         (* the parser only builds Whitespace nodes with a non-empty value *)
  | Fmt.NDoc v => Ast.NDoc v
  | Fmt.NText v t => Ast.NText v (embed_trail t)
  | Fmt.NElem name attrs _ ch _ t => Ast.NElem name (map embed_attr attrs) (map embed_node ch) (embed_trail t)
  | Fmt.NRaw name attrs c => Ast.NRaw name (map embed_attr attrs) c
  | Fmt.NScript attrs parts => Ast.NScript (map embed_attr attrs) (map embed_spart parts)
  | Fmt.NGoComment _ _ => Ast.NGoComment
  | Fmt.NHtmlComment c => Ast.NHtmlComment c
  | Fmt.NCallT v => Ast.NCallT (mkexpr v)
  | Fmt.NCall src _ ch => Ast.NCall (mkexpr (join_nl src)) (map embed_node ch)
  | Fmt.NChildren => Ast.NChildren
  | Fmt.NIf v th elifs el =>
      Ast.NIf (mkexpr v) (map embed_node th) (map (fun '(cv, cb) => (mkexpr cv, map embed_node cb)) elifs) (map embed_node el)
  | Fmt.NSwitch v cases => Ast.NSwitch (mkexpr v) (map (fun '(cv, cb) => (mkexpr cv, map embed_node cb)) cases)
  | Fmt.NFor v b => Ast.NFor (mkexpr v) (map embed_node b)
  | Fmt.NGoCode src _ _ => Ast.NGoCode (mkexpr src)   (* the generator ignores the white space after {{ }} *)
  | Fmt.NStr v t => Ast.NStr (mkexpr v) (embed_trail t)
  end.
Fixpoint upto_paren (s : bytes) : bytes := match s with [] => [] | b :: r => if Byte.eqb b x28 then [] else b :: upto_paren r end.
Fixpoint from_paren (s : bytes) : bytes := match s with [] => [] | b :: r => if Byte.eqb b x28 then r else from_paren r end.
Definition embed_css (p : Fmt.cssprop) : Ast.cssprop :=
  match p with Fmt.CConst n v => Ast.CConst n v | Fmt.CExpr n v => Ast.CExpr n (mkexpr v) end.
Definition embed_fnode (n : Fmt.fnode) : Ast.fnode :=
  match n with
  | Fmt.FGo v _ => Ast.FGo (mkexpr v)
  | Fmt.FTempl sig ch => Ast.FTempl (mkexpr sig) (map embed_node ch)
  | Fmt.FCss sig props => Ast.FCss (mkexpr sig) (upto_paren sig) (map embed_css props)
  | Fmt.FScript sig value => Ast.FScript (mkexpr (upto_paren sig)) (mkexpr (removelast (from_paren sig))) value []
  end.
Definition embed_header (n : Fmt.fnode) : Ast.expr := match n with Fmt.FGo v _ => mkexpr v | _ => mkexpr [] end.
Definition embed (f : Fmt.file) : Ast.file :=
  {| Ast.f_header := map embed_header (Fmt.f_header f); Ast.f_pkg := mkexpr (Fmt.f_pkg f); Ast.f_nodes := map embed_fnode (Fmt.f_nodes f) |}.

(* ---------- reparse_ws: Fmt.reparse completed with the Whitespace nodes the parser builds ---------- *)
Definition non_trailer (n : Fmt.node) : bool := match Fmt.trail_of n with None => true | Some _ => false end.
Fixpoint skip_ws (l : list Fmt.node) : list Fmt.node := match l with c :: r => if Fmt.is_ws c then skip_ws r else l | [] => [] end.
Definition is_for (n : Fmt.node) : bool := match n with Fmt.NFor _ _ => true | _ => false end.
Definition head_for (l : list Fmt.node) : bool := match l with y :: _ => is_for y | [] => false end.
(* the white space behind node c (followed by the nodes r) becomes a Whitespace node: c does not eat it, and the next
   node is not a for expression (forExpressionParser strips the white space in front of `for`) *)
Definition wants_ws (c : Fmt.node) (r : list Fmt.node) : bool := non_trailer c && negb (head_for (skip_ws r)).
Section RS.
Variable R : Fmt.node -> Fmt.node.
(* one Whitespace node after every node that is not a white-space trailer (Text, Element, StringExpression and GoCode eat
   the white space that follows them; every other node is followed by a line break in the printed text), unless a for
   expression follows *)
Fixpoint rs_list (l : list Fmt.node) : list Fmt.node :=
  match l with
  | [] => []
  | c :: r => if Fmt.is_ws c then rs_list r else if wants_ws c r then R c :: Fmt.NWs :: rs_list r else R c :: rs_list r
  end.
(* call / else blocks: a block that was printed is still a block *)
Definition rs_keep (l : list Fmt.node) : list Fmt.node :=
  match l with [] => [] | _ => match rs_list l with [] => [Fmt.NWs] | l' => l' end end.
Fixpoint rs_cases (cs : list (bytes * list Fmt.node)) : list (bytes * list Fmt.node) :=
  match cs with [] => [] | (cv, cb) :: r => (cv, rs_list cb) :: rs_cases r end.
End RS.
Fixpoint respace_node (n : Fmt.node) : Fmt.node :=
  let rl := fix rl (l : list Fmt.node) : list Fmt.node :=
    match l with
    | [] => []
    | c :: r => if Fmt.is_ws c then rl r else if wants_ws c r then respace_node c :: Fmt.NWs :: rl r else respace_node c :: rl r
    end in
  let rk := fun l => match l with [] => [] | _ => match rl l with [] => [Fmt.NWs] | l' => l' end end in
  let rc := fix rc (cs : list (bytes * list Fmt.node)) : list (bytes * list Fmt.node) :=
    match cs with [] => [] | (cv, cb) :: r => (cv, rl cb) :: rc r end in
  match n with
  | Fmt.NElem name attrs ia ch ic t => Fmt.NElem name attrs ia (rl ch) ic t
  | Fmt.NCallT v => Fmt.NCall [v] [v] []
  | Fmt.NCall src ref ch => Fmt.NCall src ref (rk ch)
  | Fmt.NIf v th elifs el => Fmt.NIf v (rl th) (rc elifs) (rk el)
  | Fmt.NSwitch v cases => Fmt.NSwitch v (rc cases)
  | Fmt.NFor v b => Fmt.NFor v (rl b)
  | _ => n
  end.
Definition respace_fnode (n : Fmt.fnode) : Fmt.fnode :=
  match n with Fmt.FTempl sig ch => Fmt.FTempl sig (rs_list respace_node ch) | _ => n end.
Definition respace (f : Fmt.file) : Fmt.file :=
  {| Fmt.f_header := Fmt.f_header f; Fmt.f_pkg := Fmt.f_pkg f; Fmt.f_nodes := map respace_fnode (Fmt.f_nodes f) |}.
Definition reparse_ws (f : Fmt.file) : Fmt.file := respace (Fmt.reparse f).

(* ---------- parser_shaped: where the parser puts Whitespace nodes ----------
   In the body of if / else if / else / case / for and in the block of a call the generator keeps the Whitespace nodes
   between the first and the last other node (each renders one space).  The parser builds such a node exactly when
   white space follows a node that does not eat it.  [ws_canonical]: between the first and the last non-white-space node
   of a body, every non-trailer that is not followed by a for expression is followed by a Whitespace node, and a
   Whitespace node occurs nowhere else.  A body
   where a non-trailer is directly followed by the next node ( <!--a--><!--b-->, {children...}{children...}, }text )
   is NOT canonical: the formatter puts the follower on a new line and the re-parsed body has a Whitespace node (= a
   rendered space) there.  Void elements have no children.  [parser_shaped] = this ([ws_shaped]) and [no_call_after_text]
   (below): the two situations in which the tree the parser builds from the printed text is not the one reparse_ws
   describes or keeps another rendered space. *)
Definition all_ws (l : list Fmt.node) : bool := forallb Fmt.is_ws l.
Fixpoint wsc (started pending : bool) (l : list Fmt.node) : bool :=
  match l with
  | [] => true
  | c :: r =>
      if all_ws l then true                                             (* white space at the end of the body *)
      else if Fmt.is_ws c then (if started then pending else true) && wsc started false r
      else negb pending && wsc true (wants_ws c r) r
  end.
Definition ws_canonical (l : list Fmt.node) : bool := wsc false false l.
Section Shaped.
Variable P : Fmt.node -> bool.
Fixpoint sh_list (l : list Fmt.node) : bool := match l with [] => true | c :: r => P c && sh_list r end.
Fixpoint sh_cases (cs : list (bytes * list Fmt.node)) : bool :=
  match cs with [] => true | (_, cb) :: r => ws_canonical cb && sh_list cb && sh_cases r end.
End Shaped.
Fixpoint shaped_node (n : Fmt.node) : bool :=
  let sl := fix sl (l : list Fmt.node) : bool := match l with [] => true | c :: r => shaped_node c && sl r end in
  let sc := fix sc (cs : list (bytes * list Fmt.node)) : bool :=
    match cs with [] => true | (_, cb) :: r => ws_canonical cb && sl cb && sc r end in
  match n with
  | Fmt.NElem name _ _ ch _ _ =>
      (negb (Fmt.is_void_name name) || match ch with [] => true | _ => existsb (fun c => negb (Fmt.is_ws c)) ch end) && sl ch
  | Fmt.NCall _ _ ch => ws_canonical ch && sl ch
  | Fmt.NIf _ th elifs el => ws_canonical th && sl th && sc elifs && (ws_canonical el && sl el)
  | Fmt.NSwitch _ cs => sc cs
  | Fmt.NFor _ b => ws_canonical b && sl b
  | _ => true
  end.
(* A legacy call `{! x }` is printed in the new syntax, `@x`.  reparse_ws reads it back as an element call - which is what
   the parser does when `@x` starts a line or follows a node that ended.  Directly after a text node on the SAME line it
   does not: the text parser does not stop at `@`, so `alpha {! c0 }`, printed `alpha @c0`, is read back as the single
   text node "alpha @c0" and the call is gone (reproduced on the real code; harness shape
   LegacyCallAfterTextReadBackAsText).  [no_call_after_text]: in no child list does a legacy call follow (Whitespace nodes,
   which the formatter skips, aside) a text node whose trailing space is not a line break.  Sufficient, not necessary:
   the formatter may still end the text's line for a reason of its own. *)
Definition is_callt (n : Fmt.node) : bool := match n with Fmt.NCallT _ => true | _ => false end.
Definition head_callt (l : list Fmt.node) : bool := match l with y :: _ => is_callt y | [] => false end.
Definition text_open (n : Fmt.node) : bool :=
  match n with Fmt.NText _ Fmt.SpVert => false | Fmt.NText _ _ => true | _ => false end.
Definition absorbs (c : Fmt.node) (r : list Fmt.node) : bool := text_open c && head_callt (skip_ws r).
Fixpoint nca_node (n : Fmt.node) : bool :=
  let nl := fix nl (l : list Fmt.node) : bool := match l with [] => true | c :: r => negb (absorbs c r) && nca_node c && nl r end in
  let nc := fix nc (cs : list (bytes * list Fmt.node)) : bool := match cs with [] => true | (_, cb) :: r => nl cb && nc r end in
  match n with
  | Fmt.NElem _ _ _ ch _ _ => nl ch
  | Fmt.NCall _ _ ch => nl ch
  | Fmt.NIf _ th elifs el => nl th && nc elifs && nl el
  | Fmt.NSwitch _ cs => nc cs
  | Fmt.NFor _ b => nl b
  | _ => true
  end.
Fixpoint nca_list (l : list Fmt.node) : bool :=
  match l with [] => true | c :: r => negb (absorbs c r) && nca_node c && nca_list r end.
Definition no_call_after_text (f : Fmt.file) : bool :=
  forallb (fun n => match n with Fmt.FTempl _ ch => nca_list ch | _ => true end) (Fmt.f_nodes f).
Definition ws_shaped (f : Fmt.file) : bool :=
  forallb (fun n => match n with Fmt.FTempl _ ch => sh_list shaped_node ch | _ => true end) (Fmt.f_nodes f).
Definition parser_shaped (f : Fmt.file) : bool := ws_shaped f && no_call_after_text f.

(* ---------- agreement of two generator ASTs up to what [embed] cannot know ----------
   Never compared: positions (all of them), the value of a Whitespace node (only whether it is empty), SGo's
   InsideStringLiteral, the sha256-derived name of a script template.  Everything else - kinds, order, nesting, names,
   texts, trailing-space marks - must be equal.  Two switches:
   [le] (loose expressions): Go expression texts are compared with white-space bytes removed (the formatter AST holds
        gofmt's output for attribute expressions, {{ }} blocks, call expressions and signatures; the printed text of a
        multi-line expression is re-indented);
   [lw] (loose white space): Whitespace nodes are compared the way the renderer reads them - all of them dropped in
        element and template children, the leading and trailing ones dropped in bodies and call blocks (a block stays
        a block). *)
Definition beqb (a b : bytes) : bool := bytes_eqb a b.
Definition unblank (s : bytes) : bytes := filter (fun b => negb (blank b)) s.
Definition expr_agrees (le : bool) (a b : Ast.expr) : bool :=
  if le then beqb (unblank (e_val a)) (unblank (e_val b)) else beqb (e_val a) (e_val b).
Definition trail_agrees (a b : Ast.trailing) : bool :=
  match a, b with Ast.SpNone, Ast.SpNone | Ast.SpHoriz, Ast.SpHoriz | Ast.SpVert, Ast.SpVert => true | _, _ => false end.
Section All2.
Variable A : Type.
Variable P : A -> A -> bool.
Fixpoint all2 (a b : list A) : bool :=
  match a, b with [], [] => true | x :: a', y :: b' => P x y && all2 a' b' | _, _ => false end.
End All2.
Arguments all2 {A} P a b.
Section Agree.
Variables le lw : bool.
Fixpoint attr_agrees (fuel : nat) (a b : Ast.attr) : bool :=
  match fuel with O => false | S f =>
  match a, b with
  | Ast.ABoolConst n, Ast.ABoolConst m => beqb n m
  | Ast.AConst n v, Ast.AConst m w => beqb n m && beqb v w
  | Ast.ABoolExpr n e, Ast.ABoolExpr m e' => beqb n m && expr_agrees le e e'
  | Ast.AExpr n e, Ast.AExpr m e' => beqb n m && expr_agrees le e e'
  | Ast.ASpread e, Ast.ASpread e' => expr_agrees le e e'
  | Ast.ACond e th el, Ast.ACond e' th' el' => expr_agrees le e e' && all2 (attr_agrees f) th th' && all2 (attr_agrees f) el el'
  | _, _ => false
  end end.
Definition spart_agrees (a b : Ast.spart) : bool :=
  match a, b with
  | Ast.SJs v, Ast.SJs w => beqb v w
  | Ast.SGo e tr _, Ast.SGo e' tr' _ => expr_agrees le e e' && beqb tr tr'
  | _, _ => false end.
Definition isnil {X} (l : list X) : bool := match l with [] => true | _ => false end.
Definition view_body (l : list Ast.node) : list Ast.node := if lw then strip_lt l else l.
Definition view_elem (l : list Ast.node) : list Ast.node := if lw then strip_ws l else l.
Fixpoint node_agrees (fuel : nat) (a b : Ast.node) : bool :=
  match fuel with O => false | S f =>
  let nb := fun x y => all2 (node_agrees f) (view_body x) (view_body y) in
  let ne := fun x y => all2 (node_agrees f) (view_elem x) (view_elem y) in
  let cl := all2 (fun x y : Ast.expr * list Ast.node => expr_agrees le (fst x) (fst y) && nb (snd x) (snd y)) in
  let al := all2 (attr_agrees 60) in
  match a, b with
  | Ast.NWs v, Ast.NWs w => Bool.eqb (isnil v) (isnil w)
  | Ast.NDoc v, Ast.NDoc w => beqb v w
  | Ast.NText v t, Ast.NText w u => beqb v w && trail_agrees t u
  | Ast.NElem n at1 ch t, Ast.NElem m at2 ch' u =>
      beqb n m && al at1 at2 && ne ch ch' && trail_agrees t u && (negb (void_name n) || Bool.eqb (isnil ch) (isnil ch'))
  | Ast.NRaw n at1 c, Ast.NRaw m at2 c' => beqb n m && al at1 at2 && beqb c c'
  | Ast.NScript at1 ps, Ast.NScript at2 ps' => al at1 at2 && all2 spart_agrees ps ps'
  | Ast.NGoComment, Ast.NGoComment => true
  | Ast.NHtmlComment c, Ast.NHtmlComment c' => beqb c c'
  | Ast.NCallT e, Ast.NCallT e' => expr_agrees le e e'
  | Ast.NCall e ch, Ast.NCall e' ch' => expr_agrees le e e' && nb ch ch' && Bool.eqb (isnil ch) (isnil ch')
  | Ast.NChildren, Ast.NChildren => true
  | Ast.NIf e th ei el, Ast.NIf e' th' ei' el' => expr_agrees le e e' && nb th th' && cl ei ei' && nb el el'
  | Ast.NSwitch e cs, Ast.NSwitch e' cs' => expr_agrees le e e' && cl cs cs'
  | Ast.NFor e b0, Ast.NFor e' b' => expr_agrees le e e' && nb b0 b'
  | Ast.NGoCode e, Ast.NGoCode e' => expr_agrees le e e'
  | Ast.NStr e t, Ast.NStr e' u => expr_agrees le e e' && trail_agrees t u
  | _, _ => false
  end end.
Definition css_agrees (a b : Ast.cssprop) : bool :=
  match a, b with
  | Ast.CConst n v, Ast.CConst m w => beqb n m && beqb v w
  | Ast.CExpr n e, Ast.CExpr m e' => beqb n m && expr_agrees le e e'
  | _, _ => false end.
Definition fnode_agrees (a b : Ast.fnode) : bool :=
  match a, b with
  | Ast.FGo e, Ast.FGo e' => expr_agrees le e e'
  | Ast.FTempl e ch, Ast.FTempl e' ch' => expr_agrees le e e' && all2 (node_agrees 400) (view_elem ch) (view_elem ch')
  | Ast.FCss e n ps, Ast.FCss e' m ps' => expr_agrees le e e' && beqb n m && all2 css_agrees ps ps'
  | Ast.FScript n p v _, Ast.FScript n' p' v' _ => expr_agrees le n n' && expr_agrees le p p' && beqb v v'
  | _, _ => false end.
Definition file_agrees (a b : Ast.file) : bool :=
  all2 (expr_agrees le) (Ast.f_header a) (Ast.f_header b) && expr_agrees le (Ast.f_pkg a) (Ast.f_pkg b)
  && all2 fnode_agrees (Ast.f_nodes a) (Ast.f_nodes b).
End Agree.

(* ---------- Denote's whole-template entry with the fuel as a parameter (Denote.denote_case is the instance 300) ---------- *)
Definition st0 : Denote.st := {| outp := []; slot := None; failed := None; onces := [] |}.
Definition result (r : Denote.st) : bytes :=
  match failed r with
  | None => bs "OK:" ++ concat (rev (outp r))
  | Some (l, c) => bs "ERR:" ++ show_N l ++ bs ":" ++ show_N c ++ bs ":" ++ concat (rev (outp r))
  end.
Definition denote_fuel (fuel : nat) (f : Ast.file) (name : bytes) (ev : env) : bytes :=
  let tbl := templ_table f in
  match find_templ tbl name with
  | Some body => result (nodes_with (render_node tbl fuel) ev None (strip_ws body) None st0)
  | None => bs "NO-TEMPLATE" end.
