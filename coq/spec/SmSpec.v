(* Specification for C07: what it means for a source map to relate every Go expression byte of the
   templ source to the same byte of the generated Go text.  Independent of the generator model:
   it looks only at (source text, generated text, the two lookup tables, the parsed AST). *)
From Coq.Strings Require Import Byte String.
From Coq Require Import List Arith NArith Bool Lia.
Import ListNotations.
From V Require Import lib.Bytes lib.Sexp model.Ast.
Local Open Scope nat_scope.

Notation pos := (N * N * N)%type.   (* index, line, col (col counts bytes) *)
Notation key := (N * N)%type.
Notation smap := (list (key * pos)).

(* pos_of s i: byte index, number of LF before it, bytes since the last LF *)
Fixpoint pos_walk (s : bytes) (i : nat) (p : pos) : pos :=
  match i, s with
  | S k, b :: r => let '(ix, l, c) := p in pos_walk r k (if Byte.eqb b x0a then (N.succ ix, N.succ l, 0%N) else (N.succ ix, l, N.succ c))
  | _, _ => p
  end.
Definition pos_of (s : bytes) (i : N) : pos := pos_walk s (N.to_nat i) (0%N, 0%N, 0%N).

(* the two lookups of parser/v2/sourcemap.go over association lists *)
Fixpoint sget (k : key) (m : smap) : option pos :=
  match m with [] => None | (k', v) :: r => if (fst k =? fst k')%N && (snd k =? snd k')%N then Some v else sget k r end.
Definition target_from_source (m : smap) (line col : N) : option pos := sget (line, col) m.
(* SourcePositionFromTarget: exact column, else search backwards on the same line *)
Fixpoint source_from_target_fuel (fuel : nat) (m : smap) (line col : N) : option pos :=
  match sget (line, col) m with
  | Some p => Some p
  | None => match fuel with O => None | S f => if (col =? 0)%N then None else source_from_target_fuel f m line (N.pred col) end
  end.
Definition source_from_target (m : smap) (line col : N) : option pos :=
  source_from_target_fuel (S (N.to_nat col)) m line col.

(* every Go expression of a template file, in every syntactic slot *)
Fixpoint attr_exprs (fuel : nat) (a : attr) : list expr :=
  match fuel with O => [] | S f =>
  match a with
  | ABoolConst _ | AConst _ _ => []
  | ABoolExpr _ e | AExpr _ e | ASpread e => [e]
  | ACond e th el => e :: flat_map (attr_exprs f) th ++ flat_map (attr_exprs f) el
  end end.
Definition spart_exprs (p : spart) : list expr := match p with SJs _ => [] | SGo e _ _ => [e] end.
Fixpoint node_exprs (fuel : nat) (n : node) : list expr :=
  match fuel with O => [] | S f =>
  let ns := flat_map (node_exprs f) in
  match n with
  | NWs _ | NDoc _ | NText _ _ | NGoComment | NHtmlComment _ | NChildren => []
  | NStr e _ | NCallT e | NGoCode e => [e]
  | NCall e ch => e :: ns ch
  | NElem _ attrs ch _ => flat_map (attr_exprs 50) attrs ++ ns ch
  | NRaw _ attrs _ => flat_map (attr_exprs 50) attrs
  | NScript attrs parts => flat_map (attr_exprs 50) attrs ++ flat_map spart_exprs parts
  | NIf e th elifs el => e :: ns th ++ flat_map (fun p => fst p :: ns (snd p)) elifs ++ ns el
  | NSwitch e cases => e :: flat_map (fun p => fst p :: ns (snd p)) cases
  | NFor e b => e :: ns b
  end end.
Definition fnode_exprs (n : fnode) : list expr :=
  match n with
  | FGo e => [e]
  | FTempl e ch => e :: flat_map (node_exprs 200) ch
  | FCss e _ props => e :: flat_map (fun p => match p with CConst _ _ => [] | CExpr _ ex => [ex] end) props
  | FScript name params _ _ => [name; params]
  end.
Definition is_blank (b : byte) : bool := match b with x20 | x09 | x0a | x0d | x0b | x0c => true | _ => false end.
Definition file_exprs (f : file) : list expr :=
  filter (fun e => negb (forallb is_blank (e_val e)))
         (f_header f ++ [f_pkg f] ++ flat_map fnode_exprs (f_nodes f)).

(* rune starts of one line (UTF-8 lead-byte widths; continuation bytes are skipped) *)
Definition lead_width (b : byte) : nat :=
  let n := Byte.to_nat b in if n <? 128 then 1 else if n <? 224 then 2 else if n <? 240 then 3 else 4.
Fixpoint rune_starts (fuel : nat) (line : bytes) (off : nat) : list nat :=
  match fuel with O => [off] | S f =>
  match line with
  | [] => [off]                                   (* one past the end of the line is mapped too *)
  | b :: _ => off :: rune_starts f (skipn (lead_width b) line) (off + lead_width b)
  end end.

Fixpoint split_lf (s acc : bytes) : list bytes :=
  match s with [] => [rev acc] | b :: r => if Byte.eqb b x0a then rev acc :: split_lf r [] else split_lf r (b :: acc) end.

Definition pos_eqb (a b : pos) : bool :=
  let '(ai, al, ac) := a in let '(bi, bl, bc) := b in (ai =? bi)%N && (al =? bl)%N && (ac =? bc)%N.

(* range_ok (C06's predicate): the recorded range start agrees with the source text, and the source
   text there begins with the recorded expression text.  Under it the source position of offset k
   of the expression is determined by walking the expression text from (from.index, from.line, from.col). *)
Definition range_ok (src : bytes) (e : expr) : bool :=
  pos_eqb (pos_of src (e_fi e)) (e_fi e, e_fl e, e_fc e)
  && has_prefix (e_val e) (skipn (N.to_nat (e_fi e)) src).

(* One line l of an expression, starting at source position (si0, sl, sc0):
   - its first byte is mapped to a target position t0 whose line/col agree with its index in the generated text,
   - the generated text at t0 holds the same bytes as the line,
   - every rune start j of the line, and the position one past its end, is mapped to t0 + j on the same line
     (so consecutive positions map to consecutive positions),
   - and each of those target positions maps back to the source index, line and column. *)
Definition line_ok (out : bytes) (s2t t2s : smap) (l : bytes) (si0 sl sc0 : N) : bool :=
  let sline := filter (fun kv => (fst (fst kv) =? sl)%N) s2t in
  match sget (sl, sc0) sline with
  | None => false
  | Some (ti0, tl0, tc0) =>
      let tline := filter (fun kv => (fst (fst kv) =? tl0)%N) t2s in
      pos_eqb (pos_of out ti0) (ti0, tl0, tc0)
      && has_prefix l (skipn (N.to_nat ti0) out)
      && forallb (fun jn => let j := N.of_nat jn in
           match target_from_source sline sl (sc0 + j)%N with
           | Some t => pos_eqb t (ti0 + j, tl0, tc0 + j)%N | None => false end
           && match source_from_target tline tl0 (tc0 + j)%N with
              | Some b => pos_eqb b (si0 + j, sl, sc0 + j)%N | None => false end)
         (rune_starts (S (length l)) l 0)
  end.
Fixpoint lines_ok (out : bytes) (s2t t2s : smap) (lines : list bytes) (si sl sc : N) : bool :=
  match lines with
  | [] => true
  | l :: r => line_ok out s2t t2s l si sl sc && lines_ok out s2t t2s r (si + N.of_nat (length l) + 1)%N (N.succ sl) 0%N
  end.

Definition add_faithful (src out : bytes) (s2t t2s : smap) (e : expr) : bool :=
  lines_ok out s2t t2s (split_lf (e_val e) []) (e_fi e) (e_fl e) (e_fc e).

(* ---- decoding of a dumped source map: lines "S l c i l c" / "T l c i l c" ---- *)
Fixpoint read_nat (s : bytes) (acc : N) : N * bytes :=
  match s with
  | b :: r => match sdigit b with Some d => read_nat r (acc * 10 + N.of_nat d)%N | None => (acc, s) end
  | [] => (acc, [])
  end.
Definition skip1 (s : bytes) : bytes := match s with _ :: r => r | [] => [] end.
Definition parse_entry (l : bytes) : option (bool * (key * pos)) :=
  match l with
  | tag :: x20 :: r =>
      let '(a, r) := read_nat r 0%N in let '(b, r) := read_nat (skip1 r) 0%N in
      let '(c, r) := read_nat (skip1 r) 0%N in let '(d, r) := read_nat (skip1 r) 0%N in
      let '(e, _) := read_nat (skip1 r) 0%N in
      Some (Byte.eqb tag x53, ((a, b), (c, d, e)))
  | _ => None
  end.
Definition parse_dump (s : bytes) : smap * smap :=
  fold_right (fun l acc => match parse_entry l with
                           | Some (true, kv) => (kv :: fst acc, snd acc)
                           | Some (false, kv) => (fst acc, kv :: snd acc)
                           | None => acc end) ([], []) (split_lf s []).

Definition show_nat (n : nat) : bytes := dec (N.of_nat n).
Definition show_N (n : N) : bytes := dec n.
(* returns (number of expressions checked, failure report) ; empty report = the predicate holds of every expression *)
Definition check_faithful (src out : bytes) (m : smap * smap) (f : file) : nat * bytes :=
  let es := file_exprs f in
  (length es,
   flat_map (fun e =>
     if negb (range_ok src e) then bs "range-not-ok@" ++ show_N (e_fi e) ++ [x20]
     else if add_faithful src out (fst m) (snd m) e then []
     else bs "unfaithful@" ++ show_N (e_fi e) ++ bs ":" ++ firstn 40 (e_val e) ++ [x20]) es).
