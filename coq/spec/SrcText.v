(* spec/SrcText.v - what a one-line run of static text inside an element DENOTES, read from the SOURCE BYTES of the template
   file (every other C02 oracle starts from the tree the parser built, so a byte the parser drops or rewrites is invisible to
   them).  Fragment: the content T of `<p>T</p>` on one line, made of bytes that are not markup (`<`), not templ syntax
   (`{`, `}`, `@`), not a line terminator; after its leading white space T goes on with a byte that cannot start a statement
   keyword, a Go comment or a call (an upper-case letter, a digit, or a byte above 0x7f), and it holds at least one visible
   ASCII character (so it is not a run of encoded Unicode spaces, which the parser refuses).
   Denotation (templ's documented white-space rule, the one spec/Denote.v applies to the children of an element: white space
   between the start tag and the first thing in the element is not content): the leading run of WHITE SPACE is dropped; every
   other byte stands in the document as it stands in the file.  White space in a file that is
   read as BYTES is the ASCII set (tab, LF, VT, FF, CR, space): a byte 0x85 or 0xA0 is no character of its own in UTF-8, and
   in Latin-1 / Windows-1252 it is NEL / "..." / the no-break space, which HTML does not collapse. *)
From Coq.Strings Require Import Byte String.
From Coq Require Import List NArith Bool.
Import ListNotations.
From V Require Import lib.Bytes.
Open Scope N_scope.

Definition ascii_ws (b : byte) : bool :=
  let n := bN b in ((9 <=? n) && (n <=? 13)) || (n =? 32).

Definition special (b : byte) : bool :=
  Byte.eqb b x3c || Byte.eqb b x7b || Byte.eqb b x7d || Byte.eqb b x40 || Byte.eqb b x0a || Byte.eqb b x0d.

Definition visible_ascii (b : byte) : bool := let n := bN b in (33 <=? n) && (n <=? 126).

(* a byte that may start the text proper: A-Z, 0-9, or above 0x7f *)
Definition starter (b : byte) : bool :=
  let n := bN b in ((65 <=? n) && (n <=? 90)) || ((48 <=? n) && (n <=? 57)) || (128 <=? n).

Fixpoint span (f : byte -> bool) (s : bytes) : bytes * bytes :=
  match s with
  | [] => ([], [])
  | b :: r => if f b then let '(w, t) := span f r in (b :: w, t) else ([], s)
  end.

Definition text_spec (T : bytes) : bytes := snd (span ascii_ws T).

Definition p_open : bytes := bs "<p>".
Definition p_close : bytes := bs "</p>".
Definition doc_spec (T : bytes) : bytes := p_open ++ text_spec T ++ p_close.

(* ---- several lines: the content `\nL1\nL2...\nLn\n<indentation>` of `<p>...</p>`, every Li a line of the fragment (its own
   indentation is its leading white space).  A line break together with the white space after it is one space between two
   lines and nothing in front of the first and behind the last line; every other byte stands as it is. *)
Fixpoint join_sp (l : list bytes) : bytes :=
  match l with
  | [] => []
  | x :: r => match r with [] => x | _ => x ++ [x20] ++ join_sp r end
  end.
Definition lines_spec (Ls : list bytes) : bytes := join_sp (map text_spec Ls).
Definition doc_spec_lines (Ls : list bytes) : bytes := p_open ++ lines_spec Ls ++ p_close.

(* ---- the same lines in ANY static context: [pre] is the markup written in front of the first line (the start tag of the
   enclosing element with its constant attributes, or nothing when the lines are the whole body of a template), [post] the
   markup behind the last one. *)
Definition ctx_spec_lines (pre post : bytes) (Ls : list bytes) : bytes := pre ++ lines_spec Ls ++ post.
