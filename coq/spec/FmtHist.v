(* SPECIFICATION side of C09, process level.

   "Formatting the formatter's own output changes nothing, so format-on-save and `templ fmt -fail` in CI agree after a
   single run" speaks of THE result of formatting a file.  The commands that format - `templ fmt <dir>` (one process,
   every file of the directory one after the other on each worker), the language server (one process for a whole
   editing session, asked to format files that are in the middle of being typed), watch mode - format many files in
   one process, and among them files that do not parse.  So the statement has a process-level reading: the process may
   keep something from one file to the next (a pooled buffer, a cache, a recycled parser), and whatever it keeps must
   not show in any result.

   A process is a transition function over an arbitrary state type:  [step s x] formats the file [x] in state [s] and
   gives the next state and the outcome ([Some y]: the text written back, [None]: the file is rejected and left alone).
   Nothing here mentions the formatter model; the statements are about any such process.                          *)
From Coq.Strings Require Import Byte String.
From Coq Require Import List Bool.
Import ListNotations.
From V Require Import lib.Bytes.

Section Process.
  Variable St : Type.
  Variable step : St -> bytes -> St * option bytes.
  Variable s0 : St.                                  (* the state of a process that has just started *)

  (* the state after the files of [h] have been formatted, in that order *)
  Fixpoint after (s : St) (h : list bytes) : St :=
    match h with [] => s | x :: r => after (fst (step s x)) r end.

  (* what the process says about [x] when it has formatted the files of [h] before *)
  Definition out_after (h : list bytes) (x : bytes) : option bytes := snd (step (after s0 h) x).
  (* what a process that has just started says about [x]: `templ fmt x` in CI *)
  Definition fresh (x : bytes) : option bytes := out_after [] x.

  (* the outcomes of a whole run, file by file *)
  Fixpoint run (s : St) (files : list bytes) : list (option bytes) :=
    match files with [] => [] | x :: r => snd (step s x) :: run (fst (step s x)) r end.

  (* THE PROPERTY: the outcome for a file does not depend on the files formatted (or rejected) before it *)
  Definition history_independent : Prop := forall h x, out_after h x = fresh x.

  (* its consequences in the words of the property text *)
  (* a file that `templ fmt -fail` in a new process accepts as formatted is left byte-identical by every process *)
  Definition formatted_files_stay : Prop := forall h x, fresh x = Some x -> out_after h x = Some x.
  (* format-on-save in a long-lived process, then the check in CI: the file written by the long-lived process is judged
     by the new process exactly as if the new process had written it, and the long-lived process itself, asked again
     right away, agrees with the new one *)
  Definition second_run_agrees : Prop :=
    forall h x y, out_after h x = Some y -> fresh x = Some y /\ out_after (h ++ [x]) y = fresh y.
  (* idempotence after any history: where a new process is idempotent on x, so is every process *)
  Definition idempotent_after_any_history : Prop :=
    forall h x y, fresh x = Some y -> fresh y = Some y -> out_after h x = Some y /\ out_after (h ++ [x]) y = Some y.

  (* the form the harness observes: a whole run gives, file by file, what a new process gives for that file alone *)
  Definition runs_are_fresh : Prop := forall files, run s0 files = map fresh files.

  (* a sufficient discipline: the outcome does not read the state *)
  Definition stateless : Prop := forall s s' x, snd (step s x) = snd (step s' x).
End Process.

(* The decidable judgement on one observed run: [observed] = the outcomes of a run in one process, [reference] = the
   outcome for each of its files in a process of its own.  The first file whose outcome differs, or None. *)
Definition out_eqb (a b : option bytes) : bool :=
  match a, b with Some x, Some y => bytes_eqb x y | None, None => true | _, _ => false end.
Fixpoint first_difference (n : nat) (observed reference : list (option bytes)) : option nat :=
  match observed, reference with
  | [], [] => None
  | a :: r, b :: r' => if out_eqb a b then first_difference (S n) r r' else Some n
  | _, _ => Some n
  end.
Definition run_judged_fresh (observed reference : list (option bytes)) : bool :=
  match first_difference 0 observed reference with None => true | Some _ => false end.
