(* C14 specification: what ONE render produces when it runs alone.
   A render is a sequence of actions (the calls a generated component makes on its buffer,
   its context value, the development-mode text file and the once-handle counter).  Run alone it has
   a private fresh buffer, a private context, reads the text file directly, and writes to its own
   writer, which accepts [cap] bytes and then fails.  The context value also holds the set of CSS classes and
   scripts already emitted in this request (a middleware may have put the classes of the global stylesheet
   there before the render starts); the writer may be the goroutine's own bufio.Writer, which the goroutine
   also writes to itself (a header, a trailer) and flushes when it sees fit.  Nothing here mentions pools,
   a cache, shared maps or other threads: that is the point of the specification. *)
From Coq.Strings Require Import Byte String.
From Coq Require Import List Arith NArith Bool.
Import ListNotations.
From V Require Import lib.Bytes.
Local Open Scope nat_scope.

(* the actions of a render *)
Inductive act :=
| Begin                       (* a new render starts on this goroutine: fresh context value, no error yet *)
| Get                         (* templruntime.GetBuffer(w), w not a *Buffer: pool Get, then Buffer.Reset(w) - two steps *)
| Write (s : bytes)           (* Buffer.WriteString / Write *)
| Lookup (f : N) (i : nat)    (* development-mode templruntime.WriteString: literal i of text file f *)
| Once (h : nat) (n : nat)    (* OnceHandle.Once: the next n actions are the children; skipped if h was rendered in this context *)
| NewHandle                   (* templ.NewOnceHandle() *)
| Err                         (* an expression returned an error: the render returns, running its deferred releases *)
| Flush                       (* a flush in the body (bufio buffer full, templ.Flush) *)
| Release                     (* deferred templruntime.ReleaseBuffer: Flush, then pool Put - two steps *)
| BGet                        (* templ.GetBuffer(): bytes.Buffer pool (handler.go, ToGoHTML); the render then writes into it *)
| BDrain                      (* w.Write(buf.Bytes()) *)
| BRelease                    (* deferred templ.ReleaseBuffer: Reset, then pool Put - two steps *)
| Mid (regs : list N)         (* the request passes templ.CSSMiddleware: the registered class ids are added to the request's context value *)
| EmitOnce (k : N) (s : bytes)(* templ.RenderCSSItems / RenderScriptItems for one item with key k: the element s, unless k was emitted (or registered) in this context *)
| OwnWrap                     (* the goroutine puts its own bufio.Writer in front of its writer; renders are handed that from now on *)
| OwnWrite (s : bytes)        (* the goroutine itself writes s to its writer, outside any render (a header, a trailer) *)
| OwnFlush.                   (* the goroutine flushes its own bufio.Writer *)

(* the development-mode text files: modification time and lines *)
Record file := { mtime : N; flines : list bytes }.
Notation fsys := (list (N * file)).
Fixpoint assoc {A} (k : N) (l : list (N * A)) : option A :=
  match l with [] => None | (k', v) :: r => if N.eqb k k' then Some v else assoc k r end.

Definition nilb {A} (l : list A) : bool := match l with [] => true | _ => false end.
Definition is_some {A} (o : option A) : bool := match o with Some _ => true | None => false end.

(* a writer that accepts [cap] bytes in total: what it holds afterwards, what it refused *)
Definition sink_write (cap : nat) (out c : bytes) : bytes * bytes :=
  let room := cap - length out in (out ++ firstn room c, skipn room c).

(* the private buffer: just acquired (not yet reset), or content / sticky error / writes into the bytes.Buffer / already flushed for release *)
Inductive lbuf := LGot | LBuf (c : bytes) (e : bool) (toB : bool) (flushed : bool).

Record lstate := {
  l_buf : option lbuf;
  l_bb : option bool;      (* holds a bytes.Buffer; true = reset for release done *)
  l_bbc : bytes;           (* its content *)
  l_out : bytes;           (* what the goroutine's writer has received *)
  l_cap : nat;             (* the writer fails after this many bytes *)
  l_ctx : list nat;        (* once handles rendered in the current context *)
  l_ss : list N;           (* classes and scripts emitted or registered in the current context *)
  l_pend : option bytes;   (* the goroutine's own bufio.Writer in front of its writer, if any: the bytes it holds *)
  l_nids : nat;            (* handles created *)
  l_failed : bool;         (* the current render has returned an error *)
  l_prog : list act }.

Definition lmk b bb bbc out cap cx ss pd n f p : lstate :=
  {| l_buf := b; l_bb := bb; l_bbc := bbc; l_out := out; l_cap := cap; l_ctx := cx; l_ss := ss; l_pend := pd; l_nids := n; l_failed := f; l_prog := p |}.

(* a write of c to the goroutine's writer: into its own bufio.Writer when it has one (which takes everything), else to the
   writer itself: out', pend', what was refused *)
Definition dest_write (cap : nat) (out : bytes) (pd : option bytes) (c : bytes) : bytes * option bytes * bytes :=
  match pd with
  | Some q => (out, Some (q ++ c), [])
  | None => let '(out', rest) := sink_write cap out c in (out', None, rest)
  end.

(* bufio Flush of content c (sticky error e) towards the bytes.Buffer or the writer: content', error', out', bbc', pend' *)
Definition lflush (cap : nat) (out bbc : bytes) (pd : option bytes) (c : bytes) (e toB : bool) : bytes * bool * bytes * bytes * option bytes :=
  if e then (c, true, out, bbc, pd)
  else if toB then ([], false, out, bbc ++ c, pd)
  else let '(out', pd', rest) := dest_write cap out pd c in (rest, negb (nilb rest), out', bbc, pd').

Definition lstep (fs : fsys) (v : lstate) : option lstate :=
  let '{| l_buf := b; l_bb := bb; l_bbc := bbc; l_out := out; l_cap := cap; l_ctx := cx; l_ss := ss; l_pend := pd; l_nids := n; l_failed := fl; l_prog := p |} := v in
  match b with
  | Some LGot => Some (lmk (Some (LBuf [] false (is_some bb) false)) bb bbc out cap cx ss pd n fl p)   (* Reset(w): second half of Get *)
  | Some (LBuf c e tb true) => Some (lmk None bb bbc out cap cx ss pd n fl p)                          (* Put: second half of Release *)
  | _ =>
  match bb with
  | Some true => Some (lmk b None [] out cap cx ss pd n fl p)                                          (* Put: second half of BRelease *)
  | _ =>
  match p with
  | [] => None
  | a :: r =>
    match a with
    | Begin => Some (lmk b bb bbc out cap [] [] pd n false r)
    | Get => match b with None => Some (lmk (Some LGot) bb bbc out cap cx ss pd n fl r) | Some _ => None end
    | Write s =>
        if fl then Some (lmk b bb bbc out cap cx ss pd n fl r) else
        match b with
        | Some (LBuf c e tb _) =>
            if e then Some (lmk b bb bbc out cap cx ss pd n true r)
            else Some (lmk (Some (LBuf (c ++ s) false tb false)) bb bbc out cap cx ss pd n fl r)
        | _ => None end
    | Lookup f i =>
        if fl then Some (lmk b bb bbc out cap cx ss pd n fl r) else
        match b with
        | Some (LBuf c e tb _) =>
            match (match assoc f fs with Some fi => nth_error (flines fi) i | None => None end) with
            | Some s => if e then Some (lmk b bb bbc out cap cx ss pd n true r)
                        else Some (lmk (Some (LBuf (c ++ s) false tb false)) bb bbc out cap cx ss pd n fl r)
            | None => Some (lmk b bb bbc out cap cx ss pd n true r)
            end
        | _ => None end
    | Once h k =>
        if fl then Some (lmk b bb bbc out cap cx ss pd n fl r) else
        if existsb (Nat.eqb h) cx then Some (lmk b bb bbc out cap cx ss pd n fl (skipn k r))
        else Some (lmk b bb bbc out cap (h :: cx) ss pd n fl r)
    | NewHandle =>
        if fl then Some (lmk b bb bbc out cap cx ss pd n fl r) else Some (lmk b bb bbc out cap cx ss pd (S n) fl r)
    | Err => Some (lmk b bb bbc out cap cx ss pd n true r)
    | Flush =>
        if fl then Some (lmk b bb bbc out cap cx ss pd n fl r) else
        match b with
        | Some (LBuf c e tb _) =>
            let '(c', e', out', bbc', pd') := lflush cap out bbc pd c e tb in
            Some (lmk (Some (LBuf c' e' tb false)) bb bbc' out' cap cx ss pd' n e' r)
        | _ => None end
    | Release =>
        match b with
        | Some (LBuf c e tb _) =>
            let '(c', e', out', bbc', pd') := lflush cap out bbc pd c e tb in
            Some (lmk (Some (LBuf c' e' tb true)) bb bbc' out' cap cx ss pd' n (fl || e') r)
        | _ => None end
    | BGet => match bb with None => Some (lmk b (Some false) [] out cap cx ss pd n fl r) | Some _ => None end
    | BDrain =>
        if fl then Some (lmk b bb bbc out cap cx ss pd n fl r) else
        match bb with
        | Some _ => let '(out', pd', rest) := dest_write cap out pd bbc in
                    Some (lmk b bb bbc out' cap cx ss pd' n (negb (nilb rest)) r)
        | None => None end
    | BRelease =>
        match bb with
        | Some _ => Some (lmk b (Some true) [] out cap cx ss pd n fl r)
        | None => None end
    | Mid regs => Some (lmk b bb bbc out cap cx (regs ++ ss) pd n fl r)
    | EmitOnce k s =>
        if fl then Some (lmk b bb bbc out cap cx ss pd n fl r) else
        if existsb (N.eqb k) ss then Some (lmk b bb bbc out cap cx ss pd n fl r) else
        match b with
        | Some (LBuf c e tb _) =>
            if e then Some (lmk b bb bbc out cap cx (k :: ss) pd n true r)
            else Some (lmk (Some (LBuf (c ++ s) false tb false)) bb bbc out cap cx (k :: ss) pd n fl r)
        | _ => None end
    | OwnWrap =>
        match b, bb, pd with
        | None, None, None => Some (lmk b bb bbc out cap cx ss (Some []) n fl r)
        | _, _, _ => None end
    | OwnWrite s =>
        let '(out', pd', _) := dest_write cap out pd s in Some (lmk b bb bbc out' cap cx ss pd' n fl r)
    | OwnFlush =>
        match pd with
        | Some q => let '(out', rest) := sink_write cap out q in Some (lmk b bb bbc out' cap cx ss (Some rest) n fl r)
        | None => Some (lmk b bb bbc out cap cx ss pd n fl r)
        end
    end
  end
  end
  end.

(* k steps of a render running alone; None when it cannot take that many *)
Fixpoint lrun (fs : fsys) (k : nat) (v : lstate) : option lstate :=
  match k with O => Some v | S k' => match lstep fs v with Some v' => lrun fs k' v' | None => None end end.

Definition linit (cap : nat) (p : list act) : lstate := lmk None None [] [] cap [] [] None 0 false p.

(* run to completion (fuel-bounded): the output of the render alone *)
Fixpoint lfinal (fs : fsys) (fuel : nat) (v : lstate) : lstate :=
  match fuel with O => v | S f => match lstep fs v with Some v' => lfinal fs f v' | None => v end end.
Definition alone_out (fs : fsys) (cap : nat) (p : list act) : bytes :=
  l_out (lfinal fs (2 * length p + 2) (linit cap p)).

(* what a render of a component tree looks like: the shape the generated code has *)
Definition render (body : list act) : list act := Begin :: Get :: body ++ [Release].
Definition handler_render (body : list act) : list act := Begin :: BGet :: Get :: body ++ [Release; BDrain; BRelease].
(* the same behind templ.NewCSSMiddleware(next, classes...) *)
Definition mw_render (regs : list N) (body : list act) : list act := Begin :: Mid regs :: Get :: body ++ [Release].
Definition mw_handler_render (regs : list N) (body : list act) : list act := Begin :: Mid regs :: BGet :: Get :: body ++ [Release; BDrain; BRelease].
(* a render into the goroutine's own bufio.Writer, between a header and a trailer the goroutine writes itself *)
Definition framed_render (head tail : bytes) (body : list act) : list act := OwnWrite head :: render body ++ [OwnWrite tail; OwnFlush].
