(* Specification for C11: what "all-or-nothing" demands of the HTTP response a client receives.
   Written over the observable response only (status, header map, body); it does not mention the
   handler, the ResponseWriter or the buffer. *)
From Coq.Strings Require Import Byte String.
From Coq Require Import List NArith Bool.
Import ListNotations.
From V Require Import lib.Bytes.
Open Scope N_scope.

(* A header map as observed: one value per key, keys in ascending byte order (canonical form,
   so that two observed maps are equal iff they are the same list). *)
Notation headers := (list (bytes * bytes)).

(* What an http client / httptest.ResponseRecorder.Result() observes. *)
Record resp := { r_status : N; r_hdr : headers; r_body : bytes }.

Fixpoint hget (k : bytes) (h : headers) : option bytes :=
  match h with
  | [] => None
  | (k', v) :: t => if bytes_eqb k k' then Some v else hget k t
  end.

Definition h_ctype : bytes := bs "Content-Type".
Definition h_nosniff : bytes := bs "X-Content-Type-Options".
Definition text_plain : bytes := bs "text/plain; charset=utf-8".
Definition nosniff : bytes := bs "nosniff".
(* the fixed message of the default error response, as http.Error writes it (message + newline) *)
Definition err_msg : bytes := bs "templ: failed to render template".
Definition err_body : bytes := err_msg ++ [x0a].

(* The complete document [doc] with the configured status ([st] = 0 means unset: 200) and content type. *)
Definition complete_doc (st : N) (ct doc : bytes) (r : resp) : Prop :=
  r_status r = (if st =? 0 then 200 else st) /\ hget h_ctype (r_hdr r) = Some ct /\ r_body r = doc.

(* The default error response: 500, the fixed message, as plain text that must not be sniffed. *)
Definition default_error (r : resp) : Prop :=
  r_status r = 500 /\ r_body r = err_body /\
  hget h_ctype (r_hdr r) = Some text_plain /\ hget h_nosniff (r_hdr r) = Some nosniff.

(* [eh] describes the configured error handler by the response it produces on its own, i.e. when
   it is run on a fresh writer on which only the configured Content-Type has been set; [None] = no
   error handler configured.  All-or-nothing: a successful render is answered by the complete
   document; a failed render by the error response, which does not mention the document at all. *)
Definition all_or_nothing (st : N) (ct : bytes) (eh : option resp) (doc : bytes) (failed : bool) (r : resp) : Prop :=
  if failed then match eh with Some e => r = e | None => default_error r end
  else complete_doc st ct doc r.

(* The same as an HTTP client sees it.  The response to a HEAD request carries the status line and the
   header section only (RFC 9110 9.3.2: the server must not send content): all-or-nothing then demands
   that what arrives is the all-or-nothing response without its body - in particular the status and the
   content type a HEAD announces are those a GET of the same resource would get.  [head]: the request
   method was HEAD and the response was observed by a client (not at the ResponseWriter); [eh] is then
   the error handler's own response observed the same way. *)
Definition no_body (r : resp) : resp := {| r_status := r_status r; r_hdr := r_hdr r; r_body := [] |}.
Definition all_or_nothing_wire (head : bool) (st : N) (ct : bytes) (eh : option resp) (doc : bytes) (failed : bool) (r : resp) : Prop :=
  if head then exists r0, all_or_nothing st ct eh doc failed r0 /\ r = no_body r0
  else all_or_nothing st ct eh doc failed r.

(* ---- decidable versions, extracted and evaluated on the implementation's real responses ---- *)
Definition obytes_eqb (a b : option bytes) : bool :=
  match a, b with Some x, Some y => bytes_eqb x y | None, None => true | _, _ => false end.
Fixpoint hdr_eqb (a b : headers) : bool :=
  match a, b with
  | [], [] => true
  | (k, v) :: a', (k', v') :: b' => bytes_eqb k k' && bytes_eqb v v' && hdr_eqb a' b'
  | _, _ => false
  end.
Definition resp_eqb (a b : resp) : bool :=
  (r_status a =? r_status b) && hdr_eqb (r_hdr a) (r_hdr b) && bytes_eqb (r_body a) (r_body b).

Definition complete_doc_b (st : N) (ct doc : bytes) (r : resp) : bool :=
  (r_status r =? (if st =? 0 then 200 else st)) && obytes_eqb (hget h_ctype (r_hdr r)) (Some ct) && bytes_eqb (r_body r) doc.
Definition default_error_b (r : resp) : bool :=
  (r_status r =? 500) && bytes_eqb (r_body r) err_body &&
  obytes_eqb (hget h_ctype (r_hdr r)) (Some text_plain) && obytes_eqb (hget h_nosniff (r_hdr r)) (Some nosniff).
Definition all_or_nothing_b (st : N) (ct : bytes) (eh : option resp) (doc : bytes) (failed : bool) (r : resp) : bool :=
  if failed then match eh with Some e => resp_eqb r e | None => default_error_b r end
  else complete_doc_b st ct doc r.

Definition all_or_nothing_wire_b (head : bool) (st : N) (ct : bytes) (eh : option resp) (doc : bytes) (failed : bool) (r : resp) : bool :=
  if head then
    bytes_eqb (r_body r) [] &&
    (if failed then
       match eh with
       | Some e => resp_eqb r (no_body e)
       | None => (r_status r =? 500) &&
                 obytes_eqb (hget h_ctype (r_hdr r)) (Some text_plain) && obytes_eqb (hget h_nosniff (r_hdr r)) (Some nosniff)
       end
     else (r_status r =? (if st =? 0 then 200 else st)) && obytes_eqb (hget h_ctype (r_hdr r)) (Some ct))
  else all_or_nothing_b st ct eh doc failed r.
