(* Specification: WHATWG URL "basic URL parser", scheme extraction only
   (https://url.spec.whatwg.org/#concept-basic-url-parser, steps 1-3 and the
   scheme start / scheme states).  None = the input has no scheme and is resolved
   against the base URL, i.e. it is a relative reference. *)
From Coq.Strings Require Import Byte String.
From Coq Require Import List NArith Bool.
Import ListNotations.
From V Require Import lib.Bytes.
Open Scope N_scope.

Definition is_c0_space (b : byte) : bool := bN b <=? 32.
Definition is_tabnl (b : byte) : bool := let n := bN b in (n =? 9) || (n =? 10) || (n =? 13).
Definition is_alpha (b : byte) : bool := let n := bN (lower b) in (97 <=? n) && (n <=? 122).
Definition is_digit (b : byte) : bool := let n := bN b in (48 <=? n) && (n <=? 57).
Definition is_scheme_char (b : byte) : bool :=
  is_alpha b || is_digit b || Byte.eqb b x2b || Byte.eqb b x2d || Byte.eqb b x2e.
(* strip leading C0-control-or-space, remove all ASCII tab/newline.  Trailing stripping cannot
   affect the scheme and is omitted. *)
Definition preprocess (s : bytes) : bytes := filter (fun b => negb (is_tabnl b)) (drop_while is_c0_space s).
Fixpoint scheme_rest (s : bytes) : option bytes :=
  match s with
  | [] => None
  | b :: r => if Byte.eqb b x3a then Some []
              else if is_scheme_char b then option_map (cons (lower b)) (scheme_rest r) else None
  end.
Definition browser_scheme (s : bytes) : option bytes :=
  match preprocess s with
  | b :: r => if is_alpha b then option_map (cons (lower b)) (scheme_rest r) else None
  | [] => None
  end.

(* the allow-list of the property, written out independently of the model *)
Definition spec_allowed : list bytes := map bs ["http"; "https"; "mailto"; "tel"; "ftp"; "ftps"]%string.
Definition safe (s : bytes) : Prop :=
  match browser_scheme s with None => True | Some sc => In sc spec_allowed end.
Definition safeb (s : bytes) : bool :=
  match browser_scheme s with None => true | Some sc => existsb (bytes_eqb sc) spec_allowed end.
