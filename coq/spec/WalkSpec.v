(* Specification for C15: what a directory tree must look like after `templ generate`.
   Written from the property text, not from the code:
     - every .templ file outside skipped directories (vendor, node_modules, dot- and underscore-prefixed) has a
       sibling _templ.go equal to the gofmt-formatted generation of that file alone;
     - orphaned _templ.go files are gone unless kept by flag;
     - no other file was touched;
     - a file that cannot be generated makes the command fail without preventing the others.
   "Skipped directories" are directories INSIDE the tree being generated; the root of the tree is what the
   command was asked to generate and is never one of them.
   Only the types [path], [entry], [fs], [listing] and the generic string helper [strip_suffix] are shared with
   the model. *)
From Coq.Strings Require Import Byte String.
From Coq Require Import List NArith ZArith Bool.
Import ListNotations.
From V Require Import lib.Bytes model.Walk.

Inductive content := CAbsent | CDir | CFile (c : bytes).
Definition content_of (o : option entry) : content :=
  match o with None => CAbsent | Some Dir => CDir | Some (File c _) => CFile c end.
Definition content_eqb (a b : content) : bool :=
  match a, b with
  | CAbsent, CAbsent => true | CDir, CDir => true
  | CFile x, CFile y => bytes_eqb x y
  | _, _ => false
  end.
Definition entry_eqb (a b : option entry) : bool :=
  match a, b with
  | None, None => true | Some Dir, Some Dir => true
  | Some (File x m), Some (File y n) => bytes_eqb x y && Z.eqb m n
  | _, _ => false
  end.

(* a directory name the command leaves alone *)
Definition skipped_name (n : bytes) : bool :=
  bytes_eqb n (bs "vendor") || bytes_eqb n (bs "node_modules")
  || match n with b :: _ => Byte.eqb b "." || Byte.eqb b "_" | [] => false end.
(* p lies outside skipped directories: none of the directories on the way from the root down to p is skipped *)
Definition outside_skipped (p : path) : bool := forallb (fun n => negb (skipped_name n)) (fst p).

(* g is the sibling _templ.go of the template src: same directory, x.templ / x_templ.go *)
Definition sibling (src g : path) : Prop :=
  fst src = fst g /\ exists stem, snd src = stem ++ bs ".templ" /\ snd g = stem ++ bs "_templ.go".
(* computable forms *)
Definition template_of (g : path) : option path :=
  match strip_suffix (bs "_templ.go") (snd g) with Some stem => Some (fst g, stem ++ bs ".templ") | None => None end.
Definition sibling_of (src : path) : option path :=
  match strip_suffix (bs ".templ") (snd src) with Some stem => Some (fst src, stem ++ bs "_templ.go") | None => None end.

Section Spec.
Variable generate : path -> bytes -> option bytes.   (* generation + gofmt of one file alone; None = cannot be generated *)
Variable keep : bool.                                (* orphans kept by flag *)

(* contents demanded at q after a run on tree t.  A directory is never touched: a directory sitting where an
   output file belongs stays (and makes that template ungeneratable, see [fails]); "orphaned _templ.go FILES are gone" *)
Definition spec_content (t : fs) (q : path) : content :=
  match t q with
  | Some Dir => CDir
  | _ =>
    if outside_skipped q then
      match template_of q with
      | Some src =>
          match t src with
          | Some (File c _) => match generate src c with Some code => CFile code | None => content_of (t q) end
          | Some Dir => content_of (t q)
          | None => if keep then content_of (t q) else CAbsent
          end
      | None => content_of (t q)
      end
    else content_of (t q)
  end.

(* the only paths a run may touch at all (modification time included): _templ.go names outside skipped directories *)
Definition may_touch (q : path) : bool :=
  outside_skipped q && match template_of q with Some _ => true | None => false end.

(* src is a template outside skipped directories that cannot be generated: parsing, generation or gofmt fails,
   or its output cannot be written because a directory occupies the sibling path *)
Definition fails (t : fs) (src : path) : bool :=
  outside_skipped src
  && match sibling_of src with
     | Some g =>
         match t src with
         | Some (File c _) =>
             match generate src c with None => true | Some _ => match t g with Some Dir => true | _ => false end end
         | _ => false
         end
     | None => false
     end.

(* the tree t' and failure status left by a run on the tree listed by l *)
Definition spec_holds (l : listing) (t' : fs) (failed : bool) : Prop :=
  (forall q, content_of (t' q) = spec_content (lookup l) q)
  /\ (forall q, may_touch q = false -> t' q = lookup l q)
  /\ (failed = true <-> exists src, In src (map fst l) /\ fails (lookup l) src = true).

(* executable check of [spec_holds] for a finite after-tree (what the harness evaluates on the real command's
   output): every path of either listing, and every sibling of a template of the before-listing *)
Definition siblings (l : listing) : list path :=
  flat_map (fun pe => match sibling_of (fst pe) with Some g => [g] | None => [] end) l.
Definition spec_check (l l' : listing) (failed : bool) : bool :=
  forallb (fun q => content_eqb (content_of (lookup l' q)) (spec_content (lookup l) q)
                    && (may_touch q || entry_eqb (lookup l' q) (lookup l q)))
          (map fst l ++ map fst l' ++ siblings l)
  && Bool.eqb failed (existsb (fun pe => fails (lookup l) (fst pe)) l).
End Spec.
