(* SPECIFICATION side of C03: how a browser reads the bytes templ emits into JavaScript.
   Independent of templ's code: nothing here mentions the replacement tables or encoding/json.

     quote, qbyte                 the three string-literal kinds  '...'  "..."  `...`
     lt_at / lsps_at / has_lsps   ECMAScript line terminators LF CR U+2028 U+2029 (the last two as their UTF-8 bytes
                                  E2 80 A8 / E2 80 A9: E2 is never a continuation byte, so every decoder resynchronises
                                  there and the byte triple is U+2028/9 wherever it occurs)
     lex_string q s               scans a literal body that starts right after the opening quote:
                                    LClosed n      the closing quote is the byte at offset n
                                    LInterp n      (backtick only) an interpolation "${" opens at offset n
                                    LBadLine n     ('...' and "..." only) unescaped line terminator at offset n
                                    LUnterminated  input ended inside the literal
                                  U+2028/9 are treated as illegal inside '...' and "..." (pre-ES2019 engines): conservative.
     js_unescape q body           the string value (SV / cooked TV, ECMAScript 12.9.4 / 12.9.6) of a literal body as UTF-8
                                  bytes; None when the body is not a well-formed body of that kind, or uses a feature this
                                  specification deliberately rejects (legacy octal escapes, surrogate escapes).
     script_end_at / has_script_end   the HTML script-data states: "</script" (ASCII case-insensitive; the tokenizer
                                  additionally needs white space, "/" or ">" next - ignoring that is conservative) and "<!--".
     danger/clean, hot/cool       byte classes used by the statements.                                             *)
From Coq.Strings Require Import Byte String.
From Coq Require Import List NArith Bool Lia.
Import ListNotations.
From V Require Import lib.Bytes lib.Utf8.
Open Scope N_scope.

Inductive quote := QSingle | QDouble | QBacktick.
Definition qbyte (q : quote) : byte := match q with QSingle => x27 | QDouble => x22 | QBacktick => x60 end.
Definition is_backtick (q : quote) : bool := match q with QBacktick => true | _ => false end.

(* ---------------- line terminators ---------------- *)
Definition ls_bytes : bytes := [xe2; x80; xa8].
Definition ps_bytes : bytes := [xe2; x80; xa9].
Definition lsps_at (s : bytes) : bool := has_prefix ls_bytes s || has_prefix ps_bytes s.
Definition lt_at (s : bytes) : bool :=
  match s with [] => false | c :: _ => Byte.eqb c x0a || Byte.eqb c x0d || lsps_at s end.
Fixpoint has_lsps (s : bytes) : bool :=
  match s with [] => false | _ :: r => lsps_at s || has_lsps r end.

(* ---------------- string-literal lexer ---------------- *)
Inductive lres := LClosed (n : nat) | LInterp (n : nat) | LBadLine (n : nat) | LUnterminated.

Definition next_is (b : byte) (r : bytes) : bool := match r with d :: _ => Byte.eqb d b | [] => false end.

(* esc = the previous byte was an unescaped backslash; n = offset of the head of s in the literal body *)
Fixpoint lex_go (q : quote) (esc : bool) (s : bytes) (n : nat) : lres :=
  match s with
  | [] => LUnterminated
  | c :: r =>
      if esc then
        (* the character after a backslash is consumed whatever it is; backslash CR LF is ONE line continuation *)
        if Byte.eqb c x0d then
          match r with
          | d :: r' => if Byte.eqb d x0a then lex_go q false r' (S (S n)) else lex_go q false r (S n)
          | [] => lex_go q false r (S n)
          end
        else lex_go q false r (S n)
      else if Byte.eqb c x5c then lex_go q true r (S n)
      else if Byte.eqb c (qbyte q) then LClosed n
      else if is_backtick q && Byte.eqb c x24 && next_is x7b r then LInterp n
      else if negb (is_backtick q) && lt_at s then LBadLine n
      else lex_go q false r (S n)
  end.
Definition lex_string (q : quote) (s : bytes) : lres := lex_go q false s 0.

(* ---------------- string value of a literal body ---------------- *)
Definition hexv (b : byte) : option N :=
  let n := bN b in
  if (48 <=? n) && (n <=? 57) then Some (n - 48)
  else if (97 <=? n) && (n <=? 102) then Some (n - 87)
  else if (65 <=? n) && (n <=? 70) then Some (n - 55) else None.
Definition is_digit (b : byte) : bool := inr 48 57 b.

(* \b \t \n \v \f \r ; every other character stands for itself (CharacterEscapeSequence) *)
Definition single_escape (c : byte) : byte :=
  if Byte.eqb c x62 then x08 else if Byte.eqb c x74 then x09 else if Byte.eqb c x6e then x0a
  else if Byte.eqb c x76 then x0b else if Byte.eqb c x66 then x0c else if Byte.eqb c x72 then x0d else c.

(* the digits of \u{...} up to the closing brace *)
Fixpoint hex_braced (s : bytes) (acc : N) (ndig : nat) : option (N * bytes) :=
  match s with
  | [] => None
  | c :: r =>
      if Byte.eqb c x7d then
        match ndig with O => None | _ => if acc <=? MaxRune then Some (acc, r) else None end
      else match hexv c with
           | Some h => hex_braced r (acc * 16 + h) (S ndig)
           | None => None
           end
  end.

Definition emit_cp (cp : N) (k : option bytes) : option bytes :=
  if is_surrogate cp then None else option_map (app (encode_utf8 cp)) k.

Fixpoint unesc_fuel (q : quote) (fuel : nat) (s : bytes) : option bytes :=
  match fuel with
  | O => None
  | S f =>
      match s with
      | [] => Some []
      | c :: r =>
          if Byte.eqb c x5c then
            match r with
            | [] => None
            | d :: r1 =>
                if Byte.eqb d x75 then                                   (* \uXXXX  and  \u{X...} *)
                  match r1 with
                  | [] => None
                  | a :: r2 =>
                      if Byte.eqb a x7b then
                        match hex_braced r2 0 0 with
                        | Some (cp, r3) => emit_cp cp (unesc_fuel q f r3)
                        | None => None
                        end
                      else
                        match r2 with
                        | b :: c2 :: d2 :: r3 =>
                            match hexv a, hexv b, hexv c2, hexv d2 with
                            | Some ha, Some hb, Some hc, Some hd =>
                                emit_cp (ha * 4096 + hb * 256 + hc * 16 + hd) (unesc_fuel q f r3)
                            | _, _, _, _ => None
                            end
                        | _ => None
                        end
                  end
                else if Byte.eqb d x78 then                              (* \xHH *)
                  match r1 with
                  | a :: b :: r2 =>
                      match hexv a, hexv b with
                      | Some ha, Some hb => emit_cp (ha * 16 + hb) (unesc_fuel q f r2)
                      | _, _ => None
                      end
                  | _ => None
                  end
                else if is_digit d then                                  (* \0 alone is NUL; other digit escapes rejected *)
                  if Byte.eqb d x30 && negb (match r1 with e :: _ => is_digit e | [] => false end)
                  then option_map (cons x00) (unesc_fuel q f r1) else None
                else if Byte.eqb d x0d then                              (* line continuations contribute nothing *)
                  match r1 with
                  | e :: r2 => if Byte.eqb e x0a then unesc_fuel q f r2 else unesc_fuel q f r1
                  | [] => unesc_fuel q f r1
                  end
                else if Byte.eqb d x0a then unesc_fuel q f r1
                else if lsps_at r then unesc_fuel q f (skipn 3 r)
                else option_map (cons (single_escape d)) (unesc_fuel q f r1)
            end
          else if Byte.eqb c (qbyte q) then None                         (* an unescaped closing quote is not body *)
          else if is_backtick q && Byte.eqb c x24 && next_is x7b r then None   (* an interpolation is not body *)
          else if lt_at s then
            if is_backtick q then                                        (* template literals: CR LF and CR cook to LF *)
              if Byte.eqb c x0d then
                match r with
                | e :: r2 => if Byte.eqb e x0a then option_map (cons x0a) (unesc_fuel q f r2)
                             else option_map (cons x0a) (unesc_fuel q f r)
                | [] => option_map (cons x0a) (unesc_fuel q f r)
                end
              else option_map (cons c) (unesc_fuel q f r)
            else None
          else option_map (cons c) (unesc_fuel q f r)
      end
  end.
Definition js_unescape (q : quote) (s : bytes) : option bytes := unesc_fuel q (S (length s)) s.

(* ---------------- script data ---------------- *)
Fixpoint has_prefix_ci (p s : bytes) : bool :=   (* p is given in lower case *)
  match p, s with
  | [], _ => true
  | x :: p', y :: s' => Byte.eqb x (lower y) && has_prefix_ci p' s'
  | _ :: _, [] => false
  end.
Definition script_close : bytes := [x3c; x2f; x73; x63; x72; x69; x70; x74].   (* "</script" *)
Definition comment_open : bytes := [x3c; x21; x2d; x2d].                       (* "<!--" *)
Definition script_end_at (s : bytes) : bool := has_prefix_ci script_close s || has_prefix comment_open s.
Fixpoint has_script_end (s : bytes) : bool :=
  match s with [] => false | _ :: r => script_end_at s || has_script_end r end.

(* ---------------- byte classes ---------------- *)
(* bytes that may not appear raw in data placed inside ANY of the three literal kinds:
   controls (incl. LF CR), the three quotes, "$" (template interpolation), "<" ">" "&" (script end, comment, entity) *)
Definition danger (b : byte) : bool :=
  let n := bN b in
  (n <? 32) || (n =? 34) || (n =? 39) || (n =? 96) || (n =? 36) || (n =? 60) || (n =? 62) || (n =? 38).
Definition clean (l : bytes) : bool := forallb (fun b => negb (danger b)) l.

(* bytes that may not appear raw in data placed in script data outside a literal *)
Definition hot (b : byte) : bool := let n := bN b in (n <? 32) || (n =? 60) || (n =? 62) || (n =? 38).
Definition cool (l : bytes) : bool := forallb (fun b => negb (hot b)) l.

(* bytes that can change the state of an HTML attribute value or tag *)
Definition attr_hot (b : byte) : bool := let n := bN b in (n =? 34) || (n =? 39) || (n =? 60) || (n =? 62).
Definition attr_inert (l : bytes) : bool := forallb (fun b => negb (attr_hot b)) l.

(* identifier characters of a dotted JavaScript name *)
Definition name_byte (b : byte) : bool :=
  let n := bN b in
  ((97 <=? n) && (n <=? 122)) || ((65 <=? n) && (n <=? 90)) || ((48 <=? n) && (n <=? 57)) ||
  (n =? 36) || (n =? 95) || (n =? 46).
