(* Specification: byte-step HTML5 tokenizer restricted to STRUCTURE (DESIGN 4.1).
   Follows HTML Living Standard 13.2.5 (tokenization) state by state:
     data / RCDATA / RAWTEXT / script data (incl. the escaped and double-escaped states) / PLAINTEXT,
     tag open, end tag open, tag name, the three "less-than sign / end tag open / end tag name" states
     of the raw-text kinds, all attribute states, self-closing start tag, markup declaration open,
     bogus comment, the comment states (incl. the abrupt closes <!--> and <!--->), DOCTYPE.
   Restrictions, all stated here rather than hidden:
     * the input is a byte string; the input-stream preprocessing (CR/CRLF normalisation) and the
       replacement of NUL by U+FFFD are not done: bytes are reported raw.  Neither changes which state
       the tokenizer is in (CR is treated as whitespace wherever LF is).
     * text and attribute values are reported RAW; character references are the separate pass
       spec/HtmlRefs.v ([decode_refs]).  This split is faithful because a character reference never
       changes the tokenizer state (13.2.5.72: it returns to the state it was entered from).
     * the switch to RCDATA / RAWTEXT / script data / PLAINTEXT after a start tag is made by the tokenizer
       itself from the tag name, with the list golang.org/x/net/html uses (title textarea | style xmp iframe
       noembed noframes noscript | script | plaintext); in the standard the tree builder makes this switch
       (and does not make it inside foreign content: svg/math are out of scope).
     * tag and attribute names are ASCII-lower-cased as the standard says; duplicate attributes are kept
       (the standard drops the later one and reports a parse error: no effect on state).
     * DOCTYPE tokens carry the raw bytes up to '>' (every DOCTYPE sub-state leaves to data on '>').
     * the comment-less-than-sign states (13.2.5.46-49) exist in the standard only to report the
       nested-comment parse error; they are behaviourally equal to staying in the comment state and are
       folded into it.  CDATA sections exist only in foreign content: "<![CDATA[" is a bogus comment. *)
From Coq.Strings Require Import Byte String.
From Coq Require Import List NArith Bool.
Import ListNotations.
From V Require Import lib.Bytes.

Inductive token :=
| TChar (b : byte)                                                    (* character token (one byte) *)
| TStart (name : bytes) (attrs : list (bytes * bytes)) (selfclosing : bool)
| TEnd (name : bytes)                                                 (* attributes of end tags are dropped *)
| TComment (data : bytes)
| TDoctype (data : bytes).

(* the text states *)
Inductive tx := XData | XRcdata | XRawtext | XScript | XPlaintext
              | XEsc | XEscDash | XEscDashDash            (* script data escaped (dash (dash)) *)
              | XDbl | XDblDash | XDblDashDash.           (* script data double escaped (dash (dash)) *)

(* a tag under construction: end tag?, lower-cased name, attributes so far (latest first) *)
Inductive tagacc := TA (e : bool) (n : bytes) (acc : list (bytes * bytes)).

Inductive tstate :=
| Text (x : tx) (nm : bytes)             (* nm: name of the last start tag (for "appropriate end tag") *)
| TagOpen | EndTagOpen
| TagName (e : bool) (n : bytes)
| BeforeAttrName (t : tagacc)
| AttrName (t : tagacc) (k : bytes)
| AfterAttrName (t : tagacc) (k : bytes)
| BeforeAttrValue (t : tagacc) (k : bytes)
| AttrValDQ (t : tagacc) (k v : bytes)
| AttrValSQ (t : tagacc) (k v : bytes)
| AttrValUQ (t : tagacc) (k v : bytes)
| AfterAttrValQ (t : tagacc)
| SelfClosingStart (t : tagacc)
| RawLt (x : tx) (nm : bytes)            (* RCDATA / RAWTEXT / script data (escaped) less-than sign *)
| RawEndOpen (x : tx) (nm : bytes)
| RawEndName (x : tx) (nm buf : bytes)   (* buf: the temporary buffer, bytes as seen *)
| ScriptEscStart (nm : bytes) | ScriptEscStartDash (nm : bytes)
| DblStart (nm buf : bytes) | DblLt (nm : bytes) | DblEnd (nm buf : bytes)
| MarkupDecl (buf : bytes)               (* after "<!": deciding between "--", DOCTYPE and bogus comment *)
| BogusComment (d : bytes)
| CommentStart | CommentStartDash
| Comment (d : bytes) | CommentEndDash (d : bytes) | CommentEnd (d : bytes) | CommentEndBang (d : bytes)
| Doctype (d : bytes).

Definition Data : tstate := Text XData [].

Definition is_ws (b : byte) : bool :=
  Byte.eqb b x20 || Byte.eqb b x09 || Byte.eqb b x0a || Byte.eqb b x0c || Byte.eqb b x0d.
Definition is_alpha (b : byte) : bool :=
  let n := bN b in ((65 <=? n) && (n <=? 90) || (97 <=? n) && (n <=? 122))%N.
Definition isn (n : bytes) (s : string) : bool := bytes_eqb n (bs s).

(* which text state follows a start tag with this (lower-cased) name *)
Definition text_kind (n : bytes) : tx :=
  if isn n "title" || isn n "textarea" then XRcdata
  else if isn n "style" || isn n "xmp" || isn n "iframe" || isn n "noembed" || isn n "noframes" || isn n "noscript" then XRawtext
  else if isn n "script" then XScript
  else if isn n "plaintext" then XPlaintext
  else XData.
Definition after_start (n : bytes) : tstate :=
  match text_kind n with XData => Data | x => Text x n end.

Definition push (t : tagacc) (k v : bytes) : tagacc := let '(TA e n acc) := t in TA e n ((k, v) :: acc).
Definition emit_tag (t : tagacc) (sc : bool) : tstate * list token :=
  let '(TA e n acc) := t in
  if e then (Data, [TEnd n]) else (after_start n, [TStart n (rev acc) sc]).
Definition chars (s : bytes) : list token := map TChar s.

(* ---- the text states (13.2.5.1-5, .20-22, .27-29) ---- *)
Definition step_text (x : tx) (nm : bytes) (b : byte) : tstate * list token :=
  let lt := Byte.eqb b x3c in let dash := Byte.eqb b x2d in let gt := Byte.eqb b x3e in
  match x with
  | XData => if lt then (TagOpen, []) else (Text XData nm, [TChar b])
  | XPlaintext => (Text XPlaintext nm, [TChar b])
  | XRcdata | XRawtext | XScript => if lt then (RawLt x nm, []) else (Text x nm, [TChar b])
  | XEsc => if dash then (Text XEscDash nm, [TChar b]) else if lt then (RawLt XEsc nm, []) else (Text XEsc nm, [TChar b])
  | XEscDash => if dash then (Text XEscDashDash nm, [TChar b]) else if lt then (RawLt XEsc nm, []) else (Text XEsc nm, [TChar b])
  | XEscDashDash => if dash then (Text XEscDashDash nm, [TChar b]) else if lt then (RawLt XEsc nm, [])
                    else if gt then (Text XScript nm, [TChar b]) else (Text XEsc nm, [TChar b])
  | XDbl => if dash then (Text XDblDash nm, [TChar b]) else if lt then (DblLt nm, [TChar b]) else (Text XDbl nm, [TChar b])
  | XDblDash => if dash then (Text XDblDashDash nm, [TChar b]) else if lt then (DblLt nm, [TChar b]) else (Text XDbl nm, [TChar b])
  | XDblDashDash => if dash then (Text XDblDashDash nm, [TChar b]) else if lt then (DblLt nm, [TChar b])
                    else if gt then (Text XScript nm, [TChar b]) else (Text XDbl nm, [TChar b])
  end.
(* "emit these characters, then reconsume in text state x" *)
Definition reconsume_text (pre : bytes) (x : tx) (nm : bytes) (b : byte) : tstate * list token :=
  let '(st, e) := step_text x nm b in (st, chars pre ++ e).

(* ---- tags (13.2.5.6-8, .32-40) ---- *)
Definition step_before_attr_name (t : tagacc) (b : byte) : tstate * list token :=
  if is_ws b then (BeforeAttrName t, [])
  else if Byte.eqb b x2f then (SelfClosingStart t, [])
  else if Byte.eqb b x3e then emit_tag t false
  else (AttrName t [lower b], []).          (* includes '=': unexpected-equals-sign-before-attribute-name *)
Definition step_after_attr_name (t : tagacc) (k : bytes) (b : byte) : tstate * list token :=
  if is_ws b then (AfterAttrName t k, [])
  else if Byte.eqb b x2f then (SelfClosingStart (push t k []), [])
  else if Byte.eqb b x3d then (BeforeAttrValue t k, [])
  else if Byte.eqb b x3e then emit_tag (push t k []) false
  else (AttrName (push t k []) [lower b], []).
Definition step_attr_name (t : tagacc) (k : bytes) (b : byte) : tstate * list token :=
  if is_ws b || Byte.eqb b x2f || Byte.eqb b x3e then step_after_attr_name t k b
  else if Byte.eqb b x3d then (BeforeAttrValue t k, [])
  else (AttrName t (k ++ [lower b]), []).
Definition step_before_attr_value (t : tagacc) (k : bytes) (b : byte) : tstate * list token :=
  if is_ws b then (BeforeAttrValue t k, [])
  else if Byte.eqb b x22 then (AttrValDQ t k [], [])
  else if Byte.eqb b x27 then (AttrValSQ t k [], [])
  else if Byte.eqb b x3e then emit_tag (push t k []) false       (* missing-attribute-value *)
  else (AttrValUQ t k [b], []).
Definition step_attr_val_uq (t : tagacc) (k v : bytes) (b : byte) : tstate * list token :=
  if is_ws b then (BeforeAttrName (push t k v), [])
  else if Byte.eqb b x3e then emit_tag (push t k v) false
  else (AttrValUQ t k (v ++ [b]), []).
Definition step_after_attr_val_q (t : tagacc) (b : byte) : tstate * list token :=
  if is_ws b then (BeforeAttrName t, [])
  else if Byte.eqb b x2f then (SelfClosingStart t, [])
  else if Byte.eqb b x3e then emit_tag t false
  else step_before_attr_name t b.           (* missing-whitespace-between-attributes: reconsume *)
Definition step_self_closing (t : tagacc) (b : byte) : tstate * list token :=
  if Byte.eqb b x3e then emit_tag t true else step_before_attr_name t b.
Definition step_tag_name (e : bool) (n : bytes) (b : byte) : tstate * list token :=
  if is_ws b then (BeforeAttrName (TA e n []), [])
  else if Byte.eqb b x2f then (SelfClosingStart (TA e n []), [])
  else if Byte.eqb b x3e then emit_tag (TA e n []) false
  else (TagName e (n ++ [lower b]), []).

(* ---- comments and DOCTYPE (13.2.5.41-45, .50-52, .53 ff.) ---- *)
Definition emit_comment (d : bytes) : tstate * list token := (Data, [TComment d]).
Definition step_bogus (d : bytes) (b : byte) : tstate * list token :=
  if Byte.eqb b x3e then emit_comment d else (BogusComment (d ++ [b]), []).
Definition step_comment (d : bytes) (b : byte) : tstate * list token :=
  if Byte.eqb b x2d then (CommentEndDash d, []) else (Comment (d ++ [b]), []).
Definition step_markup_decl (buf : bytes) (b : byte) : tstate * list token :=
  let nb := buf ++ [b] in
  if bytes_eqb nb (bs "--") then (CommentStart, [])
  else if bytes_eqb (map lower nb) (bs "doctype") then (Doctype [], [])
  else if has_prefix nb (bs "--") || has_prefix (map lower nb) (bs "doctype") then (MarkupDecl nb, [])
  else step_bogus buf b.                   (* buf holds no '>' : it is a proper prefix of "--" or "doctype" *)

Definition step (st : tstate) (b : byte) : tstate * list token :=
  match st with
  | Text x nm => step_text x nm b
  | TagOpen =>
      if Byte.eqb b x21 then (MarkupDecl [], [])
      else if Byte.eqb b x2f then (EndTagOpen, [])
      else if is_alpha b then (TagName false [lower b], [])
      else if Byte.eqb b x3f then (BogusComment [b], [])
      else reconsume_text [x3c] XData [] b
  | EndTagOpen =>
      if is_alpha b then (TagName true [lower b], [])
      else if Byte.eqb b x3e then (Data, [])                       (* missing-end-tag-name *)
      else (BogusComment [b], [])
  | TagName e n => step_tag_name e n b
  | BeforeAttrName t => step_before_attr_name t b
  | AttrName t k => step_attr_name t k b
  | AfterAttrName t k => step_after_attr_name t k b
  | BeforeAttrValue t k => step_before_attr_value t k b
  | AttrValDQ t k v => if Byte.eqb b x22 then (AfterAttrValQ (push t k v), []) else (AttrValDQ t k (v ++ [b]), [])
  | AttrValSQ t k v => if Byte.eqb b x27 then (AfterAttrValQ (push t k v), []) else (AttrValSQ t k (v ++ [b]), [])
  | AttrValUQ t k v => step_attr_val_uq t k v b
  | AfterAttrValQ t => step_after_attr_val_q t b
  | SelfClosingStart t => step_self_closing t b
  (* 13.2.5.9/12/15/23: '<' seen in RCDATA, RAWTEXT, script data, script data escaped *)
  | RawLt x nm =>
      if Byte.eqb b x2f then (RawEndOpen x nm, [])
      else match x with
           | XScript => if Byte.eqb b x21 then (ScriptEscStart nm, [TChar x3c; TChar x21]) else reconsume_text [x3c] x nm b
           | XEsc => if is_alpha b then (DblStart nm [lower b], [TChar x3c; TChar b]) else reconsume_text [x3c] x nm b
           | _ => reconsume_text [x3c] x nm b
           end
  | RawEndOpen x nm =>
      if is_alpha b then (RawEndName x nm [b], []) else reconsume_text [x3c; x2f] x nm b
  | RawEndName x nm buf =>
      if is_alpha b then (RawEndName x nm (buf ++ [b]), [])
      else if bytes_eqb (map lower buf) nm && is_ws b then (BeforeAttrName (TA true nm []), [])
      else if bytes_eqb (map lower buf) nm && Byte.eqb b x2f then (SelfClosingStart (TA true nm []), [])
      else if bytes_eqb (map lower buf) nm && Byte.eqb b x3e then (Data, [TEnd nm])
      else reconsume_text ([x3c; x2f] ++ buf) x nm b
  | ScriptEscStart nm =>
      if Byte.eqb b x2d then (ScriptEscStartDash nm, [TChar b]) else reconsume_text [] XScript nm b
  | ScriptEscStartDash nm =>
      if Byte.eqb b x2d then (Text XEscDashDash nm, [TChar b]) else reconsume_text [] XScript nm b
  | DblStart nm buf =>
      if is_ws b || Byte.eqb b x2f || Byte.eqb b x3e
      then (Text (if isn buf "script" then XDbl else XEsc) nm, [TChar b])
      else if is_alpha b then (DblStart nm (buf ++ [lower b]), [TChar b])
      else reconsume_text [] XEsc nm b
  | DblLt nm =>
      if Byte.eqb b x2f then (DblEnd nm [], [TChar b]) else reconsume_text [] XDbl nm b
  | DblEnd nm buf =>
      if is_ws b || Byte.eqb b x2f || Byte.eqb b x3e
      then (Text (if isn buf "script" then XEsc else XDbl) nm, [TChar b])
      else if is_alpha b then (DblEnd nm (buf ++ [lower b]), [TChar b])
      else reconsume_text [] XDbl nm b
  | MarkupDecl buf => step_markup_decl buf b
  | BogusComment d => step_bogus d b
  | CommentStart =>
      if Byte.eqb b x2d then (CommentStartDash, [])
      else if Byte.eqb b x3e then emit_comment []                   (* abrupt-closing-of-empty-comment  <!--> *)
      else step_comment [] b
  | CommentStartDash =>
      if Byte.eqb b x2d then (CommentEnd [], [])
      else if Byte.eqb b x3e then emit_comment []                   (* <!---> *)
      else step_comment [x2d] b
  | Comment d => step_comment d b
  | CommentEndDash d =>
      if Byte.eqb b x2d then (CommentEnd d, []) else step_comment (d ++ [x2d]) b
  | CommentEnd d =>
      if Byte.eqb b x3e then emit_comment d
      else if Byte.eqb b x21 then (CommentEndBang d, [])
      else if Byte.eqb b x2d then (CommentEnd (d ++ [x2d]), [])
      else step_comment (d ++ [x2d; x2d]) b
  | CommentEndBang d =>
      if Byte.eqb b x2d then (CommentEndDash (d ++ [x2d; x2d; x21]), [])
      else if Byte.eqb b x3e then emit_comment d                    (* incorrectly-closed-comment  --!> *)
      else step_comment (d ++ [x2d; x2d; x21]) b
  | Doctype d => if Byte.eqb b x3e then (Data, [TDoctype d]) else (Doctype (d ++ [b]), [])
  end.

Fixpoint run (st : tstate) (s : bytes) : tstate * list token :=
  match s with
  | [] => (st, [])
  | b :: r => let '(st1, e1) := step st b in let '(st2, e2) := run st1 r in (st2, e1 ++ e2)
  end.

(* end of input *)
Definition finish (st : tstate) : list token :=
  match st with
  | Text _ _ => []
  | TagOpen => [TChar x3c]
  | EndTagOpen => [TChar x3c; TChar x2f]
  | RawLt _ _ => [TChar x3c]
  | RawEndOpen _ _ => [TChar x3c; TChar x2f]
  | RawEndName _ _ buf => chars ([x3c; x2f] ++ buf)
  | MarkupDecl buf => [TComment buf]
  | BogusComment d => [TComment d]
  | CommentStart | CommentStartDash => [TComment []]
  | Comment d | CommentEndDash d | CommentEnd d | CommentEndBang d => [TComment d]
  | Doctype d => [TDoctype d]
  | _ => []                                  (* eof-in-tag: the tag is dropped; script sub-states: nothing pending *)
  end.

Definition tok (s : bytes) : list token := let '(st, ts) := run Data s in ts ++ finish st.

(* the text states a dynamic string can be placed in: the tokenizer is "between tokens" *)
Definition plain_text (x : tx) : bool :=
  match x with XData | XRcdata | XRawtext | XScript | XPlaintext => true | _ => false end.

(* the bytes that can move the tokenizer out of a text state or out of a quoted attribute value *)
Definition meta (b : byte) : bool := Byte.eqb b x3c || Byte.eqb b x3e || Byte.eqb b x22 || Byte.eqb b x27.
Definition inert (s : bytes) : bool := forallb (fun c => negb (meta c)) s.
(* exactly what a hole needs: no '<' for a text state, no double quote for a double-quoted attribute value *)
Definition no_lt (v : bytes) : bool := forallb (fun c => negb (Byte.eqb c x3c)) v.
Definition no_dq (v : bytes) : bool := forallb (fun c => negb (Byte.eqb c x22)) v.
Definition hole_safe (v : bytes) : bool := no_lt v && no_dq v.
