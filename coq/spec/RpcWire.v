(* C18 - specification of the bytes a writer may leave on a connection, as a conforming reader sees them.
   [delivered]: the payloads of the messages whose Write returned nil, in the order of the writes.
   [broken]: the underlying connection has returned an error from a Write (it is unusable from then on).
   The reader must get back exactly [delivered]; the bytes must end at a frame boundary, or - only on a
   broken connection - inside one frame.  A writer that gives up in the middle of a frame (because its
   context was cancelled, or for any other reason) while the connection stays usable violates this: what
   is written next is swallowed by the unfinished frame. *)
From Coq.Strings Require Import Byte String.
From Coq Require Import List Bool.
Import ListNotations.
From V Require Import lib.Bytes model.Rpc.

Fixpoint msgs_eqb (a b : list bytes) : bool :=
  match a, b with
  | [], [] => true
  | x :: a', y :: b' => bytes_eqb x y && msgs_eqb a' b'
  | _, _ => false
  end.

Definition wire_spec (delivered : list bytes) (broken : bool) (w : bytes) : bool :=
  let '(l, e) := read_stream w in
  msgs_eqb l delivered &&
  match e with EndEof => true | EndTrunc => broken | EndErr _ | EndFuel => false end.
