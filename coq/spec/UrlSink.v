(* Specification of property C04 END TO END: what the browser's URL parser receives for a dynamic href / action.
   The browser tokenizes the document (spec/HtmlTok.v), decodes the character references of the attribute value
   (spec/HtmlRefs.v, attribute mode, with the standard's full table spec/HtmlEntities.v and UTF-8) and hands the
   result to the URL parser (spec/Whatwg.v).  The property demands of that decoded value d, for the input s given
   to the sanitiser: d is the fixed failure URL, or d is s itself and s has no scheme or an allow-listed one.
   Written without reference to the model. *)
From Coq.Strings Require Import Byte String.
From Coq Require Import List NArith Bool.
Import ListNotations.
From V Require Import lib.Bytes spec.HtmlRefs spec.HtmlEntities spec.Whatwg.

(* attribute-value decoding as a browser does it *)
Definition decode_attr (v : bytes) : bytes := decode_refs html5_entities utf8_cp true v.

Definition failure_url : bytes := bs "about:invalid#TemplFailedSanitizationURL".

Definition rendered_ok (s d : bytes) : Prop := d = failure_url \/ (d = s /\ safe d).
Definition rendered_okb (s d : bytes) : bool := bytes_eqb d failure_url || (bytes_eqb d s && safeb d).

(* the value of attribute k in a list of (name, raw value) pairs as the tokenizer reports them; the first wins
   (the standard drops later duplicates) *)
Fixpoint attr_value (k : bytes) (l : list (bytes * bytes)) : option bytes :=
  match l with
  | [] => None
  | (n, v) :: r => if bytes_eqb n k then Some v else attr_value k r
  end.
