(* Specification of property C19 as the BROWSER experiences it, written without reference to the
   model of the handler: a history of what the browsers and the watcher do and see, in real-time
   order, and the obligation the property puts on it.

     BOpen c        browser c's event stream is open: it has read the response headers and the first
                    ping of  GET /_templ/reload/events  (so its handler is registered)
     BLeave c       browser c closes its stream itself (tab closed, navigation, reload)
     BBroadcast e   the watcher broadcasts reload e (the call of Send / SendSSE / the POST begins)
     BRecv c e      browser c reads event e off its stream
     BCut c         browser c's stream ends although c has not closed it (the server side ended it)

   "Every browser connected to the reload event stream when a reload is broadcast receives that
   event": a browser is connected from BOpen until it leaves BY ITSELF.  A stream the server side
   cuts does not discharge anything - the tab is still open, the event owed to it is simply lost.
   [owed] after a history is the list of (browser, event) pairs still outstanding; the property
   demands that it is empty once the system has been given time to settle. *)
From Coq Require Import List Arith Bool.
Import ListNotations.

Inductive bev :=
| BOpen (c : nat) | BLeave (c : nat) | BBroadcast (e : nat) | BRecv (c e : nat) | BCut (c : nat).

Record bstate := {
  present : list nat;            (* browsers whose stream is open and that have not left *)
  owed : list (nat * nat);       (* (browser, event): broadcast while the browser was present, not read yet *)
  cut : list nat                 (* browsers whose stream was ended by the server side *)
}.

Definition binit : bstate := {| present := []; owed := []; cut := [] |}.

Definition drop_pair (c e : nat) (l : list (nat * nat)) : list (nat * nat) :=
  filter (fun q => negb ((fst q =? c) && (snd q =? e))) l.

Definition bstep (b : bstate) (x : bev) : bstate :=
  match x with
  | BOpen c => {| present := c :: present b; owed := owed b; cut := cut b |}
  | BLeave c => {| present := filter (fun k => negb (k =? c)) (present b);
                   owed := filter (fun q => negb (fst q =? c)) (owed b); cut := cut b |}
  | BBroadcast e => {| present := present b; owed := owed b ++ map (fun c => (c, e)) (present b); cut := cut b |}
  | BRecv c e => {| present := present b; owed := drop_pair c e (owed b); cut := cut b |}
  | BCut c => {| present := present b; owed := owed b; cut := cut b ++ [c] |}
  end.

Definition brun (h : list bev) : bstate := fold_left bstep h binit.

(* the property on a settled history *)
Definition browsers_served (h : list bev) : Prop := owed (brun h) = [].
Definition browsers_servedb (h : list bev) : bool := match owed (brun h) with [] => true | _ => false end.
