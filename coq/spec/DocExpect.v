(* Specification: the tokens the template author wrote (for model/DocFrag.v trees and for attribute maps),
   and the well-formedness the templ parser guarantees of its output. *)
From Coq.Strings Require Import Byte String.
From Coq Require Import List NArith Bool.
Import ListNotations.
From V Require Import lib.Bytes spec.HtmlTok model.Escape model.StyleAttr model.DocFrag.
From V Require spec.JsLex.

(* attribute-name bytes: no whitespace, no / > = and no quote, < or & .
   (KNOWN LIMITATION, stated as this hypothesis: templ.RenderAttributes escapes spread-attribute KEYS but does
    not validate them, so a key such as  x onclick=alert(1)  adds an attribute; the property speaks of values.) *)
Definition name_byte (b : byte) : bool :=
  negb (is_ws b) && negb (Byte.eqb b x3e) && negb (Byte.eqb b x2f) && negb (Byte.eqb b x3d)
  && negb (Byte.eqb b x22) && negb (Byte.eqb b x27) && negb (Byte.eqb b x3c) && negb (Byte.eqb b x26).
Definition name_shaped (k : bytes) : bool := match k with [] => false | _ => forallb name_byte k end.
(* element names: a letter, then name bytes *)
Definition elem_name (n : bytes) : bool := match n with c :: r => is_alpha c && forallb name_byte r | [] => false end.

(* what the author of the map meant: (name, value) pairs in key order; boolean attributes have the empty value;
   the value is reported raw by the tokenizer, i.e. in escaped form (decode_refs gives the string back) *)
Definition expected_attr (kv : bytes * aval) : list (bytes * bytes) :=
  let '(k, v) := kv in
  match v with
  | VString s => [(map lower k, escape s)]
  | VStringPtr (Some s) => [(map lower k, escape s)]
  | VKVStringBool s true => [(map lower k, escape s)]
  | VBool true | VBoolPtr (Some true) | VKVBoolBool true true | VFuncBool true => [(map lower k, [])]
  | _ => []
  end.
Definition expected_attrs (m : list (bytes * aval)) : list (bytes * bytes) := flat_map expected_attr (sort_kv m).

Fixpoint expected_attr_t (a : attr) : list (bytes * bytes) :=
  match a with
  | AConst k v => [(map lower k, escape v)]
  | ADyn k s => [(map lower k, escape s)]
  | ABool k => [(map lower k, [])]
  | ABoolExpr k b => if b then [(map lower k, [])] else []
  | ASpread m => expected_attrs m
  | AStyle vs => [(bs "style", style_attr vs)]
  | ACond c th el => flat_map expected_attr_t (if c then th else el)
  end.

(* the author's tags, comments and doctype; every other byte is character data; each dynamic string is one run of
   character tokens holding its escaped form; control flow contributes the tokens of the branch taken *)
Fixpoint expected (t : tree) : list token :=
  match t with
  | TText v => chars v
  | TStr s => chars (escape s)
  | TElem n a ch => TStart (map lower n) (flat_map expected_attr_t a) false :: flat_map expected ch ++ [TEnd (map lower n)]
  | TVoid n a => [TStart (map lower n) (flat_map expected_attr_t a) false]
  | TCmt d => [TComment d]
  | TDoc d => [TDoctype (x20 :: d)]
  | TRaw n a v => TStart (map lower n) (flat_map expected_attr_t a) false :: chars v ++ [TEnd (map lower n)]
  | TScript a ps => TStart (bs "script") (flat_map expected_attr_t a) false :: chars (flat_map part_bytes ps) ++ [TEnd (bs "script")]
  | TIf c th el => flat_map expected (if c then th else el)
  | TFor its => flat_map (flat_map expected) its
  | TSwitch i cs => pick (flat_map expected) [] i cs
  | TCall body => flat_map expected body
  | TChildren body => flat_map expected body
  end.

(* ---------- well-formedness: what the templ parser guarantees, and what is the author's responsibility ---------- *)
Fixpoint wf_attr (a : attr) : bool :=
  match a with
  | AConst k _ | ADyn k _ | ABool k | ABoolExpr k _ => name_shaped k
  | ASpread m => forallb (fun kv => name_shaped (fst kv)) m
  | AStyle _ => true
  | ACond c th el => forallb wf_attr (if c then th else el)
  end.

(* comment bodies: not starting with > or -> and holding no --> or --!> (the templ parser ends a comment at the
   first -->; the other three are the standard's conditions for the comment to end where the author ended it) *)
Fixpoint no_cend (s : bytes) : bool :=
  match s with
  | [] => true
  | _ :: r => negb (has_prefix (bs "-->") s) && negb (has_prefix (bs "--!>") s) && no_cend r
  end.
Definition comment_ok (d : bytes) : bool :=
  negb (has_prefix [x3e] d) && negb (has_prefix [x2d; x3e] d) && no_cend d.

(* static content of a raw element: the author's responsibility - it must not hold  </name  (in any letter case);
   in a script it must not hold  <!  either, because after <!-- the standard reads a later </script> differently *)
Fixpoint no_close (nm : bytes) (s : bytes) : bool :=
  match s with
  | [] => true
  | _ :: r => negb (has_prefix (x3c :: x2f :: nm) (map lower s)) && no_close nm r
  end.
Fixpoint no_bang (s : bytes) : bool :=
  match s with
  | [] => true
  | _ :: r => negb (has_prefix [x3c; x21] s) && no_bang r
  end.
Definition raw_static_ok (x : tx) (nm v : bytes) : bool :=
  match x with
  | XRawtext => no_close nm v
  | XScript => no_close nm v && no_bang v
  | _ => false
  end.
(* a static script part that is followed by a dynamic part must not end inside a partial  <  </  or  </letters
   (the dynamic bytes would continue it): what is pending at its end *)
Inductive pnd := P0 | PLt | PEndOpen | PName (buf : bytes).
Definition adv (p : pnd) (b : byte) : pnd :=
  if Byte.eqb b x3c then PLt
  else match p with
       | P0 => P0
       | PLt => if Byte.eqb b x2f then PEndOpen else P0
       | PEndOpen => if is_alpha b then PName [b] else P0
       | PName buf => if is_alpha b then PName (buf ++ [b]) else P0
       end.
Definition settled (v : bytes) : bool := match fold_left adv v P0 with P0 => true | _ => false end.
(* script parts: static parts as above; a dynamic part holds bytes that are clean or cool in the sense of C03
   (spec/JsLex.v; proved of the JavaScript escaper and JSON encoder there) - in particular no < *)
Fixpoint parts_ok (ps : list spart) : bool :=
  match ps with
  | [] => true
  | PDyn d :: r => (JsLex.clean d || JsLex.cool d) && parts_ok r
  | PStatic v :: r => raw_static_ok XScript (bs "script") v && (match r with [] => true | _ => settled v end) && parts_ok r
  end.

Definition no_gt (d : bytes) : bool := forallb (fun c => negb (Byte.eqb c x3e)) d.

(* content of RCDATA / RAWTEXT / script parents written as ordinary elements: text and strings, possibly under
   control flow and calls *)
Fixpoint flat (t : tree) : bool :=
  match t with
  | TText v => no_lt v
  | TStr _ => true
  | TIf c th el => forallb flat (if c then th else el)
  | TFor its => forallb (forallb flat) its
  | TSwitch i cs => pick (forallb flat) true i cs
  | TCall body | TChildren body => forallb flat body
  | _ => false
  end.
(* static text holds no '<' (the templ parser ends a text node there); names are in the parser's classes;
   RCDATA / RAWTEXT / script elements hold text and string expressions only; <plaintext> cannot be closed;
   only the branch taken / the iterations run / the case chosen need to be well-formed *)
Fixpoint wf (t : tree) : bool :=
  match t with
  | TText v => no_lt v
  | TStr _ => true
  | TVoid n a => elem_name n && forallb wf_attr a && match text_kind (map lower n) with XData => true | _ => false end
  | TElem n a ch =>
      elem_name n && forallb wf_attr a &&
      match text_kind (map lower n) with
      | XData => forallb wf ch
      | XPlaintext => false
      | _ => forallb flat ch
      end
  | TCmt d => comment_ok d
  | TDoc d => no_gt d
  | TRaw n a v => elem_name n && forallb wf_attr a && raw_static_ok (text_kind (map lower n)) (map lower n) v
  | TScript a ps => forallb wf_attr a && parts_ok ps
  | TIf c th el => forallb wf (if c then th else el)
  | TFor its => forallb (forallb wf) its
  | TSwitch i cs => pick (forallb wf) true i cs
  | TCall body | TChildren body => forallb wf body
  end.
