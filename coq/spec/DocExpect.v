(* Specification: the tokens the template author wrote (for model/DocFrag.v trees and for attribute maps),
   and the well-formedness the templ parser guarantees of its output. *)
From Coq.Strings Require Import Byte String.
From Coq Require Import List NArith Bool.
Import ListNotations.
From V Require Import lib.Bytes spec.HtmlTok model.Escape model.StyleAttr model.DocFrag.

(* attribute-name bytes: no whitespace, no / > = and no quote, < or & .
   (KNOWN LIMITATION, stated as this hypothesis: templ.RenderAttributes escapes spread-attribute KEYS but does
    not validate them, so a key such as  x onclick=alert(1)  adds an attribute; the property speaks of values.) *)
Definition name_byte (b : byte) : bool :=
  negb (is_ws b) && negb (Byte.eqb b x3e) && negb (Byte.eqb b x2f) && negb (Byte.eqb b x3d)
  && negb (Byte.eqb b x22) && negb (Byte.eqb b x27) && negb (Byte.eqb b x3c) && negb (Byte.eqb b x26).
Definition name_shaped (k : bytes) : bool := match k with [] => false | _ => forallb name_byte k end.
(* element names: a letter, then name bytes *)
Definition elem_name (n : bytes) : bool := match n with c :: r => is_alpha c && forallb name_byte r | [] => false end.

(* what the author of the map meant: (name, value) pairs in key order; boolean attributes have the empty value;
   the value is reported raw by the tokenizer, i.e. in escaped form (decode_refs gives the string back) *)
Definition expected_attr (kv : bytes * aval) : list (bytes * bytes) :=
  let '(k, v) := kv in
  match v with
  | VString s => [(map lower k, escape s)]
  | VStringPtr (Some s) => [(map lower k, escape s)]
  | VKVStringBool s true => [(map lower k, escape s)]
  | VBool true | VBoolPtr (Some true) | VKVBoolBool true true | VFuncBool true => [(map lower k, [])]
  | _ => []
  end.
Definition expected_attrs (m : list (bytes * aval)) : list (bytes * bytes) := flat_map expected_attr (sort_kv m).

Definition expected_attr_t (a : attr) : list (bytes * bytes) :=
  match a with
  | AConst k v => [(map lower k, escape v)]
  | ADyn k s => [(map lower k, escape s)]
  | ABool k => [(map lower k, [])]
  | ABoolExpr k b => if b then [(map lower k, [])] else []
  | ASpread m => expected_attrs m
  | AStyle vs => [(bs "style", style_attr vs)]
  end.

(* the author's tags; every other byte is character data; each dynamic string is one run of character tokens
   holding its escaped form *)
Fixpoint expected (t : tree) : list token :=
  match t with
  | TText v => chars v
  | TStr s => chars (escape s)
  | TElem n a ch => TStart (map lower n) (flat_map expected_attr_t a) false :: flat_map expected ch ++ [TEnd (map lower n)]
  | TVoid n a => [TStart (map lower n) (flat_map expected_attr_t a) false]
  end.

Definition wf_attr (a : attr) : bool :=
  match a with
  | AConst k _ | ADyn k _ | ABool k | ABoolExpr k _ => name_shaped k
  | ASpread m => forallb (fun kv => name_shaped (fst kv)) m
  | AStyle _ => true
  end.
Definition flat (t : tree) : bool := match t with TText v => no_lt v | TStr _ => true | _ => false end.
(* static text holds no '<' (the templ parser ends a text node there); names are in the parser's classes;
   RCDATA / RAWTEXT / script elements hold text and string expressions only; <plaintext> cannot be closed *)
Fixpoint wf (t : tree) : bool :=
  match t with
  | TText v => no_lt v
  | TStr _ => true
  | TVoid n a => elem_name n && forallb wf_attr a && match text_kind (map lower n) with XData => true | _ => false end
  | TElem n a ch =>
      elem_name n && forallb wf_attr a &&
      match text_kind (map lower n) with
      | XData => forallb wf ch
      | XPlaintext => false
      | _ => forallb flat ch
      end
  end.
