(* Specification: character-reference decoding of text and attribute values
   (HTML Living Standard 13.2.5.72-80), as a separate pass over the raw bytes spec/HtmlTok.v reports.
   [decode_refs named encode_cp in_attr s]:
     named      the named-reference table: (name without '&', replacement bytes); the real table has
                2231 entries - the theorems assume only what they use of it (see proofs/EscapeProof.v)
     encode_cp  code point -> bytes (UTF-8); [utf8_cp] below is the concrete one
     in_attr    inside an attribute value a match not ending in ';' followed by '=' or an alphanumeric
                is left alone (13.2.5.73, "historical reasons")
   Numeric references: decimal and hexadecimal, optional ';', the replacement rules of 13.2.5.80
   (0, > 0x10FFFF, surrogates -> U+FFFD; 0x80-0x9F through the Windows-1252 table). *)
From Coq.Strings Require Import Byte String.
From Coq Require Import List NArith Bool.
Import ListNotations.
From V Require Import lib.Bytes.
Open Scope N_scope.

Fixpoint prefix_of (p s : bytes) : option bytes :=       (* Some rest if p is a prefix of s *)
  match p, s with
  | [], _ => Some s
  | a :: p', b :: s' => if Byte.eqb a b then prefix_of p' s' else None
  | _ :: _, [] => None
  end.

Definition is_dec (b : byte) : bool := (48 <=? bN b) && (bN b <=? 57).
Definition is_hex (b : byte) : bool :=
  is_dec b || ((65 <=? bN b) && (bN b <=? 70)) || ((97 <=? bN b) && (bN b <=? 102)).
Definition hex_val (b : byte) : N :=
  if is_dec b then bN b - 48 else if (97 <=? bN b) then bN b - 87 else bN b - 55.
Definition is_alnum (b : byte) : bool :=
  is_dec b || ((65 <=? bN b) && (bN b <=? 90)) || ((97 <=? bN b) && (bN b <=? 122)).

(* digits: value, number of digits, rest *)
Fixpoint take_dec (s : bytes) (acc : N) (n : nat) : N * nat * bytes :=
  match s with
  | b :: r => if is_dec b then take_dec r (acc * 10 + (bN b - 48)) (S n) else (acc, n, s)
  | [] => (acc, n, s)
  end.
Fixpoint take_hex (s : bytes) (acc : N) (n : nat) : N * nat * bytes :=
  match s with
  | b :: r => if is_hex b then take_hex r (acc * 16 + hex_val b) (S n) else (acc, n, s)
  | [] => (acc, n, s)
  end.

(* 13.2.5.80 numeric character reference end state *)
Definition c1_table : list (N * N) :=
  [(128,8364);(130,8218);(131,402);(132,8222);(133,8230);(134,8224);(135,8225);(136,710);(137,8240);
   (138,352);(139,8249);(140,338);(142,381);(145,8216);(146,8217);(147,8220);(148,8221);(149,8226);
   (150,8211);(151,8212);(152,732);(153,8482);(154,353);(155,8250);(156,339);(158,382);(159,376)].
Fixpoint lookupN (t : list (N * N)) (n : N) : option N :=
  match t with [] => None | (k, v) :: r => if k =? n then Some v else lookupN r n end.
Definition fix_cp (n : N) : N :=
  if n =? 0 then 65533
  else if 1114111 <? n then 65533
  else if (55296 <=? n) && (n <=? 57343) then 65533
  else match lookupN c1_table n with Some v => v | None => n end.

(* UTF-8 encoding of a scalar value *)
Definition utf8_cp (n : N) : bytes :=
  if n <? 128 then [Nb n]
  else if n <? 2048 then [Nb (192 + n / 64); Nb (128 + n mod 64)]
  else if n <? 65536 then [Nb (224 + n / 4096); Nb (128 + (n / 64) mod 64); Nb (128 + n mod 64)]
  else [Nb (240 + n / 262144); Nb (128 + (n / 4096) mod 64); Nb (128 + (n / 64) mod 64); Nb (128 + n mod 64)].

Definition ends_semi (nm : bytes) : bool :=
  match rev nm with c :: _ => Byte.eqb c x3b | [] => false end.
Definition next_eq_or_alnum (s : bytes) : bool :=
  match s with c :: _ => Byte.eqb c x3d || is_alnum c | [] => false end.

Section Refs.
Variable named : list (bytes * bytes).
Variable encode_cp : N -> bytes.
Variable in_attr : bool.

(* longest match over the table: (name, replacement, rest) *)
Fixpoint best (tbl : list (bytes * bytes)) (s : bytes) (acc : option (bytes * bytes * bytes))
  : option (bytes * bytes * bytes) :=
  match tbl with
  | [] => acc
  | (nm, v) :: r =>
      match prefix_of nm s with
      | Some rest =>
          match acc with
          | Some (nm0, _, _) => if Nat.ltb (length nm0) (length nm) then best r s (Some (nm, v, rest)) else best r s acc
          | None => best r s (Some (nm, v, rest))
          end
      | None => best r s acc
      end
  end.

Fixpoint decode_fuel (fuel : nat) (s : bytes) : bytes :=
  match fuel with
  | O => []
  | S f =>
      match s with
      | [] => []
      | b :: r =>
          if negb (Byte.eqb b x26) then b :: decode_fuel f r
          else match r with
               | [] => [x26]
               | c :: r1 =>
                   if Byte.eqb c x23 then
                     (* numeric: &#[xX]?digits;? *)
                     let '(hex, r2) := match r1 with
                                       | d :: r2' => if Byte.eqb d x78 || Byte.eqb d x58 then (true, r2') else (false, r1)
                                       | [] => (false, r1)
                                       end in
                     let '(cp, n, r3) := if hex then take_hex r2 0 0%nat else take_dec r2 0 0%nat in
                     match n with
                     | O => x26 :: decode_fuel f r                      (* absence of digits: literal *)
                     | S _ =>
                         let r4 := match r3 with e :: r' => if Byte.eqb e x3b then r' else r3 | [] => r3 end in
                         encode_cp (fix_cp cp) ++ decode_fuel f r4
                     end
                   else
                     match best named r None with
                     | Some (nm, v, rest) =>
                         if in_attr && negb (ends_semi nm) && next_eq_or_alnum rest
                         then x26 :: decode_fuel f r
                         else v ++ decode_fuel f rest
                     | None => x26 :: decode_fuel f r
                     end
               end
      end
  end.
Definition decode_refs (s : bytes) : bytes := decode_fuel (length s) s.
End Refs.

(* A small concrete table (every name the escaper emits and the common legacy forms); the harness can
   pass any other table to the extracted [decode_refs]. *)
Definition min_table : list (bytes * bytes) :=
  [(bs "amp;", [x26]); (bs "amp", [x26]); (bs "lt;", [x3c]); (bs "lt", [x3c]); (bs "gt;", [x3e]); (bs "gt", [x3e]);
   (bs "quot;", [x22]); (bs "quot", [x22]); (bs "apos;", [x27]); (bs "nbsp;", [xc2; xa0]); (bs "nbsp", [xc2; xa0])].
Definition decode_min (in_attr : bool) (s : bytes) : bytes := decode_refs min_table utf8_cp in_attr s.

(* every '&' of s begins one of the five references the escaper emits *)
Definition esc_refs : list bytes := [bs "amp;"; bs "lt;"; bs "gt;"; bs "#34;"; bs "#39;"].
Fixpoint amps_are_refs (s : bytes) : bool :=
  match s with
  | [] => true
  | b :: r => (if Byte.eqb b x26 then existsb (fun p => has_prefix p r) esc_refs else true) && amps_are_refs r
  end.

(* what a theorem may assume of a named-reference table: ';' occurs only as the last byte of a name,
   lookups are functional, and amp; lt; gt; are present with their values *)
Definition semi_last (nm : bytes) : Prop := forall a b, nm = a ++ x3b :: b -> b = [].
Record table_ok (named : list (bytes * bytes)) : Prop := {
  names_semi : forall nm v, In (nm, v) named -> semi_last nm;
  names_fun : forall nm v v', In (nm, v) named -> In (nm, v') named -> v = v';
  has_amp : In (bs "amp;", [x26]) named;
  has_lt : In (bs "lt;", [x3c]) named;
  has_gt : In (bs "gt;", [x3e]) named }.
(* and of a code-point encoder: it is right on ASCII *)
Definition encoder_ok (encode_cp : N -> bytes) : Prop :=
  forall n b, Byte.of_N n = Some b -> n < 128 -> encode_cp n = [b].
