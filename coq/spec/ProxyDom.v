(* Specification (DOM side of C20): "the same document with one reload script element appended to body".
   DOM: the document element is the first element child of the document; document.body is the first child
   of the html document element that is a body element.  Written independently of model/Proxy.v. *)
From Coq.Strings Require Import Byte String.
From Coq Require Import List NArith Bool.
Import ListNotations.
From V Require Import lib.Bytes lib.HNode.
Open Scope N_scope.

Definition is_element (n : node) : bool := kind_of n =? K_element.
Definition named (name : bytes) (n : node) : bool := is_element n && bytes_eqb (data_of n) name.

(* <script src="/_templ/reload/script.js" [nonce="..."]></script> *)
Definition reload_script_elem (nonce : option bytes) : node :=
  Node K_element (bs "script") []
       (([], bs "src", bs "/_templ/reload/script.js") ::
        match nonce with Some n => [([], bs "nonce", n)] | None => [] end) [].

Definition add_last_child (s : node) (x : node) : node :=
  match x with Node k d n a c => Node k d n a (c ++ [s]) end.

(* rewrite the first element of l that satisfies q; None if there is none or f refuses *)
Fixpoint map_first (q : node -> bool) (f : node -> option node) (l : list node) : option (list node) :=
  match l with
  | [] => None
  | x :: r => if q x then option_map (fun x' => x' :: r) (f x)
              else option_map (cons x) (map_first q f r)
  end.

Definition with_kids (x : node) (c : list node) : node :=
  match x with Node k d n a _ => Node k d n a c end.

Definition append_to_document_body (s : node) (doc : node) : option node :=
  if negb (kind_of doc =? K_document) then None
  else option_map (with_kids doc)
         (map_first is_element
            (fun h => if named (bs "html") h
                      then option_map (with_kids h)
                             (map_first (named (bs "body")) (fun b => Some (add_last_child s b)) (kids_of h))
                      else None)
            (kids_of doc)).

(* ------------------------------------------------------------------------------------------- *)
(* Well-formedness of a parsed document, evaluated by the harness on every html.Parse output:
   no element named body occurs before document.body in document order (a conforming HTML parser creates
   exactly one body element, as a child of html, and ignores nested <body> tags), or there is no body
   element at all (frameset documents). *)
Fixpoint no_match (p : node -> bool) (t : node) : bool :=
  match t with
  | Node k d n a c =>
      negb (p t) &&
      (fix go (l : list node) : bool := match l with [] => true | x :: r => no_match p x && go r end) c
  end.

(* some node of l satisfies q, and no node before the first such contains a p-match *)
Fixpoint clean_until (p q : node -> bool) (l : list node) : bool :=
  match l with
  | [] => false
  | x :: r => if q x then true else no_match p x && clean_until p q r
  end.

Fixpoint shaped_kids (l : list node) : bool :=
  match l with
  | [] => false
  | x :: r => if is_element x
              then named (bs "html") x && clean_until (named (bs "body")) (named (bs "body")) (kids_of x)
              else no_match (named (bs "body")) x && shaped_kids r
  end.

Definition doc_shaped (doc : node) : bool := (kind_of doc =? K_document) && shaped_kids (kids_of doc).
Definition doc_bodyless (doc : node) : bool := no_match (named (bs "body")) doc.
