(* Specification: which nonce a browser associates with the script-src directive of a serialized
   Content-Security-Policy (CSP Level 3, section 2.2.1 "parse a serialized CSP" and the source-list grammar of 2.3.1).

     serialized-policy = serialized-directive *( OWS ";" [ OWS serialized-directive ] )
     For each token returned by strictly splitting the header value on ";":
       1. strip leading and trailing ASCII whitespace;
       2. if the token is empty, or is not an ASCII string, continue;
       3. directive name = the code points up to the first ASCII whitespace, 4. ASCII-lowercased;
       5. if the policy already has a directive of that name, continue  (the FIRST directive of a name wins);
       6. directive value = the rest of the token split on ASCII whitespace.
     nonce-source  = "'nonce-" base64-value "'"          (ABNF literals are ASCII case-insensitive)
     base64-value  = 1*( ALPHA / DIGIT / "+" / "/" / "-" / "_" ) *2( "=" )

   Written independently of model/Proxy.v (it shares only lib/Bytes.v). *)
From Coq.Strings Require Import Byte String.
From Coq Require Import List NArith Bool.
Import ListNotations.
From V Require Import lib.Bytes.
Open Scope N_scope.

(* ASCII whitespace (WHATWG infra): TAB, LF, FF, CR, SPACE.  U+000B is not ASCII whitespace. *)
Definition csp_ws (b : byte) : bool :=
  Byte.eqb b x09 || Byte.eqb b x0a || Byte.eqb b x0c || Byte.eqb b x0d || Byte.eqb b x20.

Definition is_ascii (b : byte) : bool := bN b <? 128.

(* strictly split on one byte: n separators give n+1 tokens *)
Fixpoint strict_split (sep : byte) (s : bytes) (cur : bytes) : list bytes :=
  match s with
  | [] => [rev cur]
  | b :: r => if Byte.eqb b sep then rev cur :: strict_split sep r [] else strict_split sep r (b :: cur)
  end.

(* split on ASCII whitespace: maximal runs of non-whitespace *)
Definition push (cur : bytes) (acc : list bytes) : list bytes :=
  match cur with [] => acc | _ => rev cur :: acc end.
Fixpoint ws_split (s : bytes) (cur : bytes) (acc : list bytes) : list bytes :=
  match s with
  | [] => rev (push cur acc)
  | b :: r => if csp_ws b then ws_split r [] (push cur acc) else ws_split r (b :: cur) acc
  end.

(* a directive: lower-cased name and its value tokens; None for tokens step 2 drops *)
Definition directive_of (tok : bytes) : option (bytes * list bytes) :=
  if negb (forallb is_ascii tok) then None
  else match ws_split tok [] [] with
       | [] => None
       | name :: value => Some (map lower name, value)
       end.

(* the directive of the given name that takes effect: the first one (step 5 ignores later duplicates) *)
Fixpoint effective (name : bytes) (toks : list bytes) : option (list bytes) :=
  match toks with
  | [] => None
  | t :: r => match directive_of t with
              | Some (n, v) => if bytes_eqb n name then Some v else effective name r
              | None => effective name r
              end
  end.

Definition is_b64 (b : byte) : bool :=
  let n := bN b in
  ((65 <=? n) && (n <=? 90)) || ((97 <=? n) && (n <=? 122)) || ((48 <=? n) && (n <=? 57)) ||
  Byte.eqb b x2b || Byte.eqb b x2f || Byte.eqb b x2d || Byte.eqb b x5f.

(* 1*b64 *2"=" *)
Definition is_base64_value (v : bytes) : bool :=
  let body := drop_while is_b64 v in
  negb (match v with [] => true | b :: _ => negb (is_b64 b) end) &&
  (bytes_eqb body [] || bytes_eqb body [x3d] || bytes_eqb body [x3d; x3d]).

(* "'nonce-" value "'"  ->  value *)
Definition nonce_of_source (src : bytes) : option bytes :=
  if has_prefix (bs "'nonce-") (map lower (firstn 7 src)) then
    match rev (skipn 7 src) with
    | q :: rv => if Byte.eqb q x27 && is_base64_value (rev rv) then Some (rev rv) else None
    | [] => None
    end
  else None.

Fixpoint first_nonce_source (srcs : list bytes) : option bytes :=
  match srcs with
  | [] => None
  | s :: r => match nonce_of_source s with Some n => Some n | None => first_nonce_source r end
  end.

(* the nonce of the page's script-src directive, if it has one *)
Definition script_src_nonce (csp : bytes) : option bytes :=
  match effective (bs "script-src") (strict_split x3b csp []) with
  | None => None
  | Some srcs => first_nonce_source srcs
  end.

(* ------------------------------------------------------------------------------------------- *)
(* Regular policies: the decidable guard of the partial theorem.  A header value is regular when
   (1) it is a field value of visible ASCII, space and tab (RFC 9110 field-content without obs-text);
   (2) it has at most one script-src directive (the CSP grammar asks for distinct directive names);
   (3) every source expression of that directive either is a nonce-source spelled with the lower-case
       keyword, or does not resemble one: with at most one quote removed from each end it does not start,
       in any letter case, with "nonce-". *)
Definition http_ascii (b : byte) : bool := Byte.eqb b x09 || ((32 <=? bN b) && (bN b <=? 126)).

Definition is_script_src (tok : bytes) : bool :=
  match directive_of tok with Some (n, _) => bytes_eqb n (bs "script-src") | None => false end.

Definition unquote_l (s : bytes) : bytes :=
  match s with b :: r => if Byte.eqb b x27 then r else s | [] => [] end.
Definition unquote1 (s : bytes) : bytes := rev (unquote_l (rev (unquote_l s))).

Definition looks_like_nonce (s : bytes) : bool := has_prefix (bs "nonce-") (map lower (unquote1 s)).
Definition proper_nonce_source (s : bytes) : bool :=
  has_prefix (bs "'nonce-") s && match nonce_of_source s with Some _ => true | None => false end.
Definition regular_source (s : bytes) : bool := proper_nonce_source s || negb (looks_like_nonce s).

Definition csp_regular (csp : bytes) : bool :=
  let toks := strict_split x3b csp [] in
  forallb http_ascii csp &&
  Nat.leb (length (filter is_script_src toks)) 1 &&
  match effective (bs "script-src") toks with Some srcs => forallb regular_source srcs | None => true end.
