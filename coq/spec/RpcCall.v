(* C18 - specification of what one Call may return, judged on what an observer of the connection knows.
   Independent of the model (no import of model/Rpc.v): the facts are those of the observable history.

   "Every call returns exactly the response carrying its id, or its own cancellation" - and when the
   connection ends (the peer hangs up, the stream fails): a call whose response had been taken off the
   stream by the connection's read loop before the end must still return that response (or its own
   cancellation); only a call for which no response carrying its id was read before the end may report
   the end of the connection. *)
From Coq Require Import List Bool Arith.
Import ListNotations.

Inductive outcome :=
| OGot (id v : nat)   (* returned nil with the result of a response: the id and the value that response carried *)
| OCancelled          (* returned its context's error (from the wait or from stream.Write's look at the context) *)
| OWriteError         (* returned the error of a Write of the underlying connection *)
| OClosed             (* returned an error saying that the connection ended while it waited *)
| OOther.             (* returned anything else *)

Record call_facts := mkFacts {
  f_id : nat;                   (* the id of the call *)
  f_read : list (nat * nat);    (* (id, value) of the responses the read loop took off the stream, in order, up to the
                                   end of the stream *)
  f_cancelled : bool;           (* the call's context has been cancelled *)
  f_wfailed : bool;             (* a Write of the underlying connection has failed *)
  f_ended : bool                (* the stream has ended (stream.Read returned an error to the read loop) *)
}.

Definition carries (id : nat) (r : nat * nat) : bool := Nat.eqb (fst r) id.

Definition call_ok (f : call_facts) (o : outcome) : bool :=
  match o with
  | OGot id v => Nat.eqb id (f_id f) && existsb (fun r => Nat.eqb (fst r) id && Nat.eqb (snd r) v) (f_read f)
  | OCancelled => f_cancelled f
  | OWriteError => f_wfailed f
  | OClosed => f_ended f && negb (existsb (carries (f_id f)) (f_read f))
  | OOther => false
  end.
