(* Specification side of C08/C09 over the formatter AST (model/Fmt.v): what a format/parse round trip may change
   (erase_layout), the generator's inter-node space rule restated over this AST (gen_spaces) with the decidable guard
   under which it is preserved, and the nesting-depth guard (the model's fuel).  Definitions only. *)
From Coq.Strings Require Import Byte String.
From Coq Require Import List Arith NArith Bool Lia.
Import ListNotations.
From V Require Import lib.Bytes lib.Sexp model.Fmt.
Local Open Scope nat_scope.

(* ---------- erase_layout: forget everything the formatter is allowed to change ---------- *)
Section EL.
Variable E : node -> node.
Fixpoint elist (l : list node) : list node :=
  match l with [] => [] | c :: r => if is_ws c then elist r else E c :: elist r end.
Fixpoint ecases (l : list (bytes * list node)) : list (bytes * list node) :=
  match l with [] => [] | (cv, cb) :: r => (cv, elist cb) :: ecases r end.
End EL.

Fixpoint erase_node (n : node) : node :=
  let el := fix el (l : list node) : list node :=
    match l with [] => [] | c :: r => if is_ws c then el r else erase_node c :: el r end in
  let ec := fix ec (l : list (bytes * list node)) : list (bytes * list node) :=
    match l with [] => [] | (cv, cb) :: r => (cv, el cb) :: ec r end in
  match n with
  | NText v _ => NText v SpNone
  | NStr v _ => NStr v SpNone
  | NGoCode src _ _ => NGoCode src false SpNone
  | NElem name attrs _ ch _ _ => NElem name attrs false (el ch) false SpNone
  | NCall src ref ch => NCall src ref (el ch)
  | NIf v th elifs el' => NIf v (el th) (ec elifs) (el el')
  | NSwitch v cases => NSwitch v (ec cases)
  | NFor v b => NFor v (el b)
  | _ => n
  end.
Definition erase_fnode (n : fnode) : fnode := match n with FTempl sig ch => FTempl sig (elist erase_node ch) | _ => n end.
Definition erase_layout (f : file) : file := {| f_header := f_header f; f_pkg := f_pkg f; f_nodes := map erase_fnode (f_nodes f) |}.


(* ---------- nesting depth, and independence of write_node from spare fuel ---------- *)
Fixpoint ndepth (n : node) : nat :=
  let dl := fix dl (l : list node) : nat := match l with [] => 0 | c :: r => Nat.max (ndepth c) (dl r) end in
  let dc := fix dc (l : list (bytes * list node)) : nat := match l with [] => 0 | (_, cb) :: r => Nat.max (dl cb) (dc r) end in
  S (match n with
     | NElem _ _ _ ch _ _ => dl ch
     | NCall _ _ ch => dl ch
     | NIf _ th elifs el => Nat.max (dl th) (Nat.max (dc elifs) (dl el))
     | NSwitch _ cs => dc cs
     | NFor _ b => dl b
     | _ => 0 end).
Fixpoint dlist (l : list node) : nat := match l with [] => 0 | c :: r => Nat.max (ndepth c) (dlist r) end.
Fixpoint dcases (l : list (bytes * list node)) : nat := match l with [] => 0 | (_, cb) :: r => Nat.max (dlist cb) (dcases r) end.
(* decidable guard: no template nests deeper than the model's fuel *)
Definition shallow_fnode (n : fnode) : bool := match n with FTempl _ ch => dlist ch <=? 200 | _ => true end.
Definition shallow (f : file) : bool := forallb shallow_fnode (f_nodes f).


(* ---------- the generator's inter-node space rule, restated over the formatter AST ----------
   generator/generator.go writeNodes / isInlineOrText (model: Gen.write_node, Gen.inline_or_text, Gen.trail_of): after a
   node the generated code writes one space iff the node is a whitespace trailer whose TrailingSpace is not None and both
   the node and the node that follows it are inline-or-text.  if/switch/for count as inline there (unlike in the
   formatter's isBlockNode); {{ }} blocks carry no trailing space for the generator.  The follower of the last node of an
   if/switch/for body is the node that follows the if/switch/for itself; element, call and template children have none.
   White-space nodes are skipped (the generator strips them from element and template children; in bodies the parser
   never puts one after a trailer). *)
Definition g_inl (n : node) : bool :=
  match n with
  | NIf _ _ _ _ | NSwitch _ _ | NFor _ _ | NText _ _ | NStr _ _ => true
  | NElem name _ _ _ _ _ => negb (is_block_name name)
  | _ => false end.
Definition g_trail (n : node) : option trailing := match n with NText _ t | NElem _ _ _ _ _ t | NStr _ t => Some t | _ => None end.
Definition g_space (n : node) (nx : bool) : bool :=
  match g_trail n with Some SpHoriz | Some SpVert => g_inl n && nx | _ => false end.
Fixpoint next_inl (r : list node) (nxi : bool) : bool :=
  match r with [] => nxi | x :: r' => if is_ws x then next_inl r' nxi else g_inl x end.

(* the formatter moves the follower of c to its own line (writeNodes, indent mode) although c carries no trailing space,
   and the generator then sees an inline pair: the re-parsed c has TrailingSpace = Vertical and gains a space *)
Definition tight (indent : bool) (c : node) (r : list node) (nx : bool) : bool :=
  indent && ((match r with x :: _ => is_block_node x | [] => false end) || (match r with [] => true | _ => false end) || always_break c)
  && (match g_trail c with Some SpNone => true | _ => false end) && g_inl c && nx.

Section GS.
Variable GS : node -> bool -> list bool.
Variable OK : node -> bool -> bool.
Fixpoint gs_list (l : list node) (nxi : bool) : list bool :=
  match l with
  | [] => []
  | c :: r => if is_ws c then gs_list r nxi else g_space c (next_inl r nxi) :: GS c (next_inl r nxi) ++ gs_list r nxi
  end.
Fixpoint gs_cases (cs : list (bytes * list node)) (nxi : bool) : list bool :=
  match cs with [] => [] | (_, cb) :: r => gs_list cb nxi ++ gs_cases r nxi end.
Fixpoint ok_list (indent : bool) (l : list node) (nxi : bool) : bool :=
  match l with
  | [] => true
  | c :: r => if is_ws c then ok_list indent r nxi else negb (tight indent c r (next_inl r nxi)) && OK c (next_inl r nxi) && ok_list indent r nxi
  end.
Fixpoint ok_cases (cs : list (bytes * list node)) (nxi : bool) : bool :=
  match cs with [] => true | (_, cb) :: r => ok_list true cb nxi && ok_cases r nxi end.
End GS.

Fixpoint gs_node (n : node) (nxi : bool) {struct n} : list bool :=
  let gl := fix gl (l : list node) (nxi : bool) {struct l} : list bool :=
    match l with
    | [] => []
    | c :: r => if is_ws c then gl r nxi else g_space c (next_inl r nxi) :: gs_node c (next_inl r nxi) ++ gl r nxi
    end in
  let gc := fix gc (cs : list (bytes * list node)) (nxi : bool) {struct cs} : list bool :=
    match cs with [] => [] | (_, cb) :: r => gl cb nxi ++ gc r nxi end in
  match n with
  | NElem _ _ _ ch _ _ => gl ch false
  | NCall _ _ ch => gl ch false
  | NIf _ th elifs el => gl th nxi ++ gc elifs nxi ++ gl el nxi
  | NSwitch _ cs => gc cs nxi
  | NFor _ b => gl b nxi
  | _ => []
  end.
Fixpoint ok_node (n : node) (nxi : bool) {struct n} : bool :=
  let ol := fix ol (indent : bool) (l : list node) (nxi : bool) {struct l} : bool :=
    match l with
    | [] => true
    | c :: r => if is_ws c then ol indent r nxi else negb (tight indent c r (next_inl r nxi)) && ok_node c (next_inl r nxi) && ol indent r nxi
    end in
  let oc := fix oc (cs : list (bytes * list node)) (nxi : bool) {struct cs} : bool :=
    match cs with [] => true | (_, cb) :: r => ol true cb nxi && oc r nxi end in
  match n with
  | NElem _ _ _ ch ic _ => ol ic ch false
  | NCall _ _ ch => ol true ch false
  | NIf _ th elifs el => ol true th nxi && oc elifs nxi && ol true el nxi
  | NSwitch _ cs => oc cs nxi
  | NFor _ b => ol true b nxi
  | _ => true
  end.
(* the list of space decisions of a file, in document order (one entry per non-white-space node) *)
Definition gen_spaces (f : file) : list bool :=
  flat_map (fun n => match n with FTempl _ ch => gs_list gs_node ch false | _ => [] end) (f_nodes f).
(* decidable guard: no node without trailing space sits where the formatter forces a line break while the generator
   sees an inline neighbour ("tight block follower") *)
Definition trailing_semantics_preserved (f : file) : bool :=
  forallb (fun n => match n with FTempl _ ch => ok_list ok_node true ch false | _ => true end) (f_nodes f).

