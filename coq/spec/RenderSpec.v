(* C10 - specification vocabulary: what a render is supposed to produce, stated without buffers, pools or sinks.

   [denote] is the direct recursive meaning of a program of the generated-code shape: the bytes it is meant to
   hand to its writer, in order, up to the first failure of the program itself (an expression returning an error,
   a nested component returning an error, a cancelled context at a generated template's entry).
   [first_refusal] reads the record of what the destination writer answered: the first call on which it returned
   an error, or on which it took fewer bytes than it was offered without saying why on the path where the buffered
   writer does not offer the rest again (-> io.ErrShortWrite).
   [spec_ok] is the whole of C10 for one render, as a proposition; [spec_okb] the same as a boolean over
   canonically encoded errors, which is what the harness evaluates on the real implementation's observations. *)
From Coq.Strings Require Import Byte String.
From Coq Require Import List NArith Bool Arith.
Import ListNotations.
From V Require Import lib.Bytes.

(* error values a render can return *)
Inductive err :=
| ESink (n : N)          (* an error value returned by the destination writer *)
| EShortWrite            (* io.ErrShortWrite *)
| ESpin                  (* not an error value: "the call never returned" (see the io.Writer contract hypothesis) *)
| ECtx (n : N)           (* ctx.Err(): 1 = context.Canceled, 2 = context.DeadlineExceeded *)
| EExpr (n : N)          (* the error a Go expression returned *)
| EComp (n : N)          (* the error a hand-written component (or templ.Raw's errs) returned *)
| ETempl (file : bytes) (line col : N) (cause : err).   (* templ.Error{Err, FileName, Line, Col} *)

(* what a hand-written templ.ComponentFunc does with the writer it is given *)
Inductive fop :=
| FWrite (p : bytes)         (* _, err = w.Write(p); if err != nil { return err } *)
| FWriteString (s : bytes)   (* _, err = io.WriteString(w, s); if err != nil { return err } *)
| FFail (n : N).             (* return errN *)

(* conditions of the control-flow statements: a Go boolean expression (oracle id), or "the switch tag (oracle id)
   selects case k" *)
Inductive cond := CBool (id : N) | CCase (id : N) (k : nat).

(* what a hand-written component that is passed a block of children (`@component() { children }`, received through
   templ.GetChildren(ctx)) does with that block *)
Inductive hkind :=
| HPass                                        (* children.Render(ctx, w): into the writer the component itself was given *)
| HFwd (limit : option nat) (x : N) (own : bool)
      (* children.Render(ctx, fw): into a writer of the component's own whose Write hands the bytes on to w.Write (a tee,
         a byte counter, a hasher, a cache ...).  With limit = Some k that writer takes k bytes in all: the call that
         would go beyond takes what still fits and returns the writer's own error EComp x, as does every later call.
         own = true: when the children have returned, the component first looks at its own writer and returns that
         writer's error if it failed; own = false: it returns what the children returned *)
| HCapture.                                    (* children.Render(ctx, &buf) with a bytes.Buffer of its own; if that
                                                  returned nil, w.Write(buf.Bytes()) *)

(* programs of the shape the generator emits; a [list node] is a statement sequence in which every statement is
   followed by `if templ_7745c5c3_Err != nil { return ... }` *)
Inductive node :=
| Lit (s : bytes)                               (* templruntime.WriteString(buffer, i, "lit") *)
| Expr (id : N) (file : bytes) (line col : N)   (* v, err := JoinStringErrs(expr); err -> templ.Error{file,line,col}; buffer.WriteString(EscapeString(v)) *)
| Templ (guard : bool) (body : list node)       (* a generated template (guard = ctx.Err() check present) or a block closure (no check) *)
| Join (cs : list node)                         (* templ.Join(cs...) *)
| Flush (children : list node)                  (* @templ.Flush() { children } *)
| Raw (html : bytes) (e : option N)             (* templ.Raw(html, errs...) *)
| Func (ops : list fop)                         (* a hand-written templ.ComponentFunc *)
| Nop                                           (* templ.NopComponent *)
| If (c : cond) (thn els : list node)           (* if c { thn } else { els }; `else if` is an If as the only statement of els *)
| For (id : N) (body : list node)               (* for _, x := range expr { body }: the oracle gives the number of iterations,
                                                   every oracle is asked with the enclosing iteration indices *)
| Host (k : hkind) (times : nat) (children : list node).
                                                (* @c() { children } where c is a hand-written component that renders the block it
                                                   is passed `times` times (0: not at all), each time as [k] says; the block is a
                                                   closure of the generated-code shape (Templ false children) *)

(* derived statements *)
(* switch tag { case 0: c0; case 1: c1; ... default: d }: Go evaluates the tag once and takes the first matching case *)
Fixpoint switch_from (id : N) (k : nat) (cases : list (list node)) (default : list node) : list node :=
  match cases with
  | [] => default
  | c :: r => [If (CCase id k) c (switch_from id (S k) r default)]
  end.
Definition Switch (id : N) (cases : list (list node)) (default : list node) : node :=
  If (CCase id 0) (match cases with c :: _ => c | [] => default end)
     (match cases with _ :: r => switch_from id 1 r default | [] => default end).
(* a boolean attribute `name?={ b }` / a conditional attribute `if b { name="v" }`: the literal is written iff b *)
Definition CondLit (id : N) (s : bytes) : node := If (CBool id) [Lit s] [].

(* a prefix of *)
Definition prefix (a b : bytes) : Prop := exists t, b = a ++ t.
Fixpoint prefixb (a b : bytes) : bool :=
  match a, b with
  | [], _ => true
  | x :: a', y :: b' => Byte.eqb x y && prefixb a' b'
  | _ :: _, [] => false
  end.

Section Denote.
Variable esc : bytes -> bytes.                 (* templ.EscapeString *)
(* the environment: every oracle is asked with the indices of the enclosing loop iterations, innermost first *)
Variable env : list nat -> N -> bytes * option N.   (* what each string expression evaluates to: value and optional error *)
Variable benv : list nat -> N -> bool.              (* what each boolean expression evaluates to *)
Variable senv : list nat -> N -> nat.               (* which case each switch tag selects *)
Variable cnt : list nat -> N -> nat.                (* how many elements each ranged-over expression has *)
Variable cancel : option N.                         (* ctx.Err() at the start of the render *)

Notation dres := (bytes * option err)%type.

Section SeqD.
Variable A : Type.
Variable f : A -> dres.
Fixpoint seq_d (l : list A) : dres :=
  match l with
  | [] => ([], None)
  | x :: r => let '(d, e) := f x in
              match e with
              | Some _ => (d, e)
              | None => let '(d2, e2) := seq_d r in (d ++ d2, e2)
              end
  end.
End SeqD.

Definition denote_op (o : fop) : dres :=
  match o with
  | FWrite p => (p, None)
  | FWriteString s => (s, None)
  | FFail n => ([], Some (EComp n))
  end.

Definition holds (path : list nat) (c : cond) : bool :=
  match c with
  | CBool id => benv path id
  | CCase id k => Nat.eqb (senv path id) k
  end.

Fixpoint denote (n : node) (path : list nat) : dres :=
  match n with
  | Lit s => (s, None)
  | Expr id f l c => match env path id with
                     | (v, None) => (esc v, None)
                     | (_, Some x) => ([], Some (ETempl f l c (EExpr x)))
                     end
  | Templ g body => if g then match cancel with
                              | Some c => ([], Some (ECtx c))
                              | None => seq_d node (fun x => denote x path) body
                              end
                    else seq_d node (fun x => denote x path) body
  | Join cs => seq_d node (fun x => denote x path) cs
  | Flush ch => seq_d node (fun x => denote x path) ch
  | Raw h e => match e with Some x => ([], Some (EComp x)) | None => (h, None) end
  | Func ops => seq_d fop denote_op ops
  | Nop => ([], None)
  | If c thn els => if holds path c then seq_d node (fun x => denote x path) thn
                    else seq_d node (fun x => denote x path) els
  | For id body => seq_d nat (fun k => seq_d node (fun x => denote x (k :: path)) body) (seq 0 (cnt path id))
  | Host _ times ch =>                          (* whatever writer the component puts in between: the children, that many times *)
      seq_d nat (fun _ => seq_d node (fun x => denote x path) ch) (seq 0 times)
  end.
End Denote.

(* the error values of the writers that hand-written components of the program put between a block of children and
   the writer they were given: when such a writer fails, Render may return its error *)
Fixpoint host_errs (n : node) : list err :=
  match n with
  | Templ _ body => flat_map host_errs body
  | Join cs => flat_map host_errs cs
  | Flush ch => flat_map host_errs ch
  | If _ thn els => flat_map host_errs thn ++ flat_map host_errs els
  | For _ body => flat_map host_errs body
  | Host k _ ch => match k with HFwd (Some _) x _ => [EComp x] | _ => [] end ++ flat_map host_errs ch
  | _ => []
  end.

(* ---------- the record of what the destination writer answered ---------- *)
Inductive logent :=
| LCall (direct : bool) (offered accepted : nat) (e : option err)
      (* one Write/WriteString call on the destination.  direct = the buffered writer passed the caller's
         bytes straight through (large write, empty buffer) and will offer the unaccepted rest again;
         otherwise it was a flush of the buffer, where a short count is final *)
| LSpin.                                        (* the call never returned *)

Definition refusal (e : logent) : option err :=
  match e with
  | LSpin => Some ESpin
  | LCall _ _ _ (Some x) => Some x
  | LCall false off acc None => if Nat.ltb acc off then Some EShortWrite else None
  | LCall true _ _ None => None
  end.

Fixpoint first_refusal (l : list logent) : option err :=
  match l with
  | [] => None
  | e :: r => match refusal e with Some x => Some x | None => first_refusal r end
  end.

(* ---------- C10 for one render ---------- *)
(* d, de   : the document and the program's own first failure (from [denote])
   hs      : the errors of the limited writers of the program's hand-written components (from [host_errs]; [] when
             there is none, and the predicate then is exactly: the result is the first refusal or the program's failure)
   res     : what Render returned
   got     : the bytes the destination accepted during this render
   l       : the record of the destination's answers during this render *)
Definition spec_ok (d : bytes) (de : option err) (hs : list err) (res : option err) (got : bytes) (l : list logent) : Prop :=
  prefix got d /\
  (res = None -> got = d /\ de = None) /\
  (forall x, first_refusal l = Some x -> res = Some x \/ (res = de /\ de <> None) \/ (exists y, res = Some y /\ In y hs)) /\
  (first_refusal l = None -> res = de \/ (exists y, res = Some y /\ In y hs)).

(* canonical encoding of error values (what the harness computes from the real error with errors.Is / type
   assertion on templ.Error) *)
Fixpoint enc_err (e : err) : bytes :=
  match e with
  | ESink n => bs "sink:" ++ dec n
  | EShortWrite => bs "short"
  | ESpin => bs "spin"
  | ECtx n => bs "ctx:" ++ dec n
  | EExpr n => bs "expr:" ++ dec n
  | EComp n => bs "comp:" ++ dec n
  | ETempl f l c x => bs "templ:" ++ f ++ bs ":" ++ dec l ++ bs ":" ++ dec c ++ bs ":" ++ enc_err x
  end.
Definition enc_res (r : option err) : bytes := match r with None => bs "nil" | Some e => enc_err e end.

Definition is_some {A} (o : option A) : bool := match o with Some _ => true | None => false end.

(* the same predicate over encoded results: res is the implementation's canonicalised error *)
Definition res_in (res : bytes) (hs : list err) : bool := existsb (fun y => bytes_eqb res (enc_err y)) hs.
Definition spec_okb (d : bytes) (de : option err) (hs : list err) (res : bytes) (got : bytes) (l : list logent) : bool :=
  prefixb got d &&
  (if bytes_eqb res (bs "nil") then bytes_eqb got d && negb (is_some de) else true) &&
  match first_refusal l with
  | Some x => bytes_eqb res (enc_err x) || (bytes_eqb res (enc_res de) && is_some de) || res_in res hs
  | None => bytes_eqb res (enc_res de) || res_in res hs
  end.
