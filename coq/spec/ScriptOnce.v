(* C02: what the definitions of event-handler scripts in front of an element denote (templ.RenderScriptItems,
   scripttemplate.go): a render context keeps the names of the scripts it has written; RenderScriptItems(items) writes ONE
   <script> element holding the Function of every item whose Name the context has not seen yet (in order, each name once),
   and nothing when there is no such text.

   A document with pending definitions is a list of pieces: bytes, or the item list handed to one RenderScriptItems
   call.  [run] is the specification (registry threaded left to right through the document of one top-level render).
   The renderers of model/IrFrag.v produce bytes only, so a hoist is written in-band between marker bytes ([enc_piece])
   and [resolve] is the single left-to-right pass that replaces every marker group by what [run] says; the markers are
   control bytes 1..5 which the harness checks never occur in rendered documents or in the values of the environment.
   proofs/ScriptOnceProof.v: resolve (encoding) = run; every hoisted script is defined in the document no later than its
   hoist. *)
From Coq.Strings Require Import Byte String.
From Coq Require Import List Arith NArith Bool.
Import ListNotations.
From V Require Import lib.Bytes.

Notation sitem := (bytes * bytes)%type.            (* ComponentScript: Name, Function *)
Inductive piece := PBytes (s : bytes) | PHoist (l : list sitem).

Definition seen_name (n : bytes) (seen : list bytes) : bool := existsb (bytes_eqb n) seen.
(* the loop of RenderScriptItems: the function text of the unseen items, and the registry afterwards *)
Fixpoint fresh_fns (seen : list bytes) (l : list sitem) : bytes * list bytes :=
  match l with
  | [] => ([], seen)
  | (n, f) :: r =>
      if seen_name n seen then fresh_fns seen r
      else let '(o, s') := fresh_fns (n :: seen) r in (f ++ o, s')
  end.
Definition script_elem (fns : bytes) : bytes :=
  match fns with [] => [] | _ => bs "<script>" ++ fns ++ bs "</script>" end.
Fixpoint run (seen : list bytes) (ps : list piece) : bytes :=
  match ps with
  | [] => []
  | PBytes s :: r => s ++ run seen r
  | PHoist l :: r => let '(o, s') := fresh_fns seen l in script_elem o ++ run s' r
  end.
(* the registry after a document *)
Fixpoint seen_after (seen : list bytes) (ps : list piece) : list bytes :=
  match ps with
  | [] => seen
  | PBytes _ :: r => seen_after seen r
  | PHoist l :: r => seen_after (snd (fresh_fns seen l)) r
  end.
Definition items_of (ps : list piece) : list sitem :=
  flat_map (fun p => match p with PBytes _ => [] | PHoist l => l end) ps.

(* ---------- in-band encoding ---------- *)
Definition enc_item (i : sitem) : bytes := let '(n, f) := i in [x01] ++ n ++ [x02] ++ f ++ [x03].
Definition enc_hoist (l : list sitem) : bytes := [x04] ++ flat_map enc_item l ++ [x05].
Definition enc_piece (p : piece) : bytes := match p with PBytes s => s | PHoist l => enc_hoist l end.
Definition enc (ps : list piece) : bytes := flat_map enc_piece ps.

Inductive rmode :=
| MOut                                   (* document bytes *)
| MGroup                                 (* inside a hoist, between items *)
| MName (acc : bytes)                    (* reading a Name (reversed) *)
| MFn (n : bytes) (acc : bytes).         (* reading the Function of n (reversed) *)
(* pend: function text collected for the current group *)
Fixpoint resolve (s : bytes) (m : rmode) (seen : list bytes) (pend : bytes) {struct s} : bytes :=
  match s with
  | [] => []
  | b :: r =>
      match m with
      | MOut => if Byte.eqb b x04 then resolve r MGroup seen [] else b :: resolve r MOut seen pend
      | MGroup =>
          if Byte.eqb b x01 then resolve r (MName []) seen pend
          else if Byte.eqb b x05 then script_elem pend ++ resolve r MOut seen []
          else resolve r MGroup seen pend
      | MName acc => if Byte.eqb b x02 then resolve r (MFn (rev acc) []) seen pend else resolve r (MName (b :: acc)) seen pend
      | MFn n acc =>
          if Byte.eqb b x03 then
            (if seen_name n seen then resolve r MGroup seen pend else resolve r MGroup (n :: seen) (pend ++ rev acc))
          else resolve r (MFn n (b :: acc)) seen pend
      end
  end.
(* the same pass with an accumulator (what runs: documents of hundreds of kilobytes must not recurse on the stack);
   proofs/ScriptOnceProof.v: resolve_tr s m seen pend acc = rev acc ++ resolve s m seen pend *)
Fixpoint resolve_tr (s : bytes) (m : rmode) (seen : list bytes) (pend : bytes) (acc : bytes) {struct s} : bytes :=
  match s with
  | [] => rev_append acc []
  | b :: r =>
      match m with
      | MOut => if Byte.eqb b x04 then resolve_tr r MGroup seen [] acc else resolve_tr r MOut seen pend (b :: acc)
      | MGroup =>
          if Byte.eqb b x01 then resolve_tr r (MName []) seen pend acc
          else if Byte.eqb b x05 then resolve_tr r MOut seen [] (rev_append (script_elem pend) acc)
          else resolve_tr r MGroup seen pend acc
      | MName n => if Byte.eqb b x02 then resolve_tr r (MFn (rev n) []) seen pend acc else resolve_tr r (MName (b :: n)) seen pend acc
      | MFn n f =>
          if Byte.eqb b x03 then
            (if seen_name n seen then resolve_tr r MGroup seen pend acc else resolve_tr r MGroup (n :: seen) (pend ++ rev f) acc)
          else resolve_tr r (MFn n (b :: f)) seen pend acc
      end
  end.
Definition resolve_doc (s : bytes) : bytes := resolve_tr s MOut [] [] [].

(* side conditions of the encoding *)
Definition no_byte (c : byte) (s : bytes) : bool := forallb (fun b => negb (Byte.eqb b c)) s.
Definition item_ok (i : sitem) : bool := let '(n, f) := i in no_byte x02 n && no_byte x03 f.
Definition piece_ok (p : piece) : bool :=
  match p with PBytes s => no_byte x04 s | PHoist l => forallb item_ok l end.
