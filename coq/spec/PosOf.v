(* C06 specification: what a faithful source position / range is.
   Written independently of the model (no newline table, no search, no parser state):
   a position is determined by the byte index alone. *)
From Coq.Strings Require Import Byte String.
From Coq Require Import List Arith Bool Lia.
Import ListNotations.
From V Require Import lib.Bytes lib.SrcPos.
Local Open Scope nat_scope.

Definition is_lf (b : byte) : bool := Byte.eqb b x0a.

(* number of LF bytes in p *)
Definition count_lf (p : bytes) : nat := length (filter is_lf p).

(* the bytes of p up to its first LF *)
Fixpoint until_lf (p : bytes) : bytes :=
  match p with [] => [] | b :: r => if is_lf b then [] else b :: until_lf r end.

(* number of bytes after the last LF of p (all of p when it has none) = index - start of line *)
Definition col_of (p : bytes) : nat := length (until_lf (rev p)).

(* pos_of s i = (i, number of LF in s[..i], i - start of the line that holds byte i) *)
Definition pos_of (s : bytes) (i : nat) : position :=
  mkpos i (count_lf (firstn i s)) (col_of (firstn i s)).

(* range_ok src e: in bounds, ordered, line/column agree with the byte index at both ends,
   and the source at the range start begins with the recorded text. *)
Definition range_ok (src : bytes) (e : expression) : Prop :=
  p_index (e_from e) <= p_index (e_to e) /\
  p_index (e_to e) <= length src /\
  e_from e = pos_of src (p_index (e_from e)) /\
  e_to e = pos_of src (p_index (e_to e)) /\
  has_prefix (e_value e) (skipn (p_index (e_from e)) src) = true.

(* name_range_ok src name from to: the range is in bounds, position-consistent and covers EXACTLY the name *)
Definition name_range_ok (src name : bytes) (from to : position) : Prop :=
  p_index to <= length src /\
  p_index to = p_index from + length name /\
  from = pos_of src (p_index from) /\
  to = pos_of src (p_index to) /\
  firstn (length name) (skipn (p_index from) src) = name.

(* a plain range (template / text node extents): in bounds, ordered, position-consistent *)
Definition plain_range_ok (src : bytes) (from to : position) : Prop :=
  p_index from <= p_index to /\ p_index to <= length src /\
  from = pos_of src (p_index from) /\ to = pos_of src (p_index to).

(* ---- decidable versions (these are what is extracted and run on the real parser's trees) ---- *)
Definition pos_eqb (a b : position) : bool :=
  (p_index a =? p_index b) && (p_line a =? p_line b) && (p_col a =? p_col b).

Definition range_okb (src : bytes) (e : expression) : bool :=
  (p_index (e_from e) <=? p_index (e_to e)) &&
  (p_index (e_to e) <=? length src) &&
  pos_eqb (e_from e) (pos_of src (p_index (e_from e))) &&
  pos_eqb (e_to e) (pos_of src (p_index (e_to e))) &&
  has_prefix (e_value e) (skipn (p_index (e_from e)) src).

Definition name_range_okb (src name : bytes) (from to : position) : bool :=
  (p_index to <=? length src) &&
  (p_index to =? p_index from + length name) &&
  pos_eqb from (pos_of src (p_index from)) &&
  pos_eqb to (pos_of src (p_index to)) &&
  bytes_eqb (firstn (length name) (skipn (p_index from) src)) name.

Definition plain_range_okb (src : bytes) (from to : position) : bool :=
  (p_index from <=? p_index to) && (p_index to <=? length src) &&
  pos_eqb from (pos_of src (p_index from)) && pos_eqb to (pos_of src (p_index to)).

(* ---- one-pass evaluation of the same predicates (what the harness actually runs; proved equal to the
        definitions above in proofs/ParseInputProof.v: fast_checks_equal) ---- *)
Fixpoint pos_scan (i l c : nat) (s : bytes) : list position :=
  mkpos i l c ::
  match s with
  | [] => []
  | b :: r => if is_lf b then pos_scan (S i) (S l) 0 r else pos_scan (S i) l (S c) r
  end.
(* the positions of the indices 0 .. length s *)
Definition pos_table (s : bytes) : list position := pos_scan 0 0 0 s.
Definition pos_at_tbl (tbl : list position) (i : nat) : position := nth i tbl (mkpos 0 0 0).

Definition range_okb_tbl (tbl : list position) (n : nat) (src : bytes) (e : expression) : bool :=
  (p_index (e_from e) <=? p_index (e_to e)) &&
  (p_index (e_to e) <=? n) &&
  pos_eqb (e_from e) (pos_at_tbl tbl (p_index (e_from e))) &&
  pos_eqb (e_to e) (pos_at_tbl tbl (p_index (e_to e))) &&
  has_prefix (e_value e) (skipn (p_index (e_from e)) src).

Definition name_range_okb_tbl (tbl : list position) (n : nat) (src name : bytes) (from to : position) : bool :=
  (p_index to <=? n) &&
  (p_index to =? p_index from + length name) &&
  pos_eqb from (pos_at_tbl tbl (p_index from)) &&
  pos_eqb to (pos_at_tbl tbl (p_index to)) &&
  bytes_eqb (firstn (length name) (skipn (p_index from) src)) name.

Definition plain_range_okb_tbl (tbl : list position) (n : nat) (from to : position) : bool :=
  (p_index from <=? p_index to) && (p_index to <=? n) &&
  pos_eqb from (pos_at_tbl tbl (p_index from)) && pos_eqb to (pos_at_tbl tbl (p_index to)).

(* ---- saturation (how numbers of the real parser reach the extracted predicates) ----
   The recorded Line / Col are uint32 and Index is int64; a wrapped-around column (4294967295) cannot be handed to the
   unary numbers of the extracted code.  Every component above length src is therefore replaced by length src + 1 before
   the predicates run; proofs/ParseInputProof.v (saturated_checks_equal) shows that this never changes their value:
   a faithful position of an index <= length src has line and column <= length src as well. *)
Definition sat_pos (n : nat) (p : position) : position :=
  mkpos (Nat.min (p_index p) (S n)) (Nat.min (p_line p) (S n)) (Nat.min (p_col p) (S n)).
