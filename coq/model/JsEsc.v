(* MODEL side of C03: executable Gallina mirror of the Go code that places values into JavaScript.
   Definitions only (no proofs).  The two replacement tables are NOT written here: they come from
   gen/Tables03.v, which the translator regenerates from the live code on every build. *)
From Coq.Strings Require Import Byte String.
From Coq Require Import List NArith Bool.
Import ListNotations.
From V Require Import lib.Bytes lib.Utf8 gen.Tables03.
Open Scope N_scope.

(* ------------------------------------------------------------------------------------------ *)
(* runtime/scriptelement.go: replace                                                           *)

Definition u2028_esc : bytes := [x5c; x75; x32; x30; x32; x38].   (* the six ASCII bytes  \ u 2 0 2 8 *)
Definition u2029_esc : bytes := [x5c; x75; x32; x30; x32; x39].

(* t[r] when int(r) < len(t) *)
Definition tab_get (t : list bytes) (r : N) : option bytes :=
  if r <? N.of_nat (length t) then Some (nth (N.to_nat r) t []) else None.

(* the switch in replace's loop body: Some repl, or None for `default: continue` *)
Definition repl_with (low js : list bytes) (r : N) : option bytes :=
  match tab_get low r with
  | Some x => Some x                                   (* case int(r) < len(lowUnicodeReplacementTable) *)
  | None =>
      match tab_get js r with
      | Some (y :: x) => Some (y :: x)                 (* case int(r) < len(replacementTable) && replacementTable[r] != "" *)
      | _ => if r =? 8232 then Some u2028_esc          (* case r == U+2028 *)
             else if r =? 8233 then Some u2029_esc     (* case r == U+2029 *)
             else None
      end
  end.
Definition repl : N -> option bytes := repl_with low_unicode_replacement_table js_str_replacement_table.

(* for i := 0; i < len(s); i += w { r, w = utf8.DecodeRuneInString(s[i:]); ... }
   unreplaced runes are copied as the bytes they occupied (invalid bytes included) *)
Fixpoint replace_fuel (fuel : nat) (s : bytes) : bytes :=
  match fuel with
  | O => []
  | S f =>
      match s with
      | [] => []
      | _ => let '(r, w) := decode_rune s in
             match repl r with
             | Some x => x ++ replace_fuel f (skipn w s)
             | None => firstn w s ++ replace_fuel f (skipn w s)
             end
      end
  end.
Definition replace (s : bytes) : bytes := replace_fuel (length s) s.

(* ------------------------------------------------------------------------------------------ *)
(* encoding/json (Go 1.23), escapeHTML = true: appendString                                    *)

Definition hex1 (n : N) : byte := Nb (if n <? 10 then 48 + n else 87 + n).
Definition u00 (n : N) : bytes := [x5c; x75; x30; x30; hex1 (n / 16); hex1 (n mod 16)].
Definition ufffd_esc : bytes := [x5c; x75; x66; x66; x66; x64].

Definition json_rune (r : N) (w : nat) (raw : bytes) : bytes :=
  if r <? 128 then
    if r =? 92 then [x5c; x5c] else if r =? 34 then [x5c; x22]
    else if r =? 8 then [x5c; x62] else if r =? 12 then [x5c; x66] else if r =? 10 then [x5c; x6e]
    else if r =? 13 then [x5c; x72] else if r =? 9 then [x5c; x74]
    else if (r <? 32) || (r =? 60) || (r =? 62) || (r =? 38) then u00 r
    else raw
  else if (r =? RuneError) && Nat.eqb w 1 then ufffd_esc
  else if r =? 8232 then u2028_esc
  else if r =? 8233 then u2029_esc
  else raw.

Fixpoint json_fuel (fuel : nat) (s : bytes) : bytes :=
  match fuel with
  | O => []
  | S f =>
      match s with
      | [] => []
      | _ => let '(r, w) := decode_rune s in json_rune r w (firstn w s) ++ json_fuel f (skipn w s)
      end
  end.
Definition json_body (s : bytes) : bytes := json_fuel (length s) s.
Definition json_string (s : bytes) : bytes := [x22] ++ json_body s ++ [x22].

(* Go values as json.Marshal sees them.  JNum carries the number token as strconv produced it
   (an oracle: the harness checks the token's alphabet); JObj carries the members in the order
   json.Marshal emits them (struct field order; map keys sorted bytewise). *)
Inductive jv :=
| JNull | JBool (b : bool) | JNum (tok : bytes) | JStr (s : bytes)
| JArr (l : list jv) | JObj (l : list (bytes * jv)).

Fixpoint json_encode (v : jv) : bytes :=
  match v with
  | JNull => [x6e; x75; x6c; x6c]
  | JBool true => [x74; x72; x75; x65]
  | JBool false => [x66; x61; x6c; x73; x65]
  | JNum t => t
  | JStr s => json_string s
  | JArr l =>
      [x5b] ++
      (fix go (l : list jv) : bytes :=
         match l with
         | [] => []
         | x :: r => json_encode x ++ match r with [] => [] | _ => x2c :: go r end
         end) l ++ [x5d]
  | JObj l =>
      [x7b] ++
      (fix go (l : list (bytes * jv)) : bytes :=
         match l with
         | [] => []
         | (k, x) :: r => json_string k ++ [x3a] ++ json_encode x ++ match r with [] => [] | _ => x2c :: go r end
         end) l ++ [x7d]
  end.

(* json.NewEncoder(w).Encode(v): the Marshal bytes and a newline *)
Definition json_encoder_encode (v : jv) : bytes := json_encode v ++ [x0a].

(* ------------------------------------------------------------------------------------------ *)
(* runtime/scriptelement.go: scriptContent                                                     *)

(* ScriptContentInsideStringLiteral: a value of type string takes the fast path, everything else is marshalled first *)
Definition script_content_inside (v : jv) : bytes :=
  match v with
  | JStr s => replace s
  | _ => replace (json_encode v)
  end.
(* a value whose dynamic type is not exactly `string` (named string types included) *)
Definition script_content_inside_marshalled (v : jv) : bytes := replace (json_encode v).
(* ScriptContentOutsideStringLiteral *)
Definition script_content_outside (v : jv) : bytes := json_encode v.

(* scriptContent[T any](v T, insideStringLiteral bool) for an ARBITRARY Go type T.  All the function looks at is
   (1) any(v).(string) - is the dynamic type exactly `string` - and (2) what json.Marshal(v) returns: the bytes, or an
   error.  Which bytes those are is encoding/json's business (MarshalJSON / MarshalText methods of named scalar types,
   struct tags, json.RawMessage, time.Time ...): nothing else about the type - not its reflect.Kind - plays a part.
     as_string v = Some s   the dynamic type of v is string, with value s
     marshal v   = None     json.Marshal fails (the error is returned, nothing is emitted)                           *)
Section AnyGoType.
  Variable GoValue : Type.
  Variable as_string : GoValue -> option bytes.
  Variable marshal : GoValue -> option bytes.
  Definition script_content_any (inside : bool) (v : GoValue) : option bytes :=
    match (if inside then as_string v else None) with
    | Some s => Some (replace s)
    | None =>
        match marshal v with
        | None => None
        | Some jd => Some (if inside then replace jd else jd)
        end
    end.
End AnyGoType.

(* ------------------------------------------------------------------------------------------ *)
(* html.EscapeString (= templ.EscapeString)                                                    *)
Definition html_escape_byte (b : byte) : bytes :=
  if Byte.eqb b x26 then [x26; x61; x6d; x70; x3b]              (* &amp; *)
  else if Byte.eqb b x27 then [x26; x23; x33; x39; x3b]         (* &#39; *)
  else if Byte.eqb b x3c then [x26; x6c; x74; x3b]              (* &lt; *)
  else if Byte.eqb b x3e then [x26; x67; x74; x3b]              (* &gt; *)
  else if Byte.eqb b x22 then [x26; x23; x33; x34; x3b]         (* &#34; *)
  else [b].
Definition html_escape (s : bytes) : bytes := flat_map html_escape_byte s.

(* ------------------------------------------------------------------------------------------ *)
(* scripttemplate.go: jsFunctionName = ^([$_a-zA-Z][$_a-zA-Z0-9]+\.?)+$   (Go: $ is end of text) *)
Definition name_start (b : byte) : bool :=
  let n := bN b in
  ((97 <=? n) && (n <=? 122)) || ((65 <=? n) && (n <=? 90)) || (n =? 36) || (n =? 95).
Definition name_body (b : byte) : bool := name_start b || ((48 <=? bN b) && (bN b <=? 57)).

(* st: 0 = at the start of a group (nothing matched yet: end of text rejects)
       1 = one character of a group read (a body character must follow)
       2 = at least two characters of a group read
       3 = just after a '.'  (end of text accepts; otherwise like 0) *)
Fixpoint fn_go (st : N) (s : bytes) : bool :=
  match s with
  | [] => (st =? 2) || (st =? 3)
  | c :: r =>
      if (st =? 0) || (st =? 3) then (if name_start c then fn_go 1 r else false)
      else if st =? 1 then (if name_body c then fn_go 2 r else false)
      else if name_body c then fn_go 2 r
      else if Byte.eqb c x2e then fn_go 3 r
      else false
  end.
Definition fn_name_ok (s : bytes) : bool := fn_go 0 s.

Definition invalid_fn_name : bytes :=
  bs "__templ_invalid_js_function_name".

(* scripttemplate.go: jsonEncodeParam - a templ.JSExpression is passed through (trusted by type), anything else marshalled *)
Inductive param := PExpr (js : bytes) | PVal (v : jv).
Definition json_encode_param (p : param) : bytes :=
  match p with PExpr js => js | PVal v => json_encode v end.

Fixpoint join_comma (l : list bytes) : bytes :=
  match l with
  | [] => []
  | x :: r => x ++ match r with [] => [] | _ => x2c :: join_comma r end
  end.

Definition checked_name (name : bytes) : bytes := if fn_name_ok name then name else invalid_fn_name.

(* SafeScript: for HTML attributes *)
Definition safe_script (name : bytes) (ps : list param) : bytes :=
  html_escape (checked_name name) ++ [x28] ++
  join_comma (map (fun p => html_escape (json_encode_param p)) ps) ++ [x29].
(* SafeScriptInline: for script elements *)
Definition safe_script_inline (name : bytes) (ps : list param) : bytes :=
  checked_name name ++ [x28] ++ join_comma (map json_encode_param ps) ++ [x29].

(* ------------------------------------------------------------------------------------------ *)
(* jsonscript.go: JSONScriptElement.Render *)
Definition attr_if (name v : bytes) : bytes :=
  match v with [] => [] | _ => [x20] ++ name ++ [x3d; x22] ++ html_escape v ++ [x22] end.
Definition json_script (id type nonce : bytes) (v : jv) : bytes :=
  bs "<script" ++ attr_if (bs "id") id ++ attr_if (bs "type") type ++ attr_if (bs "nonce") nonce ++ [x3e] ++
  json_encoder_encode v ++ bs "</script>".
