(* C16 - strconv.IsPrint as dumped from the Go toolchain the harness is built with (gen/Tables16.v), and the
   codec instantiated with it.  Definitions only. *)
From Coq.Strings Require Import Byte String.
From Coq Require Import List NArith Bool.
Import ListNotations.
From V Require Import lib.Bytes model.Quote gen.Tables16.
Open Scope N_scope.

Definition in_range (r : N) (p : N * N) : bool := (fst p <=? r) && (r <=? snd p).
(* group index = rune / 4096; a rune beyond the table is not printable *)
Definition go_is_print (r : N) : bool := existsb (in_range r) (nth (N.to_nat (r / 4096)) go_is_print_buckets []).

Definition go_quote (s : bytes) : bytes := quote go_is_print s.
