(* Why a layout is not a fixed point of the formatter: compares a tree with the tree the parser rebuilds from the
   printed text (Fmt.reparse) and names the first cause per element.  The names are the shape keys of C09's findings. *)
From Coq.Strings Require Import Byte String.
From Coq Require Import List Arith NArith Bool.
Import ListNotations.
From V Require Import lib.Bytes lib.Sexp model.Fmt.
Local Open Scope nat_scope.

Definition flag_eqb (a b : bool) : bool := Bool.eqb a b.
Definition trail_eqb (a b : trailing) : bool :=
  match a, b with SpNone, SpNone | SpHoriz, SpHoriz | SpVert, SpVert => true | _, _ => false end.

Definition attr_is_cond (a : attr) : bool := match a with ACond _ _ _ => true | _ => false end.
Definition attr_multiline_expr (a : attr) : bool := match a with AExpr _ (_ :: _ :: _) => true | _ => false end.
Definition non_trailer (n : node) : bool :=
  negb (is_ws n) && match trail_of n with None => true | _ => false end.

(* reasons for ONE node whose reparse is n' (same constructor) *)
Definition node_reasons (n n' : node) : list string :=
  match n, n' with
  | NElem _ attrs ia ch ic t, NElem _ _ ia' ch' ic' t' =>
      (if flag_eqb ia ia' then [] else
         if existsb attr_is_cond attrs then ["CondAttrInline"%string]
         else if existsb attr_multiline_expr attrs then ["MultiLineExprAttrInline"%string]
         else ["IndentAttrsFlag"%string])
      ++ (if flag_eqb ic ic' then [] else
            if existsb non_trailer ch then ["NonTrailerChildInline"%string]
            else if has_nl (flat_map (fun c => write_node 200 0 c) ch) then ["MultiLineChildInline"%string]
            else if existsb (fun c => negb (is_ws c) && match trail_of c with Some SpVert => true | _ => false end) ch then ["VerticalSpaceChildInline"%string]
            else ["IndentChildrenFlag"%string])
  | NGoCode _ m _, NGoCode _ m' _ => if flag_eqb m m' then [] else ["GoCodeMultilineFlag"%string]
  | _, _ => []
  end.
Definition trail_reason (n n' : node) : list string :=
  match trail_of n, trail_of n' with
  | Some a, Some b => if trail_eqb a b then [] else ["TrailingSpaceRewritten"%string]
  | _, _ => []
  end.

Fixpoint reasons_node (fuel : nat) (n n' : node) {struct fuel} : list string :=
  match fuel with O => [] | S f =>
  let lists := fix rl (a b : list node) : list string :=
    match a, b with
    | x :: a', y :: b' => reasons_node f x y ++ rl a' b'
    | _, _ => [] end in
  let nows := filter (fun c => negb (is_ws c)) in
  node_reasons n n' ++
  match n, n' with
  | NElem _ _ _ ch _ _, NElem _ _ _ ch' _ _ => lists (nows ch) ch'
  | NIf _ th elifs el, NIf _ th' elifs' el' =>
      lists (nows th) th' ++ (fix re (a b : list (bytes * list node)) : list string :=
                                match a, b with (_, x) :: a', (_, y) :: b' => lists (nows x) y ++ re a' b' | _, _ => [] end) elifs elifs'
      ++ lists (nows el) el'
  | NSwitch _ cs, NSwitch _ cs' =>
      (fix re (a b : list (bytes * list node)) : list string :=
         match a, b with (_, x) :: a', (_, y) :: b' => lists (nows x) y ++ re a' b' | _, _ => [] end) cs cs'
  | NFor _ b, NFor _ b' => lists (nows b) b'
  | NCall _ _ ch, NCall _ _ ch' => lists (nows ch) ch'
  | _, _ => []
  end end.

Definition fnode_reasons (n n' : fnode) : list string :=
  match n, n' with
  | FTempl _ ch, FTempl _ ch' =>
      (fix rl (a b : list node) : list string :=
         match a, b with x :: a', y :: b' => reasons_node 200 x y ++ rl a' b' | _, _ => [] end)
        (filter (fun c => negb (is_ws c)) ch) ch'
  | _, _ => []
  end.

Fixpoint dedup (l : list string) : list string :=
  match l with
  | [] => []
  | x :: r => if existsb (String.eqb x) r then dedup r else x :: dedup r
  end.

(* ---------- trailing space: a stored trailing-space mark that the next Write overrides ----------
   Walks a tree the way writeNodes does.  In indent mode (block = true) writeNodes replaces the stored trailing space of a
   node by a line break when the node is last, is followed by a block node, or is br/hr.  Evaluated on [reparse f]
   (whose stored marks are what the first pass printed) it says that the second pass prints a line break where the first
   printed a space or nothing: this happens when a Whitespace node separated the node from the block/end of list in f
   (the parser never builds that after a trailer), or when the next sibling only became a block through its reparsed
   IndentChildren flag (then that sibling's own reason is named first). *)
Definition overridden (indent : bool) (c : node) (r : list node) : bool :=
  indent && ((match r with x :: _ => is_block_node x | [] => false end) || (match r with [] => true | _ => false end) || always_break c)
  && match trail_of c with Some SpNone | Some SpHoriz => true | _ => false end.

Fixpoint trail_reasons (fuel : nat) (n : node) {struct fuel} : list string :=
  match fuel with O => [] | S f =>
  let tl := fix tl (indent : bool) (l : list node) : list string :=
    match l with
    | [] => []
    | c :: r =>
        if is_ws c then tl indent r else
        (if overridden indent c r then ["TrailingSpaceRewritten"%string] else []) ++ trail_reasons f c ++ tl indent r
    end in
  match n with
  | NElem _ _ _ ch ic _ => tl ic ch
  | NIf _ th elifs el => tl true th ++ flat_map (fun '(_, cb) => tl true cb) elifs ++ tl true el
  | NSwitch _ cs => flat_map (fun '(_, cb) => tl true cb) cs
  | NFor _ b => tl true b
  | NCall _ _ ch => tl true ch
  | _ => []
  end end.

Fixpoint trail_reasons_top (l : list node) : list string :=
  match l with
  | [] => []
  | c :: r =>
      if is_ws c then trail_reasons_top r else
      (if overridden true c r then ["TrailingSpaceRewritten"%string] else []) ++ trail_reasons 200 c ++ trail_reasons_top r
  end.
Definition fnode_trail_reasons (n : fnode) : list string := match n with FTempl _ ch => trail_reasons_top ch | _ => [] end.

(* LF-separated, de-duplicated reason names; empty = the model predicts a fixed point (theorem C09_no_reason_stable).
   The flag reasons come first (so the first name is the shape key), then the trailing-space reason. *)
Definition unstable_reasons (f : file) : bytes :=
  let rs := dedup (flat_map (fun p => fnode_reasons (fst p) (snd p)) (combine (f_nodes f) (f_nodes (reparse f))))
            ++ dedup (flat_map fnode_trail_reasons (f_nodes (reparse f))) in
  flat_map (fun s => bs s ++ [x0a]) rs.
