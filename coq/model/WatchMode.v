(* C16 - model of the development-mode text file and of the recompile decision.
     cmd/templ/generatecmd/eventhandler.go: generate   - the text file is strings.Join(Literals, LF)
     runtime/watchmode.go: cacheStrings, WriteString   - strings.Split(file, LF), literals[index-1], strconv.Unquote
     generator/generator.go: HasChanged               - options, number of literals, list of Go expressions, skeleton
     generator/rangewriter.go: closeLiteral           - rw.index++ : literals are numbered from 1 in emission order
     generator/rangewriter.go: write / writeUnrecorded / Skeleton - the generated code without the contents of the
                                                        WriteString literals, the generated-date line and the Line/Col
                                                        numbers of templ.Error values
   Definitions only. *)
From Coq.Strings Require Import Byte String.
From Coq Require Import List Arith NArith Bool.
Import ListNotations.
From V Require Import lib.Bytes model.Quote.
Open Scope N_scope.

(* strings.Join(lits, LF) *)
Fixpoint join_lf (l : list bytes) : bytes :=
  match l with
  | [] => []
  | a :: r => match r with [] => a | _ :: _ => a ++ x0a :: join_lf r end
  end.

(* strings.Split(s, LF): always at least one element *)
Fixpoint split_lf (s : bytes) : list bytes :=
  match s with
  | [] => [[]]
  | c :: r => if Byte.eqb c x0a then [] :: split_lf r
              else match split_lf r with h :: t => (c :: h) :: t | [] => [[c]] end
  end.

(* eventhandler.go generate: joined := strings.Join(generatorOutput.Literals, LF); os.WriteFile(txtFileName, joined) *)
Definition text_file (literals : list bytes) : bytes := join_lf literals.

(* watchmode.go WriteString with developmentMode = true.  None = the error return
   (index 0 would index literals[-1]: the generator never emits it, the model answers None). *)
Definition dev_write (file : bytes) (index : nat) : option bytes :=
  let literals := split_lf file in
  match index with
  | O => None
  | S i => if (length literals <? index)%nat then None else unquote (nth i literals [])
  end.

(* the same call with developmentMode = false writes its string argument, a Go interpreted string literal in the
   generated file; the value of such a literal is what strconv.Unquote computes (Go specification, String literals) *)
Definition normal_write (lit : bytes) : option bytes := unquote lit.

(* ---------- generator.GeneratorOutput and generator.HasChanged ---------- *)
Record gen_opts := { o_version : bytes; o_file : bytes; o_skip : bool; o_date : bytes }.
(* GeneratorOutput.  The type S of the Skeleton field is a parameter: it is [bytes] for the real generator (the
   string RangeWriter.Skeleton() returns; model: skel_of_code below) and the erased statement list for the
   compiled-template model.  HasChanged only ever asks whether two skeletons are equal. *)
Record gen_output (S : Type) := { g_opts : gen_opts; g_literals : list bytes; g_exprs : list bytes; g_skel : S }.
Arguments g_opts {S} _.
Arguments g_literals {S} _.
Arguments g_exprs {S} _.
Arguments g_skel {S} _.

(* for i, prev := range previous.Expressions: if prev != updated.Expressions[i] return true  (lengths already equal) *)
Fixpoint exprs_differ (a b : list bytes) : bool :=
  match a, b with
  | x :: a', y :: b' => if bytes_eqb x y then exprs_differ a' b' else true
  | _, _ => false
  end.

(* HasChanged as it was before commit 75525d5: options, number of literals, list of Go expressions.
   Kept for the regression lemma: on its own it is not a sound recompile criterion. *)
Definition expr_list_criterion {S : Type} (p u : gen_output S) : bool :=
  if negb (bytes_eqb (o_version (g_opts p)) (o_version (g_opts u))) then true
  else if negb (bytes_eqb (o_file (g_opts p)) (o_file (g_opts u))) then true
  else if negb (Bool.eqb (o_skip (g_opts p)) (o_skip (g_opts u))) then true
  (* the generated date is not compared *)
  else if negb (length (g_literals p) =? length (g_literals u))%nat then true
  else if negb (length (g_exprs p) =? length (g_exprs u))%nat then true
  else exprs_differ (g_exprs p) (g_exprs u).

(* HasChanged: the checks above, then  if previous.Skeleton != updated.Skeleton { return true };  return false *)
Definition has_changed {S : Type} (skel_eqb : S -> S -> bool) (p u : gen_output S) : bool :=
  if expr_list_criterion p u then true
  else if negb (skel_eqb (g_skel p) (g_skel u)) then true
  else false.

(* ---------- what a generated template does when it renders ----------
   The generated function is a sequence of statements (flattened: a block is its head followed by its body):
     OLit i lit    templruntime.WriteString(buffer, i, "lit")
     OExpr k e     evaluate the Go expression e and write it through writer k chosen at generation time
                   (text/attribute escaper, style sanitiser, URL, script attribute, JSON in script, ...)
     OIf c n       if c { next n statements }
     OCode c       ANY other generated code c - for / switch / case / else / closing braces, component calls with or
                   without children, raw Go blocks.  Its meaning is an arbitrary function of the code, its position
                   and the program state: it may change the state, write bytes, fail, and continue anywhere
                   (a loop is a backward jump).
   A render that fails is [None] whatever the error value says: the Line/Col numbers inside templ.Error values are
   not rendered bytes and are outside the property. *)
Inductive sink := SText | SAttr | SStyle | SUrl | SScriptAttr | SJsOut | SJsIn | SOther (n : N).
Inductive op := OLit (index : nat) (lit : bytes) | OExpr (k : sink) (e : bytes) | OIf (c : bytes) (n : nat) | OCode (c : bytes).

Section Exec.
Variable St : Type.                                  (* the program state: arguments, loop variables, ... *)
Variable sem : sink -> bytes -> bytes.               (* the runtime writers: arbitrary functions *)
Variable ev_str : St -> bytes -> bytes.              (* value of a Go expression *)
Variable ev_bool : St -> bytes -> bool.              (* value of a Go condition *)
Variable code : bytes -> nat -> St -> option (St * bytes * nat).
   (* any other statement, at position pc in state s: None = the function returns an error;
      Some (s', out, next) = new state, bytes written, position of the statement executed next *)
Variable lk : nat -> bytes -> option bytes.          (* WriteString(index, lit): which string is written *)

(* run from statement pc; falling off the end is the function's return; None = error return or out of fuel *)
Fixpoint exec (fuel : nat) (P : list op) (pc : nat) (s : St) : option bytes :=
  match fuel with
  | O => None
  | S f =>
      match nth_error P pc with
      | None => Some []
      | Some (OLit i lit) => match lk i lit with Some v => option_map (app v) (exec f P (S pc) s) | None => None end
      | Some (OExpr k e) => option_map (app (sem k (ev_str s e))) (exec f P (S pc) s)
      | Some (OIf c n) => exec f P (if ev_bool s c then S pc else (S pc + n)%nat) s
      | Some (OCode c) => match code c pc s with
                          | Some (s', out, next) => option_map (app out) (exec f P next s')
                          | None => None
                          end
      end
  end.
End Exec.

Definition lk_normal (i : nat) (lit : bytes) : option bytes := normal_write lit.
Definition lk_dev (file : bytes) (i : nat) (lit : bytes) : option bytes := dev_write file i.

(* the literals of a program in statement order, and "the j-th WriteString call carries index k+j" *)
Fixpoint op_lits (P : list op) : list bytes :=
  match P with [] => [] | OLit _ l :: r => l :: op_lits r | _ :: r => op_lits r end.
Fixpoint numbered_from (k : nat) (P : list op) : bool :=
  match P with
  | [] => true
  | OLit i _ :: r => (i =? S k)%nat && numbered_from (S k) r
  | _ :: r => numbered_from k r
  end.

(* ---------- a template as the generator sees it: statements before the literals are numbered ----------
     ULit lit      static text                    UExpr / UIf as above
     UCode c es    other generated code c together with the Go expressions es recorded for it in the source map *)
Inductive uop := ULit (lit : bytes) | UExpr (k : sink) (e : bytes) | UIf (c : bytes) (n : nat) | UCode (c : bytes) (es : list bytes).

(* numbering of literals: rw.index++ before each emitted WriteString *)
Fixpoint compile_from (k : nat) (u : list uop) : list op :=
  match u with
  | [] => []
  | ULit lit :: r => OLit (S k) lit :: compile_from (S k) r
  | UExpr s e :: r => OExpr s e :: compile_from k r
  | UIf c n :: r => OIf c n :: compile_from k r
  | UCode c _ :: r => OCode c :: compile_from k r
  end.
Definition compile (u : list uop) : list op := compile_from 0 u.

(* GeneratorOutput.Literals and SourceMap.Expressions, in emission order *)
Fixpoint lits (u : list uop) : list bytes :=
  match u with [] => [] | ULit l :: r => l :: lits r | _ :: r => lits r end.
Fixpoint exprs (u : list uop) : list bytes :=
  match u with
  | [] => []
  | ULit _ :: r => exprs r
  | UExpr _ e :: r => e :: exprs r
  | UIf c _ :: r => c :: exprs r
  | UCode _ es :: r => es ++ exprs r
  end.

(* GeneratorOutput.Skeleton at this level: the statements with the contents of the string literals erased *)
Definition erase (o : uop) : uop := match o with ULit _ => ULit [] | x => x end.
Definition skeleton (u : list uop) : list uop := map erase u.
Definition sink_eqb (k k' : sink) : bool :=
  match k, k' with
  | SText, SText | SAttr, SAttr | SStyle, SStyle | SUrl, SUrl | SScriptAttr, SScriptAttr | SJsOut, SJsOut | SJsIn, SJsIn => true
  | SOther n, SOther m => (n =? m)
  | _, _ => false
  end.
Fixpoint list_eqb {A : Type} (eqb : A -> A -> bool) (a b : list A) : bool :=
  match a, b with
  | [], [] => true
  | x :: a', y :: b' => eqb x y && list_eqb eqb a' b'
  | _, _ => false
  end.
Definition uop_eqb (a b : uop) : bool :=
  match a, b with
  | ULit x, ULit y => bytes_eqb x y
  | UExpr k e, UExpr k' e' => bytes_eqb e e' && sink_eqb k k'
  | UIf c n, UIf c' n' => bytes_eqb c c' && (n =? n')%nat
  | UCode c es, UCode c' es' => bytes_eqb c c' && list_eqb bytes_eqb es es'
  | _, _ => false
  end.
Definition skel_eqb (a b : list uop) : bool := list_eqb uop_eqb a b.

Definition gen_out (o : gen_opts) (u : list uop) : gen_output (list uop) :=
  {| g_opts := o; g_literals := lits u; g_exprs := exprs u; g_skel := skeleton u |}.

(* ---------- the skeleton of generated code (text level) ----------
   RangeWriter.write appends everything it writes to the skeleton; what goes through writeUnrecorded is left out:
     closeLiteral                  the literal between  WriteString(buffer, INDEX, "  and  ")
     writeGeneratedDateComment     the whole line  // templ: generated: DATE
     writeExpressionErrorHandler   the two numbers in  return<TAB>templ.Error{Err: ..., FileName: ..., Line: N, Col: M}
   skel_of_code computes the same string from the generated code, line by line (a literal never holds a raw LF).
   The two can only differ on hand-written Go code one of whose lines is itself such a line. *)
Fixpoint strip (p s : bytes) : option bytes :=
  match p with
  | [] => Some s
  | a :: p' => match s with b :: s' => if Byte.eqb a b then strip p' s' else None | [] => None end
  end.
Fixpoint span (f : byte -> bool) (s : bytes) : bytes * bytes :=
  match s with
  | [] => ([], [])
  | c :: r => if f c then let '(a, b) := span f r in (c :: a, b) else ([], s)
  end.
Definition is_digit (b : byte) : bool := (48 <=? bN b) && (bN b <=? 57).
Definition is_tab (b : byte) : bool := Byte.eqb b x09.
Definition frev (s : bytes) : bytes := rev_append s [].     (* List.rev in linear time *)
Definition strip_end (p s : bytes) : option bytes := option_map frev (strip (frev p) (frev s)).

Definition ws_prefix : bytes := bs "templ_7745c5c3_Err = templruntime.WriteString(templ_7745c5c3_Buffer, ".
Definition ws_open : bytes := [x2c; x20; x22].     (* comma, space, double quote *)
Definition ws_close : bytes := [x22; x29].          (* double quote, closing parenthesis *)
Definition err_prefix : bytes := bs "return" ++ [x09] ++ bs "templ.Error{Err: templ_7745c5c3_Err, FileName: ".
Definition date_prefix : bytes := bs "// templ: generated: ".
Definition col_rev : bytes := frev (bs ", Col: ").
Definition line_rev : bytes := frev (bs ", Line: ").
Definition pos_erased : bytes := bs ", Line: , Col: }".

(* first occurrence of p in s: (what precedes it, what follows it) *)
Fixpoint find_sub (p s : bytes) {struct s} : option (bytes * bytes) :=
  match strip p s with
  | Some r => Some ([], r)
  | None => match s with
            | [] => None
            | c :: s' => match find_sub p s' with Some (a, b) => Some (c :: a, b) | None => None end
            end
  end.

(* a line  PRE templ_7745c5c3_Err = templruntime.WriteString(templ_7745c5c3_Buffer, DIGITS, "LIT")
   is split into (PRE, DIGITS, LIT).  PRE is the indentation, preceded on the first line of a case body by the
   case clause (the generator writes no line break after  case X:  and  default: ); the call is looked for at the
   FIRST occurrence of its text in the line *)
Definition ws_parse (l : bytes) : option (bytes * bytes * bytes) :=
  match find_sub ws_prefix l with
  | None => None
  | Some (pre, r1) =>
      let '(ds, r2) := span is_digit r1 in
      match ds with
      | [] => None
      | _ :: _ =>
          match strip ws_open r2 with
          | None => None
          | Some r3 => match strip_end ws_close r3 with
                       | None => None
                       | Some lit => Some (pre, ds, lit)
                       end
          end
      end
  end.
Definition ws_line (pre ds lit : bytes) : bytes := pre ++ ws_prefix ++ ds ++ ws_open ++ lit ++ ws_close.

(* TABS return<TAB>templ.Error{... , Line: DIGITS, Col: DIGITS}  loses the two numbers (read from the end of the line:
   the file name in between is an arbitrary Go string) *)
Definition erase_pos (l : bytes) : bytes :=
  let '(tb, r) := span is_tab l in
  match strip err_prefix r with
  | None => l
  | Some _ =>
      match strip [x7d] (frev l) with
      | None => l
      | Some a =>
          let '(_, a1) := span is_digit a in
          match strip col_rev a1 with
          | None => l
          | Some a2 =>
              let '(_, a3) := span is_digit a2 in
              match strip line_rev a3 with
              | None => l
              | Some a4 => frev a4 ++ pos_erased
              end
          end
      end
  end.

Definition is_date (l : bytes) : bool := match strip date_prefix l with Some _ => true | None => false end.

Definition skel_line (l : bytes) : bytes :=
  match ws_parse l with
  | Some (pre, ds, _) => ws_line pre ds []
  | None => erase_pos l
  end.

Definition code_lines (code : bytes) : list bytes := filter (fun l => negb (is_date l)) (split_lf code).
Definition skel_of_code (code : bytes) : bytes := join_lf (map skel_line (code_lines code)).

(* GeneratorOutput of the real generator, given what it produced *)
Definition gen_out_code (o : gen_opts) (literals exprs : list bytes) (code : bytes) : gen_output bytes :=
  {| g_opts := o; g_literals := literals; g_exprs := exprs; g_skel := skel_of_code code |}.

(* ---------- the generated file as a program of lines ----------
   Every line of the generated code is a statement: a WriteString line is what precedes the call (indentation, a
   case clause) as an opaque statement followed by OLit with the index written in the call; any other line is OCode
   (the date comment is no statement).  [exec] over this program with an arbitrary [code] is an arbitrary semantics
   of the Go text in which a WriteString call does what [lk] says. *)
Definition num_of (ds : bytes) : nat := match undec ds with Some n => N.to_nat n | None => 0%nat end.
Definition ops_of_line (l : bytes) : list op :=
  match ws_parse l with
  | Some (pre, ds, lit) => [OCode pre; OLit (num_of ds) lit]
  | None => [OCode l]
  end.
Definition ops_of_code (code : bytes) : list op := flat_map ops_of_line (code_lines code).
(* a well-formed generated file: it has a line, and its WriteString calls are numbered 1, 2, ... in order
   (generator model: C16_literal_indices; real generator: checked on every generated file) *)
Definition wf_code (code : bytes) : bool :=
  match code_lines code with [] => false | _ :: _ => numbered_from 0 (ops_of_code code) end.
