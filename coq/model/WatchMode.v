(* C16 - model of the development-mode text file and of the recompile decision.
     cmd/templ/generatecmd/eventhandler.go: generate   - the text file is strings.Join(Literals, LF)
     runtime/watchmode.go: cacheStrings, WriteString   - strings.Split(file, LF), literals[index-1], strconv.Unquote
     generator/generator.go: HasChanged               - options, number of literals, list of Go expressions
     generator/rangewriter.go: closeLiteral           - rw.index++ : literals are numbered from 1 in emission order
   Definitions only. *)
From Coq.Strings Require Import Byte String.
From Coq Require Import List Arith NArith Bool.
Import ListNotations.
From V Require Import lib.Bytes model.Quote.
Open Scope N_scope.

(* strings.Join(lits, LF) *)
Fixpoint join_lf (l : list bytes) : bytes :=
  match l with
  | [] => []
  | a :: r => match r with [] => a | _ :: _ => a ++ x0a :: join_lf r end
  end.

(* strings.Split(s, LF): always at least one element *)
Fixpoint split_lf (s : bytes) : list bytes :=
  match s with
  | [] => [[]]
  | c :: r => if Byte.eqb c x0a then [] :: split_lf r
              else match split_lf r with h :: t => (c :: h) :: t | [] => [[c]] end
  end.

(* eventhandler.go generate: joined := strings.Join(generatorOutput.Literals, LF); os.WriteFile(txtFileName, joined) *)
Definition text_file (literals : list bytes) : bytes := join_lf literals.

(* watchmode.go WriteString with developmentMode = true.  None = the error return
   (index 0 would index literals[-1]: the generator never emits it, the model answers None). *)
Definition dev_write (file : bytes) (index : nat) : option bytes :=
  let literals := split_lf file in
  match index with
  | O => None
  | S i => if (length literals <? index)%nat then None else unquote (nth i literals [])
  end.

(* the same call with developmentMode = false writes its string argument, a Go interpreted string literal in the
   generated file; the value of such a literal is what strconv.Unquote computes (Go specification, String literals) *)
Definition normal_write (lit : bytes) : option bytes := unquote lit.

(* ---------- generator.GeneratorOutput and generator.HasChanged ---------- *)
Record gen_opts := { o_version : bytes; o_file : bytes; o_skip : bool; o_date : bytes }.
Record gen_output := { g_opts : gen_opts; g_literals : list bytes; g_exprs : list bytes }.

(* for i, prev := range previous.Expressions: if prev != updated.Expressions[i] return true  (lengths already equal) *)
Fixpoint exprs_differ (a b : list bytes) : bool :=
  match a, b with
  | x :: a', y :: b' => if bytes_eqb x y then exprs_differ a' b' else true
  | _, _ => false
  end.

Definition has_changed (p u : gen_output) : bool :=
  if negb (bytes_eqb (o_version (g_opts p)) (o_version (g_opts u))) then true
  else if negb (bytes_eqb (o_file (g_opts p)) (o_file (g_opts u))) then true
  else if negb (Bool.eqb (o_skip (g_opts p)) (o_skip (g_opts u))) then true
  (* the generated date is not compared *)
  else if negb (length (g_literals p) =? length (g_literals u))%nat then true
  else if negb (length (g_exprs p) =? length (g_exprs u))%nat then true
  else exprs_differ (g_exprs p) (g_exprs u).

(* ---------- what a generated template does when it renders ----------
   The generated function is a sequence of three kinds of statement (flattened; an if-block is its
   condition followed by the number of statements in its body):
     ULit lit      templruntime.WriteString(buffer, INDEX, "lit")     INDEX assigned by closeLiteral
     UExpr k e     evaluate the Go expression e and write it through writer k chosen at generation time
                   (text/attribute escaper, style sanitiser, URL, script attribute, JSON in script, ...)
     UIf c n       if c { next n statements }                         (for/switch are not modelled)        *)
Inductive sink := SText | SAttr | SStyle | SUrl | SScriptAttr | SJsOut | SJsIn | SOther (n : N).
Inductive uop := ULit (lit : bytes) | UExpr (k : sink) (e : bytes) | UIf (c : bytes) (n : nat).
Inductive op := OLit (index : nat) (lit : bytes) | OExpr (k : sink) (e : bytes) | OIf (c : bytes) (n : nat).

(* numbering of literals: rw.index++ before each emitted WriteString *)
Fixpoint compile_from (k : nat) (u : list uop) : list op :=
  match u with
  | [] => []
  | ULit lit :: r => OLit (S k) lit :: compile_from (S k) r
  | UExpr s e :: r => OExpr s e :: compile_from k r
  | UIf c n :: r => OIf c n :: compile_from k r
  end.
Definition compile (u : list uop) : list op := compile_from 0 u.

(* GeneratorOutput.Literals and SourceMap.Expressions, in emission order *)
Fixpoint lits (u : list uop) : list bytes :=
  match u with [] => [] | ULit l :: r => l :: lits r | _ :: r => lits r end.
Fixpoint exprs (u : list uop) : list bytes :=
  match u with [] => [] | ULit _ :: r => exprs r | UExpr _ e :: r => e :: exprs r | UIf c _ :: r => c :: exprs r end.
Definition gen_out (o : gen_opts) (u : list uop) : gen_output := {| g_opts := o; g_literals := lits u; g_exprs := exprs u |}.

(* the generated code with the contents of its string literals erased *)
Definition erase (o : uop) : uop := match o with ULit _ => ULit [] | x => x end.
Definition skeleton (u : list uop) : list uop := map erase u.
Definition uop_eqb (a b : uop) : bool :=
  match a, b with
  | ULit x, ULit y => bytes_eqb x y
  | UExpr k e, UExpr k' e' =>
      bytes_eqb e e' && match k, k' with
                        | SText, SText | SAttr, SAttr | SStyle, SStyle | SUrl, SUrl | SScriptAttr, SScriptAttr | SJsOut, SJsOut | SJsIn, SJsIn => true
                        | SOther n, SOther m => (n =? m)
                        | _, _ => false end
  | UIf c n, UIf c' n' => bytes_eqb c c' && (n =? n')%nat
  | _, _ => false
  end.

Section Run.
Variable sem : sink -> bytes -> bytes.       (* the runtime writers: arbitrary functions *)
Variable ev_str : bytes -> bytes.            (* value of a Go expression *)
Variable ev_bool : bytes -> bool.            (* value of a Go condition *)
Variable lk : nat -> bytes -> option bytes.  (* WriteString(index, lit): which string is written *)

(* skip = number of following statements inside an if-body whose condition was false *)
Fixpoint run (ops : list op) (skip : nat) : option bytes :=
  match ops with
  | [] => Some []
  | o :: r =>
      match skip with
      | S k => run r k
      | O =>
          match o with
          | OLit i lit => match lk i lit with Some v => option_map (app v) (run r 0) | None => None end
          | OExpr k e => option_map (app (sem k (ev_str e))) (run r 0)
          | OIf c n => run r (if ev_bool c then 0%nat else n)
          end
      end
  end.
End Run.

Definition lk_normal (i : nat) (lit : bytes) : option bytes := normal_write lit.
Definition lk_dev (file : bytes) (i : nat) (lit : bytes) : option bytes := dev_write file i.

(* the guard of the partial theorem: a literal, then (text expression, literal) pairs, no control flow *)
Fixpoint alternating (u : list uop) : bool :=
  match u with
  | ULit _ :: r => match r with [] => true | UExpr SText _ :: r' => alternating r' | _ => false end
  | _ => false
  end.
