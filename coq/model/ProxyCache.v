(* Model of the part of cmd/templ/lspcmd/proxy/server.go that keeps, per templ document, the document text
   (Server.TemplSource), the source map (Server.SourceMapCache), the generated Go text (Server.GoSource) and what the
   target language server (gopls) was last given: DidOpen, DidChange, DidClose restricted to templ URIs.
   Definitions only.

   parse t            parseTemplate's verdict on a document text: Some AST when parser.ParseString and parser.Diagnose
                      succeed and generator.Generate returns no error, None otherwise (the parser is not modelled; the
                      harness supplies the real verdicts).
   generator.Generate is the generator model (model/Gen.v, model/SourceMap.v) with the empty file name (the server
   passes no WithFileName option).
   A DidChange event carries the text Document.Apply leaves in the held document (document edits are C17's subject).
   gopls's files are keyed here by the templ URI (convertTemplToGoURI is injective on templ URIs). *)
From Coq.Strings Require Import Byte String.
From Coq Require Import List Arith NArith Bool.
Import ListNotations.
From V Require Import lib.Bytes lib.Sexp model.Ast model.Gen model.SourceMap.

(* Go maps keyed by URI *)
Fixpoint lookup {A : Type} (u : bytes) (m : list (bytes * A)) : option A :=
  match m with
  | [] => None
  | (k, v) :: r => if bytes_eqb k u then Some v else lookup u r
  end.
Fixpoint remove {A : Type} (u : bytes) (m : list (bytes * A)) : list (bytes * A) :=
  match m with
  | [] => []
  | (k, v) :: r => if bytes_eqb k u then remove u r else (k, v) :: remove u r
  end.
Definition set {A : Type} (u : bytes) (v : A) (m : list (bytes * A)) : list (bytes * A) := (u, v) :: remove u m.

(* generator.Generate(template, w) as the server calls it: the Go text and GeneratorOutput.SourceMap (both tables) *)
Definition generate_tables (fn : bytes) (f : file) : bytes * (smap * smap) :=
  let g := gen_all f {| w := rw0; vid := 0; cvar := []; fname := fn; adds := [] |} in
  (concat (rev (out (w g))), sourcemap (rev (adds g))).

Record pstate := {
  docs : list (bytes * bytes);             (* Server.TemplSource: uri -> held document text *)
  cache : list (bytes * (smap * smap));    (* Server.SourceMapCache *)
  gosrc : list (bytes * bytes);            (* Server.GoSource *)
  gopls : list (bytes * bytes)             (* the target's copy of the generated file *)
}.
Definition pinit : pstate := {| docs := []; cache := []; gosrc := []; gopls := [] |}.

Inductive pev :=
| Open (u text : bytes)       (* textDocument/didOpen *)
| Change (u text' : bytes)    (* textDocument/didChange; text' = the held text after Document.Apply of the changes *)
| Close (u : bytes).          (* textDocument/didClose *)

Definition with_doc (u t : bytes) (s : pstate) : pstate :=
  {| docs := set u t (docs s); cache := cache s; gosrc := gosrc s; gopls := gopls s |}.

Section Proxy.
  Variable parse : bytes -> option file.

  (* common tail of DidOpen and DidChange: parseTemplate; when it fails nothing else changes; otherwise Generate,
     SourceMapCache.Set, GoSource[uri] = text, Target.DidOpen / Target.DidChange with the whole Go text *)
  Definition regenerate (u t : bytes) (s : pstate) : pstate :=
    match parse t with
    | None => s
    | Some f =>
        let '(code, m) := generate_tables [] f in
        {| docs := docs s; cache := set u m (cache s); gosrc := set u code (gosrc s); gopls := set u code (gopls s) |}
    end.

  Definition step (s : pstate) (e : pev) : pstate :=
    match e with
    | Open u t => regenerate u t (with_doc u t s)
    | Change u t =>
        match lookup u (docs s) with
        | None => s                                   (* TemplSource.Apply: "document not found" *)
        | Some _ => regenerate u t (with_doc u t s)
        end
    | Close u => {| docs := remove u (docs s); cache := remove u (cache s); gosrc := gosrc s; gopls := remove u (gopls s) |}
    end.

  Definition run (evs : list pev) : pstate := fold_left step evs pinit.

  (* A proxy that spares gopls a DidChange whose Go text it already has, and returns before SourceMapCache.Set
     (refuted variant, see props/C07.v). *)
  Definition regenerate_skip (u t : bytes) (s : pstate) : pstate :=
    match parse t with
    | None => s
    | Some f =>
        let '(code, m) := generate_tables [] f in
        match lookup u (gosrc s) with
        | Some prev => if bytes_eqb prev code then s else regenerate u t s
        | None => regenerate u t s
        end
    end.
  Definition step_skip (s : pstate) (e : pev) : pstate :=
    match e with
    | Change u t => match lookup u (docs s) with None => s | Some _ => regenerate_skip u t (with_doc u t s) end
    | _ => step s e
    end.
  Definition run_skip (evs : list pev) : pstate := fold_left step_skip evs pinit.

  (* observation after each event, for the harness: the touched document's held text, tables and Go text at gopls *)
  Fixpoint trace (s : pstate) (evs : list pev) : list (option bytes * option (smap * smap) * option bytes) :=
    match evs with
    | [] => []
    | e :: r =>
        let s' := step s e in
        let u := match e with Open u _ => u | Change u _ => u | Close u => u end in
        (lookup u (docs s'), lookup u (cache s'), lookup u (gopls s')) :: trace s' r
    end.
End Proxy.
