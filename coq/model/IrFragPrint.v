(* Tie of the C02 fragment (model/IrFrag.v) to the generator model (model/Gen.v, itself tied byte for byte to
   generator.Generate on every run):
     to_frag    : Ast.node -> option nd        the fragment as a subset of the template AST; whitespace stripping
                                               (stripWhitespace / stripLeadingAndTrailingWhitespace) is a preprocessing pass
     print_frag : list stmt -> Go text         printed with Gen.v's own primitives (wl, wis, wre, string_expr,
                                               attr_value, css_attrs, call_plain, err handlers, with_var)
   so that for fragment-only files   print_frag (coalesce (gens (to_frag body)))   wrapped as a file is the text
   generator.Generate writes (checked by the harness on every run: family "fragment").
   A literal is printed with wl only when RangeWriter is not already inside a literal: printing statements that
   were not maximally merged by [coalesce] yields a marker and the text tie fails. *)
From Coq.Strings Require Import Byte String.
From Coq Require Import List Arith NArith Bool.
Import ListNotations.
From V Require model.Quote.
From V Require Import lib.Bytes lib.Sexp model.Ast model.Url model.Gen model.IrFrag.
Local Open Scope nat_scope.

(* ---------- AST -> fragment ---------- *)
Definition name_ok (n : bytes) : bool := beq (qesc (hesc n)) (hesc n).     (* names are written into the literal unquoted *)
Fixpoint callee_name (s : bytes) : bytes := match s with [] => [] | b :: r => if Byte.eqb b x28 then [] else b :: callee_name r end.
Definition is_ws_f (n : nd) : bool := match n with Ws => true | _ => false end.
Definition strip_ws_f (l : list nd) := filter (fun n => negb (is_ws_f n)) l.
Fixpoint strip_lead_f (l : list nd) := match l with n :: r => if is_ws_f n then strip_lead_f r else l | [] => [] end.
Definition strip_lt_f (l : list nd) := rev (strip_lead_f (rev (strip_lead_f l))).

(* the sink of an expression attribute, as writeExpressionAttribute chooses it from (element, attribute name);
   cls: class expressions are hoisted only on ordinary elements (writeElement), not on raw/script elements *)
Fixpoint to_fattr (fuel : nat) (cls : bool) (elem : bytes) (a : attr) : option fattr :=
  match fuel with O => None | S f =>
  match a with
  | ABoolConst n => if name_ok n then Some (FBoolConst n) else None
  | AConst n v => if name_ok n then Some (FConst n v) else None
  | ABoolExpr n e => if name_ok n then Some (FBoolExpr n e) else None
  | AExpr n e =>
      if negb (name_ok n) || zero_range e || negb (Bool.eqb (is_script_attr n) (is_script_attr (hesc n))) then None
      else if beq (hesc n) (bs "class") then (if cls then Some (FClass n e) else None)
      else if url_sink elem n then Some (FUrl n e)
      else if is_script_attr n then Some (FScript n e)
      else if beq n (bs "style") then Some (FStyle n e)
      else Some (FExpr n e)
  | ASpread e => Some (FSpread e)
  | ACond e th el =>
      match opt_list (map (to_fattr f cls elem) th), opt_list (map (to_fattr f cls elem) el) with
      | Some a, Some b => Some (FCond e a b) | _, _ => None end
  end end.
Definition to_jpart (p : spart) : jpart :=
  match p with Ast.SJs v => JText v | Ast.SGo e tr inside => JGo e tr inside end.

Section ToFrag.
Variable call_ok : bytes -> bool.       (* call expressions whose callee the fragment knows: templates of the file, opaque hand-written components *)
Fixpoint to_frag (fuel : nat) (n : node) : option nd :=
  match fuel with O => None | S f =>
  let conv := fun l => opt_list (map (to_frag f) l) in
  let cases := fun (l : list (expr * list node)) =>
    opt_list (map (fun p => let '(c, b) := p in option_map (fun b' => (c, strip_lt_f b')) (conv b)) l) in
  match n with
  | NWs v => match v with [] => None | _ => Some Ws end
  | NDoc v => Some (Doc v)
  | NText v t => match v with [] => None | _ => Some (Text v t) end
  | NStr e t => if all_ws (e_val e) then None else Some (Str e t)
  | NElem name attrs ch t =>
      if negb (name_ok name) || (is_void_name name && negb (is_nil ch)) then None else
      match opt_list (map (to_fattr 40 true name) attrs), conv ch with
      | Some a, Some c => Some (Elem name (is_block_name name) (is_void_name name) a (strip_ws_f c) t)
      | _, _ => None end
  | NRaw name attrs c =>
      if negb (name_ok name) then None else
      option_map (fun a => Raw name a c) (opt_list (map (to_fattr 40 false name) attrs))
  | NScript attrs parts =>
      option_map (fun a => Script a (map to_jpart parts)) (opt_list (map (to_fattr 40 false (bs "script")) attrs))
  | NGoComment => Some GoComment
  | NHtmlComment c => Some (Comment c)
  | NCallT e => if call_ok (e_val e) then Some (Call e) else None
  | NCall e ch =>
      if call_ok (e_val e) then
        match ch with [] => Some (Call e) | _ => option_map (fun c => CallB e (strip_lt_f c)) (conv ch) end
      else None
  | NChildren => Some Children
  | NIf e th elifs el =>
      match conv th, cases elifs, conv el with
      | Some th', Some ei', Some el' => Some (If e (strip_lt_f th') ei' (negb (is_nil el)) (strip_lt_f el'))
      | _, _, _ => None end
  | NSwitch e cs => option_map (Switch e) (cases cs)
  | NFor e b => option_map (fun b' => For e (strip_lt_f b')) (conv b)
  | NGoCode e => if all_ws (e_val e) then None else Some (GoCode e)
  end end.
(* a template body: writeTemplate strips all whitespace nodes at the top level *)
Definition to_frag_body (ch : list node) : option (list nd) := option_map strip_ws_f (opt_list (map (to_frag 90) ch)).
End ToFrag.

(* ---------- fragment IR -> Go text, through Gen.v's writers ---------- *)
(* printer state: hoisted class variables not yet used (as the synthetic expressions writeAttributesCSS substitutes), generator state *)
Notation PM := ((list expr * gst) -> (list expr * gst)).
Definition lift (m : M) : PM := fun s => let '(q, g) := s in (q, m g).
Definition pseq (a b : PM) : PM := fun s => b (a s).
Definition pseqs {A} (f : A -> PM) (l : list A) : PM := fold_right (fun x acc => pseq (f x) acc) (fun s => s) l.
(* escapeQuotes on ARBITRARY bytes.  Gen.qesc passes every byte >= 0x80 through, which is what strconv.Quote does for well-formed
   UTF-8 only: a byte that is not part of a well-formed sequence (a Latin-1 file, a lone continuation byte, a truncated, overlong or
   surrogate form, C0 C1 F5..FF) is spelled \xNN by strconv.Quote, so that the Go literal - which must be valid UTF-8 for the
   compiler, and which RangeWriter re-encodes rune by rune - still denotes the source bytes.  The fragment printer therefore quotes
   with model/Quote.v's strconv.Quote; IsPrint, an oracle there, is taken to hold of every non-ASCII code point (the static text the
   harness ties contains printable characters only; proofs/IrFragQuoteProof.v: equal to Gen.qesc on well-formed text, equal to
   Quote with Go's own table whenever the well-formed non-ASCII characters are printable, reads back as the source bytes always). *)
Definition frag_is_print (r : N) : bool := if (r <? 128)%N then (32 <=? r)%N && (r <? 127)%N else true.
Definition fquote (s : bytes) : bytes := Quote.quote frag_is_print s.
Definition plit (s : bytes) : M := fun g => if inlit (w g) then wrs "<<literal not merged by coalesce>>" g else wl (fquote s) g.
Definition class_attr_name : bytes := bs "class".
Fixpoint pstmt (lvl : nat) (s : stmt) {struct s} : PM :=
  match s with
  | SLit a => lift (plit a)
  | SExpr e => lift (string_expr lvl e)
  | SAttrV _ elem n e => lift (attr_value lvl elem n e)
  | SSpread e => lift (write_attrs 1 lvl [] [ASpread e])
  | SScriptHoist es => lift (element_script lvl (map (fun e => AExpr (bs "onclick") e) es))
  | SJs inside e => lift (script_part lvl (Ast.SGo e [] inside))
  | SClassHoist e => fun st =>
      let '(q, g) := st in
      let '(a', g') := css_attrs 50 lvl [AExpr class_attr_name e] g in
      (q ++ flat_map (fun a => match a with AExpr _ se => [se] | _ => [] end) a', g')
  | SClassUse _ => fun st =>
      let '(q, g) := st in
      match q with
      | se :: q' => (q', attr_value lvl [] class_attr_name se g)
      | [] => (q, wrs "<<class value without a hoisted variable>>" g) end
  | IrFrag.SGo e => lift (wie lvl e (e_val e ++ nlb))
  | SIf c th elifs he el =>
      pseq (lift (wis lvl "if " ;; wre c ;; wrs " {" ;; nl)) (pseq (pseqs (pstmt (S lvl)) th)
      (pseq (pseqs (fun p => let '(ce, cb) := p in pseq (lift (wis lvl "} else if " ;; wre ce ;; wrs " {" ;; nl)) (pseqs (pstmt (S lvl)) cb)) elifs)
      (pseq (if he then pseq (lift (wis lvl "} else {" ;; nl)) (pseqs (pstmt (S lvl)) el) else (fun s => s))
            (lift (wis lvl "}" ;; nl)))))
  | SSwitch e cases =>
      pseq (lift (wis lvl "switch " ;; wre e ;; wrs " {" ;; nl))
      (pseq (pseqs (fun p => let '(ce, cb) := p in pseq (lift (wie lvl ce (e_val ce))) (pseqs (pstmt (S lvl)) cb)) cases)
            (lift (wis lvl "}" ;; nl)))
  | SFor e b => pseq (lift (wis lvl "for " ;; wre e ;; wrs " {" ;; nl)) (pseq (pseqs (pstmt (S lvl)) b) (lift (wis lvl "}" ;; nl)))
  | SCall e => lift (call_plain lvl e)
  | SCallB e b =>
      (* writeTemplElementExpression (block form): the closure, the call with templ.WithChildren, then ClearChildren *)
      fun st =>
      let '(q, g) := st in
      let v := S (vid g) in let cn := bs (P ++ "Var") ++ decn v in
      let g := set_vid v g in
      (pseq (lift (wi lvl (cn ++ bs (" := templruntime.GeneratedTemplate(func(" ++ P ++ "Input templruntime.GeneratedComponentInput) (" ++ P ++ "Err error) {")) ;; nl ;;
                   wis (S lvl) (P ++ "W, ctx := " ++ P ++ "Input.Writer, " ++ P ++ "Input.Context") ;; nl ;;
                   templ_buffer (S lvl) ;;
                   wis (S lvl) "ctx = templ.InitializeContext(ctx)" ;; nl))
      (pseq (pseqs (pstmt (S lvl)) b)
            (lift (wis (S lvl) "return nil" ;; nl ;; wis lvl "})" ;; nl ;;
                   wis lvl (P ++ "Err = ") ;; wre e ;; wr (bs ".Render(templ.WithChildren(ctx, " ++ cn ++ bs ("), " ++ P ++ "Buffer)")) ;; nl ;; err_handler lvl ;;
                   wis lvl "ctx = templ.ClearChildren(ctx)" ;; nl)))) (q, g)
  | SChildren => lift (fun g => (wi lvl (bs (P ++ "Err = ") ++ cvar g ++ bs (".Render(ctx, " ++ P ++ "Buffer)")) ;; nl ;; err_handler lvl) g)
  end.
Definition print_frag (lvl : nat) (p : list stmt) : M := fun g => snd (pseqs (pstmt lvl) p ([], g)).

(* writeTemplate around a fragment body (the wrapper text of Gen.write_template, which cannot take another body printer) *)
Definition frag_template (last : bool) (e : expr) (body : list stmt) : M :=
  wrs "func " ;; wre e ;; wrs " templ.Component {" ;; nl ;;
  wis 1 ("return templruntime.GeneratedTemplate(func(" ++ P ++ "Input templruntime.GeneratedComponentInput) (" ++ P ++ "Err error) {") ;; nl ;;
  wis 2 (P ++ "W, ctx := " ++ P ++ "Input.Writer, " ++ P ++ "Input.Context") ;; nl ;;
  wis 2 ("if " ++ P ++ "CtxErr := ctx.Err(); " ++ P ++ "CtxErr != nil {") ;; nl ;;
  wis 3 ("return " ++ P ++ "CtxErr") ;; wis 2 "}" ;; nl ;;
  templ_buffer 2 ;;
  wis 2 "ctx = templ.InitializeContext(ctx)" ;; nl ;;
  with_var (fun cv => fun g =>
    (wi 2 (cv ++ bs " := templ.GetChildren(ctx)") ;; nl ;; wi 2 (bs "if " ++ cv ++ bs " == nil {") ;; nl ;;
     wi 3 (cv ++ bs " = templ.NopComponent") ;; nl ;; wis 2 "}" ;; nl ;; wis 2 "ctx = templ.ClearChildren(ctx)" ;; nl ;;
     print_frag 2 body)
    (set_cvar cv g)) ;;
  wis 2 "return nil" ;; nl ;; wis 1 "})" ;; nl ;; wis 0 "}" ;; nl ;; (if last then skip else nl).

(* a fragment-only file: Go blocks and templates whose bodies are in the fragment *)
Inductive ffnode := FFGo (e : expr) | FFTempl (e : expr) (body : list nd) | FFOther (n : fnode).   (* FFOther: css / script template declarations, written by Gen.v itself *)
Definition templ_names (f : file) : list bytes :=
  flat_map (fun n => match n with FTempl e _ => [callee_name (e_val e)] | _ => [] end) (f_nodes f).
(* known: which call expressions name a component the fragment knows, given the names of the file's templates *)
Definition to_frag_file (known : list bytes -> bytes -> bool) (f : file) : option (list ffnode) :=
  let ok := known (templ_names f) in
  opt_list (map (fun n => match n with
                          | FGo e => Some (FFGo e)
                          | FTempl e ch => option_map (FFTempl e) (to_frag_body ok ch)
                          | other => Some (FFOther other) end) (f_nodes f)).
(* the text tie does not depend on what the callees are *)
Definition any_call (_ : list bytes) (_ : bytes) : bool := true.
Definition frag_table (l : list ffnode) : list (bytes * list nd) :=
  flat_map (fun n => match n with FFTempl e b => [(callee_name (e_val e), b)] | _ => [] end) l.
(* the generator needs only the escaping function of the oracles *)
Definition frag_orc : oracles unit :=
  Oracles unit hesc (fun _ _ => None) (fun _ _ => false) (fun _ _ => []) (fun _ _ => 0) (fun _ _ => []) (fun _ _ => []) (fun _ _ => [])
          (fun _ _ => None) (fun _ _ => []) (fun _ _ => []) (fun _ _ => []) (fun _ _ _ => None) (fun _ => KUnknown) (fun u _ => u).
Fixpoint write_ffnodes (l : list ffnode) : M :=
  match l with
  | [] => skip
  | n :: r =>
      (match n with
       | FFGo e => go_block e
       | FFTempl e b => frag_template (is_nil r) e (coalesce (gens frag_orc b None))
       | FFOther (Ast.FCss e name props) => write_css e name props
       | FFOther (Ast.FScript name params value fn) => write_script name params value fn
       | FFOther _ => skip
       end) ;; write_ffnodes r
  end.
Definition frag_gen_all (f : file) (l : list ffnode) : M :=
  wrs "// Code generated by templ - DO NOT EDIT." ;; wr [x0a; x0a] ;;
  seqs (map go_block (f_header f)) ;;
  (fun g => add_map (f_pkg f) (cur (w g)) (wr (e_val (f_pkg f) ++ [x0a; x0a]) g)) ;;
  wrs "//lint:file-ignore SA4006 This context is only used if a nested component is present." ;; wr [x0a; x0a] ;;
  wrs "import ""github.com/a-h/templ""" ;; nl ;;
  wrs "import templruntime ""github.com/a-h/templ/runtime""" ;; nl ;; nl ;;
  write_ffnodes l ;;
  wrs "var _ = templruntime.GeneratedTemplate".
(* the Go text and the literal list of a fragment-only file; None: the file is outside the fragment *)
Definition frag_generate (fn : bytes) (f : file) : option (bytes * list bytes) :=
  match to_frag_file any_call f with
  | Some l =>
      let g := frag_gen_all f l {| w := rw0; vid := 0; cvar := []; fname := fn; adds := [] |} in
      Some (concat (rev (out (w g))), rev (lits (w g)))
  | None => None end.
