(* Model of the live-reload proxy's response rewriting:
     /repo/cmd/templ/generatecmd/proxy/proxy.go  (modifyResponse, insertScriptTagIntoBody, reloadScript,
                                                  parseNonce, roundTripper.setShouldSkipResponseModificationHeader)
     /repo/internal/htmlfind/htmlfind.go         (All, Element)
   Definitions only.  gzip, brotli and x/net/html Parse/Render are Section variables (oracles). *)
From Coq.Strings Require Import Byte String.
From Coq Require Import List NArith Bool.
Import ListNotations.
From V Require Import lib.Bytes lib.HNode.
Open Scope N_scope.

(* ------------------------------------------------------------------------------------------- *)
(* strings.Split(s, ";") *)
Fixpoint split_byte (sep : byte) (s : bytes) (cur : bytes) : list bytes :=
  match s with
  | [] => [rev cur]
  | b :: r => if Byte.eqb b sep then rev cur :: split_byte sep r [] else split_byte sep r (b :: cur)
  end.

(* strings.Fields: fields separated by runs of unicode.IsSpace runes.  ASCII: \t \n \v \f \r and space.
   Beyond ASCII (FieldsFunc over decoded runes): U+0085, U+00A0, U+1680, U+2000..U+200A, U+2028, U+2029,
   U+202F, U+205F, U+3000.  Each of these encodings starts with a lead byte, and a lead byte is always the
   start of a rune for Go's decoder (only continuation bytes are skipped as part of a valid sequence), so
   matching the encodings at every position not already consumed is exactly the rune-wise test. *)
Definition go_ascii_space (b : byte) : bool :=
  Byte.eqb b x09 || Byte.eqb b x0a || Byte.eqb b x0b || Byte.eqb b x0c || Byte.eqb b x0d || Byte.eqb b x20.

Definition in_range (lo hi : N) (b : byte) : bool := (lo <=? bN b) && (bN b <=? hi).

(* number of bytes of the white-space rune at the head of s; 0 if the head is not white space *)
Definition space_len (s : bytes) : nat :=
  match s with
  | [] => O
  | b :: r =>
      if go_ascii_space b then 1%nat
      else if Byte.eqb b xc2 then
        match r with c :: _ => if Byte.eqb c x85 || Byte.eqb c xa0 then 2%nat else O | [] => O end
      else if Byte.eqb b xe1 then (if has_prefix [x9a; x80] r then 3%nat else O)
      else if Byte.eqb b xe2 then
        match r with
        | c :: d :: _ =>
            if Byte.eqb c x80 && (in_range 128 138 d || Byte.eqb d xa8 || Byte.eqb d xa9 || Byte.eqb d xaf) then 3%nat
            else if Byte.eqb c x81 && Byte.eqb d x9f then 3%nat else O
        | _ => O
        end
      else if Byte.eqb b xe3 then (if has_prefix [x80; x80] r then 3%nat else O)
      else O
  end.

Definition flush (cur : bytes) (acc : list bytes) : list bytes :=
  match cur with [] => acc | _ => rev cur :: acc end.

Fixpoint fields_aux (s : bytes) (skip : nat) (cur : bytes) (acc : list bytes) : list bytes :=
  match s with
  | [] => rev (flush cur acc)
  | b :: r =>
      match skip with
      | S k => fields_aux r k cur acc
      | O => match space_len s with
             | O => fields_aux r O (b :: cur) acc
             | S k => fields_aux r k [] (flush cur acc)
             end
      end
  end.
Definition fields (s : bytes) : list bytes := fields_aux s O [] [].

(* strings.EqualFold(s, t) for an ASCII lower-case / punctuation constant t: rune-wise simple folding;
   a rune of s matches the ASCII letter c iff it is c, its upper case, U+212A (for k) or U+017F (for s). *)
Fixpoint equal_fold_const (s t : bytes) : bool :=
  match t with
  | [] => match s with [] => true | _ => false end
  | c :: t' =>
      match s with
      | [] => false
      | b :: s' =>
          if Byte.eqb (lower b) c then equal_fold_const s' t'
          else if Byte.eqb c x6b && has_prefix [xe2; x84; xaa] s then equal_fold_const (skipn 3 s) t'
          else if Byte.eqb c x73 && has_prefix [xc5; xbf] s then equal_fold_const (skipn 2 s) t'
          else false
      end
  end.

(* strings.TrimPrefix(source, "'") ; strings.TrimSuffix(source, "'") *)
Definition trim_quote_l (s : bytes) : bytes :=
  match s with b :: r => if Byte.eqb b x27 then r else s | [] => [] end.
Definition trim_quote_r (s : bytes) : bytes := rev (trim_quote_l (rev s)).

(* inner loop of parseNonce: the first source that, after trimming, starts with "nonce-" *)
Fixpoint first_nonce (sources : list bytes) : option bytes :=
  match sources with
  | [] => None
  | src :: r =>
      let t := trim_quote_r (trim_quote_l src) in
      if has_prefix (bs "nonce-") t then Some (skipn 6 t) else first_nonce r
  end.

(* outer loop of parseNonce over the raw directives *)
Fixpoint parse_nonce_dirs (ds : list bytes) : bytes :=
  match ds with
  | [] => []
  | d :: r =>
      match fields d with
      | name :: s1 :: more =>
          if equal_fold_const name (bs "script-src")
          then match first_nonce (s1 :: more) with
               | Some n => n                       (* break outer *)
               | None => parse_nonce_dirs r
               end
          else parse_nonce_dirs r
      | _ => parse_nonce_dirs r                    (* len(parts) < 2 *)
      end
  end.

(* parseNonce *)
Definition parse_nonce (csp : bytes) : bytes := parse_nonce_dirs (split_byte x3b csp []).

(* ------------------------------------------------------------------------------------------- *)
(* htmlfind.Element("body"): n.Type == html.ElementNode && n.Data == "body" *)
Definition is_body (n : node) : bool := (kind_of n =? K_element) && bytes_eqb (data_of n) (bs "body").

(* htmlfind.All: every matching node, in document (pre)order *)
Fixpoint find_all (p : node -> bool) (t : node) : list node :=
  match t with
  | Node k d n a c =>
      (if p t then [t] else []) ++
      (fix go (l : list node) : list node := match l with [] => [] | x :: r => find_all p x ++ go r end) c
  end.

(* html.Node.AppendChild *)
Definition append_child (s : node) (x : node) : node :=
  match x with Node k d n a c => Node k d n a (c ++ [s]) end.

(* bodyNodes[0].AppendChild(s): the tree with s appended to the first match in preorder; None when All is empty *)
Fixpoint append_first (p : node -> bool) (s : node) (t : node) : option node :=
  match t with
  | Node k d n a c =>
      if p t then Some (append_child s t)
      else option_map (Node k d n a)
             ((fix go (l : list node) : option (list node) :=
                 match l with
                 | [] => None
                 | x :: r => match append_first p s x with
                             | Some x' => Some (x' :: r)
                             | None => option_map (cons x) (go r)
                             end
                 end) c)
  end.

(* reloadScript(nonce) *)
Definition reload_script (nonce : bytes) : node :=
  Node K_element (bs "script") []
       (([], bs "src", bs "/_templ/reload/script.js") ::
        match nonce with [] => [] | _ => [([], bs "nonce", nonce)] end) [].

(* ------------------------------------------------------------------------------------------- *)
(* The response as modifyResponse and the client see it.  Header fields hold the value Header.Get returns
   ([] = absent).  [others] stands for every other header and is never touched. *)
Record response := { status : N; skip_hdr : bytes; ctype : bytes; cenc : bytes; csp : bytes;
                     clen : bytes; others : bytes; body : bytes }.

Definition set_skip (r : response) (v : bytes) : response :=
  {| status := status r; skip_hdr := v; ctype := ctype r; cenc := cenc r; csp := csp r;
     clen := clen r; others := others r; body := body r |}.
Definition set_body (r : response) (b : bytes) (cl : bytes) : response :=
  {| status := status r; skip_hdr := skip_hdr r; ctype := ctype r; cenc := cenc r; csp := csp r;
     clen := cl; others := others r; body := b |}.

(* modifyResponse returning an error makes httputil.ReverseProxy answer 502 Bad Gateway *)
Inductive outcome := Forward (r : response) | BadGateway.

Inductive enc := EId | EGzip | EBr | EOther.
(* switch r.Header.Get("Content-Encoding") { case "gzip": case "br": case "": default: } *)
Definition enc_of (ce : bytes) : enc :=
  if bytes_eqb ce (bs "gzip") then EGzip
  else if bytes_eqb ce (bs "br") then EBr
  else match ce with [] => EId | _ => EOther end.

(* len(buf), tail recursive so that it extracts to a loop *)
Fixpoint len_acc (s : bytes) (acc : N) : N :=
  match s with [] => acc | _ :: r => len_acc r (N.succ acc) end.

Section Proxy.
  (* library oracles *)
  Variable gunzip : bytes -> option bytes.      (* io.ReadAll(gzip.NewReader(b)); None = error *)
  Variable gzip : bytes -> bytes.               (* gzip.NewWriter: Write, Close *)
  Variable unbr : bytes -> option bytes.        (* io.ReadAll(brotli.NewReader(b)) *)
  Variable br : bytes -> bytes.                 (* brotli.NewWriter: Write, Close *)
  Variable parse : bytes -> node.               (* html.Parse (fails only when the reader fails) *)
  Variable render : node -> option bytes.       (* html.Render; None = error *)

  (* insertScriptTagIntoBody: None = an error was returned (body not found, render error) *)
  Definition insert_script (nonce : bytes) (doc : bytes) : option bytes :=
    match append_first is_body (reload_script nonce) (parse doc) with
    | None => None
    | Some t => render t
    end.

  Definition decode (e : enc) (b : bytes) : option bytes :=
    match e with EGzip => gunzip b | EBr => unbr b | _ => Some b end.
  Definition encode (e : enc) (b : bytes) : bytes :=
    match e with EGzip => gzip b | EBr => br b | _ => b end.

  (* modifyResponse *)
  Definition modify_response (r : response) : outcome :=
    if bytes_eqb (skip_hdr r) (bs "true") then Forward r
    else if negb (has_prefix (bs "text/html") (ctype r)) then Forward r
    else
      match enc_of (cenc r) with
      | EOther => Forward r                       (* warn; return nil *)
      | e =>
          match decode e (body r) with
          | None => BadGateway
          | Some d =>
              let updated := match insert_script (parse_nonce (csp r)) d with
                             | Some u => u
                             | None => d          (* warn; updated = string(body) *)
                             end in
              let out := encode e updated in
              Forward (set_body r out (dec (len_acc out 0)))
          end
      end.

  (* roundTripper.setShouldSkipResponseModificationHeader: hx = r.Header.Get("HX-Request") *)
  Definition mark (hx : bytes) (r : response) : response :=
    if bytes_eqb hx (bs "true") then set_skip r (bs "true") else r.

  (* what the client of the proxy receives for the backend's response r *)
  Definition proxy (hx : bytes) (r : response) : outcome := modify_response (mark hx r).

  (* what a browser decodes from a response, going by its Content-Encoding label *)
  Definition decoded (r : response) : option bytes :=
    match enc_of (cenc r) with EOther => None | e => decode e (body r) end.
End Proxy.
