(* MODEL side of C03, process level: a process that parses one script element after another - the elements of one
   file, then those of the next file (templ generate over a directory, templ generate --watch, templ fmt, the LSP).
   Definitions only (no proofs).

   parser/v2/scriptparser.go: `var scriptElement = scriptElementParser{}` is a value of an EMPTY struct type and
   `var stringLiteralDelimiter jsQuote` is declared inside Parse: the quote state is born outside any literal with
   every element and dies with it, whether Parse returns the element, an error (a malformed {{ }} expression, a comment
   or character error, "unclosed <script> element") or runs into the end of input.  [run_elements] threads the state
   explicitly so that this can be SAID: [carry] is what the next element starts with, given the state the loop was in
   when the previous element stopped; the code as it is corresponds to [fresh].  [leak_on_failure] is the variant in
   which the delimiter lives in a parser value shared by the process and is reset only when an element completes
   (kept to show that the statement of props/C03.v separates the two).

   An element is given as the parser meets it: its contents from the byte after the start tag up to the end of the
   input, i.e. with its end tag and whatever follows - or cut off (a file saved half-way).                        *)
From Coq.Strings Require Import Byte String.
From Coq Require Import List NArith Bool.
Import ListNotations.
From V Require Import lib.Bytes lib.Utf8 spec.JsLex spec.JsScript model.JsEsc model.JsTrack.

(* the state the loop is in when it stops reading [s] (at the end tag: KEnd; at the end of input: anything else) *)
Fixpoint tfinal (k : tst) (s : list sym) (n : nat) : tst :=
  match s with
  | [] => k
  | x :: r => tfinal (fst (tstep k (x :: r) n)) r (S n)
  end.

(* stringLiteralDelimiter in that state; an element that completed leaves none behind *)
Definition delim (k : tst) : option quote :=
  match k with
  | KChar d _ _ | KEsc d | KLineOpen d | KLine d | KBlockOpen d | KBlock d _ => d
  | KEnd => None
  end.

(* the verdicts on one element whose loop starts with delimiter [d] *)
Definition track_from (d : option quote) (s : list sym) : list fev := trun (KChar d true false) s 0.

Fixpoint run_elements (carry : tst -> option quote) (d : option quote) (els : list (list sym)) : list (list fev) :=
  match els with
  | [] => []
  | e :: r => track_from d e :: run_elements carry (carry (tfinal (KChar d true false) e 0)) r
  end.

(* the code as it is: a local variable, initialised by every call of Parse *)
Definition fresh (k : tst) : option quote := None.
(* a field of a shared parser value, reset only after the element's loop has finished *)
Definition leak_on_failure (k : tst) : option quote := delim k.

(* what a process that has parsed [before] says about the element it parses next *)
Definition verdict_after (carry : tst -> option quote) (before : list (list sym)) (e : list sym) : list fev :=
  nth (length before) (run_elements carry None (before ++ [e])) [].
