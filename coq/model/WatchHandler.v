(* C16 - model of what the watch-mode event handler keeps and writes for a template in development mode.
     cmd/templ/generatecmd/eventhandler.go: generate (the block  if h.devMode { ... })
         joined := strings.Join(generatorOutput.Literals, LF)
         txtHash := sha256.Sum256([]byte(joined))
         if h.UpsertHash(txtFileName, txtHash) { result.TextUpdated = true; os.WriteFile(txtFileName, joined) }
         previous := h.fileNameToOutput[fileName]
         if generator.HasChanged(previous, generatorOutput) { result.GoUpdated = true }
         h.fileNameToOutput[fileName] = generatorOutput
     cmd/templ/generatecmd/eventhandler.go: UpsertHash
         lastHash := h.hashes[fileName]; if lastHash == hash { return false }; h.hashes[fileName] = hash; return true
   The handler lives as long as the watch session: what it answers for an edit, and whether the text file the running
   program reads is rewritten, depends on every earlier event for the same template.
   Definitions only. *)
From Coq.Strings Require Import Byte String.
From Coq Require Import List Arith NArith Bool.
Import ListNotations.
From V Require Import lib.Bytes model.Quote model.WatchMode.

Section Handler.
Variable H : Type.                       (* [sha256.Size]byte *)
Variable hash : bytes -> H.              (* sha256.Sum256: an arbitrary function; the theorems say what they need of it *)
Variable zero : H.                       (* the zero array: what h.hashes[name] answers for a name it has never seen *)
Variable heqb : H -> H -> bool.          (* == on arrays *)
Variable S : Type.                       (* the type of GeneratorOutput.Skeleton, as in model/WatchMode.v *)
Variable skel_eqb : S -> S -> bool.

(* what the handler holds for ONE template, and the template's text file as it is on disk:
     h_hash  h.hashes[txtFileName]
     h_prev  h.fileNameToOutput[fileName]; None stands for the zero GeneratorOutput of a file never generated before
             (HasChanged(zero value, g) is true for every g the handler produces: it always sets a non-empty
             Options.FileName - the harness checks GoUpdated on every first generation)
     h_disk  the contents of txtFileName; None = no such file *)
Record hfile := { h_hash : H; h_prev : option (gen_output S); h_disk : option bytes }.
Definition h_new : hfile := {| h_hash := zero; h_prev := None; h_disk := None |}.

(* GenerateResult.GoUpdated and .TextUpdated *)
Record hresult := { r_go : bool; r_text : bool }.

(* one generation of one template.  [hashed] is the byte string the hash is taken of: strings.Join(Literals, LF)
   in the code (handle, below); the parameter is there for the regression lemma about hashing something else *)
Definition handle_by (hashed : list bytes -> bytes) (st : hfile) (g : gen_output S) : hfile * hresult :=
  let joined := text_file (g_literals g) in
  let hs := hash (hashed (g_literals g)) in
  let upd := negb (heqb (h_hash st) hs) in                                          (* UpsertHash *)
  let go := match h_prev st with None => true | Some p => has_changed skel_eqb p g end in
  ({| h_hash := if upd then hs else h_hash st;
      h_prev := Some g;
      h_disk := if upd then Some joined else h_disk st |},                        (* os.WriteFile only when upd *)
   {| r_go := go; r_text := upd |}).
Definition handle : hfile -> gen_output S -> hfile * hresult := handle_by text_file.

(* a session on one template: the generations in order; the answers in the same order *)
Fixpoint run1_by (hashed : list bytes -> bytes) (st : hfile) (gs : list (gen_output S)) : hfile * list hresult :=
  match gs with
  | [] => (st, [])
  | g :: r => let '(st1, a) := handle_by hashed st g in
              let '(st2, rs) := run1_by hashed st1 r in (st2, a :: rs)
  end.
Definition run1 : hfile -> list (gen_output S) -> hfile * list hresult := run1_by text_file.

(* ---------- several templates: both maps are keyed by the template (text file names are a hash of the template's
   path under a root that does not change during the session) ---------- *)
Variable K : Type.
Variable keqb : K -> K -> bool.
Definition hmap := K -> hfile.
Definition h_empty : hmap := fun _ => h_new.
Definition h_set (m : hmap) (k : K) (v : hfile) : hmap := fun k' => if keqb k k' then v else m k'.

(* HandleEvent for the template k whose generator output is g *)
Definition handle_event (m : hmap) (ev : K * gen_output S) : hmap * hresult :=
  let '(st, a) := handle (m (fst ev)) (snd ev) in (h_set m (fst ev) st, a).
Fixpoint run (m : hmap) (evs : list (K * gen_output S)) : hmap * list hresult :=
  match evs with
  | [] => (m, [])
  | ev :: r => let '(m1, a) := handle_event m ev in
               let '(m2, rs) := run m1 r in (m2, a :: rs)
  end.

(* the events of template k, and the answers given to them *)
Fixpoint events_of (k : K) (evs : list (K * gen_output S)) : list (gen_output S) :=
  match evs with
  | [] => []
  | ev :: r => if keqb (fst ev) k then snd ev :: events_of k r else events_of k r
  end.
Fixpoint answers_of (k : K) (evs : list (K * gen_output S)) (rs : list hresult) : list hresult :=
  match evs, rs with
  | ev :: r, a :: rs' => if keqb (fst ev) k then a :: answers_of k r rs' else answers_of k r rs'
  | _, _ => []
  end.
End Handler.

Arguments h_hash {H S} _.
Arguments h_prev {H S} _.
Arguments h_disk {H S} _.
Arguments Build_hfile {H S} _ _ _.

(* the instance the extracted model runs: the hash of a text is the text itself (no collision, never the zero value
   None); the harness checks on every session that sha256 has no collision and is not zero on the session's texts *)
Definition id_hash (b : bytes) : option bytes := Some b.
Definition oeqb (a b : option bytes) : bool :=
  match a, b with Some x, Some y => bytes_eqb x y | None, None => true | _, _ => false end.
