(* C02 on a fragment of the template language: what a template denotes, the generator as a function to IR
   statements (generator/generator.go: writeNode and the attribute writers, with the trailing-space rule),
   RangeWriter's merging of adjacent literals (generator/rangewriter.go: WriteStringLiteral/closeLiteral) as
   [coalesce], and the meaning of the generated statements [exec].  Definitions only; theorems are in
   proofs/IrFragProof.v.  The tie to the real generator (to_frag, print_frag) is model/IrFragPrint.v.

   Fragment: whitespace, text, string expressions (with errors), elements incl. void ones, raw elements, script
   elements with {{ }} parts, doctype, HTML comments, Go comments, raw Go code, if/else-if/else, switch, for,
   component calls with and without child blocks (templates of the file, hand-written components as opaque
   behaviours), the { children... } slot; attributes: constant, boolean-constant, boolean-expression, conditional,
   spread, and expression attributes of every sink (default, URL, style, on* script, class list).
   Go expressions are opaque: everything is parametric in the oracles of Section Sem (any expression semantics).
   Results carry the output, the evaluation trace and the error position; nothing runs after an error (the
   generated `if templ_7745c5c3_Err != nil { return ... }`).

   Children.  A child block is a lexical closure: its body, the environment and the children of the place where
   it was written.  A call hands its block to the callee directly.  In the generated code the hand-over goes
   through the context value (templ.WithChildren around the call, templ.GetChildren + templ.ClearChildren on entry
   of a generated template, `ctx = templ.ClearChildren(ctx)` after a block call); proofs/IrFragDenoteProof.v
   proves that the shared-slot semantics of spec/Denote.v coincides with this lexical one on the fragment. *)
From Coq.Strings Require Import Byte String.
From Coq Require Import List Arith NArith Bool.
Import ListNotations.
From V Require Import lib.Bytes model.Ast.
Local Open Scope nat_scope.

(* ---------- the fragment ---------- *)
Inductive fattr :=
| FBoolConst (n : bytes)                       (* <input disabled> *)
| FConst (n v : bytes)                         (* title="v" *)
| FBoolExpr (n : bytes) (e : expr)             (* disabled?={ e } *)
| FExpr (n : bytes) (e : expr)                 (* title={ e }  (default sink: JoinStringErrs + EscapeString) *)
| FUrl (n : bytes) (e : expr)                  (* <a href={ e }>, <form action={ e }>: templ.SafeURL, escaped *)
| FStyle (n : bytes) (e : expr)                (* style={ e }: SanitizeStyleAttributeValues, written as returned *)
| FScript (n : bytes) (e : expr)               (* onclick={ e }: hoisted RenderScriptItems, then e.Call *)
| FSpread (e : expr)                           (* { e... }: templ.RenderAttributes *)
| FClass (n : bytes) (e : expr)                (* class={ e }: hoisted by writeAttributesCSS *)
| FCond (e : expr) (th el : list fattr).       (* if e { ... } else { ... } *)
Inductive jpart := JText (v : bytes) | JGo (e : expr) (tr : bytes) (inside : bool).   (* <script> contents: text, {{ e }} + trailing text *)

Inductive nd :=
| Ws
| Text (v : bytes) (t : trailing)
| Str (e : expr) (t : trailing)
| Elem (name : bytes) (block void : bool) (attrs : list fattr) (ch : list nd) (t : trailing)
| Raw (name : bytes) (attrs : list fattr) (c : bytes)
| Script (attrs : list fattr) (parts : list jpart)
| Doc (v : bytes)
| Comment (c : bytes)
| GoComment
| GoCode (e : expr)
| If (c : expr) (th : list nd) (elifs : list (expr * list nd)) (haselse : bool) (el : list nd)
| Switch (e : expr) (cases : list (expr * list nd))
| For (e : expr) (body : list nd)
| Call (e : expr)                              (* @e  /  {! e } *)
| CallB (e : expr) (ch : list nd)              (* @e { ch } *)
| Children.                                    (* { children... } *)

(* ---------- generated statements ---------- *)
Inductive sink := SkDefault | SkUrl | SkStyle | SkScript.
Inductive stmt :=
| SLit (s : bytes)                             (* part of a templruntime.WriteString literal *)
| SExpr (e : expr)                             (* string expression node *)
| SAttrV (k : sink) (elem n : bytes) (e : expr) (* expression attribute value; the sink is chosen from (elem, n) *)
| SSpread (e : expr)                           (* templ.RenderAttributes(ctx, buf, e) *)
| SClassHoist (e : expr)                       (* var v = []any{e}; RenderCSSItems(ctx, buf, v...) *)
| SClassUse (e : expr)                         (* templ.CSSClasses(v).String(), escaped *)
| SScriptHoist (es : list expr)                (* templ.RenderScriptItems(ctx, buf, e1, e2, ...) *)
| SJs (inside : bool) (e : expr)               (* ScriptContentInside/OutsideStringLiteral(e) *)
| SGo (e : expr)                               (* raw Go code *)
| SIf (c : expr) (th : list stmt) (elifs : list (expr * list stmt)) (haselse : bool) (el : list stmt)
| SSwitch (e : expr) (cases : list (expr * list stmt))
| SFor (e : expr) (body : list stmt)
| SCall (e : expr)                             (* e.Render(ctx, buffer) *)
| SCallB (e : expr) (body : list stmt)         (* v := GeneratedTemplate(func ... body); e.Render(templ.WithChildren(ctx, v), buffer); ctx = templ.ClearChildren(ctx) *)
| SChildren.                                   (* the children variable .Render(ctx, buffer) *)

(* ---------- results: output, evaluation trace, error position ---------- *)
Inductive evk := KStr | KBool | KFor | KSwitch | KCall | KGo | KClass | KUrl | KStyle | KScript | KSpread | KJs.
Notation event := (evk * expr)%type.
Notation epos := (N * N)%type.
Notation res := (bytes * list event * option epos)%type.
Definition unit_r : res := ([], [], None).
Definition lit (s : bytes) : res := (s, [], None).
Definition evt (k : evk) (e : expr) : res := ([], [(k, e)], None).
Definition fail (p : epos) : res := ([], [], Some p).
Definition fail0 : res := fail (0%N, 0%N).
(* sequencing: b does not run when a failed *)
Definition andthen (a b : res) : res :=
  match a with
  | (o, t, Some p) => (o, t, Some p)
  | (o, t, None) => match b with (o', t', p') => (o ++ o', t ++ t', p') end
  end.
Definition out_of (r : res) : bytes := fst (fst r).
Definition trace_of (r : res) : list event := snd (fst r).
Definition err_of (r : res) : option epos := snd r.
(* templ.Error{Line: e.Range.To.Line + 1, Col: e.Range.To.Col} *)
Definition epos_of (e : expr) : epos := (N.succ (e_tl e), e_tc e).

(* list combinators; the element function is bound outside the fix so that nested recursion is accepted *)
Definition next_of {A} (r : list A) (next : option A) : option A := match r with y :: _ => Some y | [] => next end.
Definition seq_list {A} (f : A -> res) : list A -> res :=
  fix go (l : list A) : res := match l with [] => unit_r | c :: r => andthen (f c) (go r) end.
Definition seq_nodes {A} (f : A -> option A -> res) : list A -> option A -> res :=
  fix go (l : list A) (next : option A) : res :=
    match l with [] => unit_r | c :: r => andthen (f c (next_of r next)) (go r next) end.
Definition gen_nodes {A B} (f : A -> option A -> list B) : list A -> option A -> list B :=
  fix go (l : list A) (next : option A) : list B :=
    match l with [] => [] | c :: r => f c (next_of r next) ++ go r next end.
Definition is_nil {A} (l : list A) : bool := match l with [] => true | _ => false end.
Fixpoint find {A} (t : list (bytes * A)) (k : bytes) : option A :=
  match t with [] => None | (k', v) :: r => if bytes_eqb k k' then Some v else find r k end.

(* ---------- whitespace rule (writeNode: isInlineOrText, writeWhitespaceTrailer) ---------- *)
Definition inline (n : option nd) : bool :=
  match n with
  | Some (If _ _ _ _ _) | Some (Switch _ _) | Some (For _ _) | Some (Text _ _) | Some (Str _ _) => true
  | Some (Elem _ block _ _ _ _) => negb block
  | _ => false end.
Definition trail_of (n : nd) : option trailing :=
  match n with Text _ t | Str _ t | Elem _ _ _ _ _ t => Some t | _ => None end.
Definition trailer (n : nd) (next : option nd) : bytes :=
  match trail_of n with
  | Some SpNone | None => []
  | Some _ => if inline (Some n) && inline next then [x20] else [] end.

(* ---------- the hoisted attribute kinds ---------- *)
Fixpoint class_exprs (a : fattr) : list expr :=
  match a with
  | FClass _ e => [e]
  | FCond _ th el => flat_map class_exprs th ++ flat_map class_exprs el
  | _ => [] end.
Fixpoint script_exprs (a : fattr) : list expr :=
  match a with
  | FScript _ e => [e]
  | FCond _ th el => flat_map script_exprs th ++ flat_map script_exprs el
  | _ => [] end.

(* what a called component is: a template of the file, or a hand-written component as an opaque behaviour *)
Inductive ckind :=
| KTempl (name : bytes)      (* generated template of the file *)
| KWrap (o c : bytes)        (* writes o, renders the children it was given, writes c *)
| KOpaque (s : bytes)        (* writes s and never looks at its children (ignore(), templ.Raw(s)) *)
| KNop                       (* templ.NopComponent *)
| KUnknown.

(* the expression semantics: everything below is parametric in these oracles *)
Record oracles (E : Type) := Oracles {          (* E: environments - argument values, loop variables *)
  o_escape : bytes -> bytes;                    (* html.EscapeString / templ.EscapeString *)
  o_str : E -> expr -> option bytes;            (* templ.JoinStringErrs(e): None = the expression returned an error *)
  o_bool : E -> expr -> bool;
  o_for : E -> expr -> list E;                  (* one environment per iteration *)
  o_sw : E -> expr -> nat;                      (* index of the selected case; >= number of cases: none *)
  o_class : E -> expr -> bytes;                 (* templ.CSSClasses(items).String() *)
  o_css_defs : E -> expr -> bytes;              (* what RenderCSSItems writes for the items (style elements, once per context: C12) *)
  o_url : E -> expr -> bytes;                   (* string(templ.SafeURL value) *)
  o_style : E -> expr -> option bytes;          (* templruntime.SanitizeStyleAttributeValues(e): already escaped; None = error *)
  o_script_call : E -> expr -> bytes;           (* templ.ComponentScript value .Call *)
  o_script_defs : E -> list expr -> bytes;      (* what RenderScriptItems writes for the scripts (once per context: C12) *)
  o_spread : E -> expr -> bytes;                (* what templ.RenderAttributes writes for the map (C01) *)
  o_js : E -> bool -> expr -> option bytes;     (* templruntime.ScriptContentInside/OutsideStringLiteral(e) (C03); None = error *)
  o_comp : expr -> ckind;                       (* which component a call expression names *)
  o_call_env : E -> expr -> E                   (* the callee's environment: its parameters bound to the arguments *)
}.
Arguments o_escape {E}. Arguments o_str {E}. Arguments o_bool {E}. Arguments o_for {E}. Arguments o_sw {E}.
Arguments o_class {E}. Arguments o_css_defs {E}. Arguments o_url {E}. Arguments o_style {E}. Arguments o_script_call {E}.
Arguments o_script_defs {E}. Arguments o_spread {E}. Arguments o_js {E}. Arguments o_comp {E}. Arguments o_call_env {E}.

Section Sem.
Variable E : Type.
Variable orc : oracles E.
Variable tc : bool.                                 (* whether the trace records the HOISTED evaluations: class lists, and the
                                                       evaluation of on* expressions for RenderScriptItems *)
Notation escape := (o_escape orc).
Notation eval_str := (o_str orc).
Notation eval_bool := (o_bool orc).
Notation eval_for := (o_for orc).
Notation eval_sw := (o_sw orc).
Notation eval_class := (o_class orc).
Notation eval_css_defs := (o_css_defs orc).
Notation eval_url := (o_url orc).
Notation eval_style := (o_style orc).
Notation eval_script_call := (o_script_call orc).
Notation eval_script_defs := (o_script_defs orc).
Notation eval_spread := (o_spread orc).
Notation eval_js := (o_js orc).
Notation comp_of := (o_comp orc).
Notation call_env := (o_call_env orc).

(* child blocks: lexical closures *)
Inductive dblock := DBlk (body : list nd) (cap : E) (kids : option dblock).
Inductive xblock := XBlk (body : list stmt) (cap : E) (kids : option xblock).

Definition val_or_err (k : evk) (e : expr) (v : option bytes) : res :=
  match v with
  | Some s => (s, [(k, e)], None)
  | None => ([], [(k, e)], Some (epos_of e)) end.
Definition str_val (env : E) (e : expr) : res := val_or_err KStr e (option_map escape (eval_str env e)).
Definition class_ev (e : expr) : list event := if tc then [(KClass, e)] else [].
Definition hoist_ev (es : list expr) : list event := if tc then map (fun e => (KScript, e)) es else [].
(* the value of an expression attribute, by sink *)
Definition sink_val (k : sink) (env : E) (e : expr) : res :=
  match k with
  | SkDefault => str_val env e
  | SkUrl => (escape (eval_url env e), [(KUrl, e)], None)
  | SkStyle => val_or_err KStyle e (eval_style env e)
  | SkScript => (eval_script_call env e, [(KScript, e)], None)
  end.
Definition js_val (env : E) (inside : bool) (e : expr) : res := val_or_err KJs e (eval_js env inside e).
Definition script_defs (env : E) (es : list expr) : res :=
  match es with [] => unit_r | _ => lit (eval_script_defs env es) end.

Definition chain {B} (env : E) (f : B -> res) : list (expr * B) -> res -> res :=
  fix go (l : list (expr * B)) (el : res) : res :=
    match l with
    | [] => el
    | p :: r => let '(c, b) := p in andthen (evt KBool c) (if eval_bool env c then f b else go r el) end.
Definition pick {B} (f : B -> res) : list (expr * B) -> nat -> res :=
  fix go (l : list (expr * B)) (i : nat) : res :=
    match l with
    | [] => unit_r
    | p :: r => let '(_, b) := p in match i with O => f b | S j => go r j end end.

(* ---------- specification: what the template denotes ---------- *)
Definition attr_open (n : bytes) : bytes := [x20] ++ escape n ++ [x3d; x22].
Definition expr_attr (n : bytes) (v : res) : res := andthen (lit (attr_open n)) (andthen v (lit [x22])).
Fixpoint dattr (env : E) (a : fattr) : res :=
  match a with
  | FBoolConst n => lit ([x20] ++ escape n)
  | FConst n v => lit (attr_open n ++ escape v ++ [x22])
  | FBoolExpr n e => andthen (evt KBool e) (if eval_bool env e then lit ([x20] ++ escape n) else unit_r)
  | FExpr n e => expr_attr n (sink_val SkDefault env e)
  | FUrl n e => expr_attr n (sink_val SkUrl env e)
  | FStyle n e => expr_attr n (sink_val SkStyle env e)
  | FScript n e => expr_attr n (sink_val SkScript env e)
  | FSpread e => (eval_spread env e, [(KSpread, e)], None)
  | FClass n e => expr_attr n (escape (eval_class env e), class_ev e, None)
  | FCond e th el => andthen (evt KBool e) (if eval_bool env e then seq_list (dattr env) th else seq_list (dattr env) el)
  end.
Definition dattrs (env : E) (l : list fattr) : res := seq_list (dattr env) l.
Definition open_tag (name : bytes) : bytes := [x3c] ++ escape name.
Definition close_tag (name : bytes) : bytes := [x3c; x2f] ++ escape name ++ [x3e].
(* in front of an element: the definitions its class lists and scripts need (what they are is C12's subject) *)
Definition css_defs (env : E) (attrs : list fattr) : res :=
  seq_list (fun e => lit (eval_css_defs env e)) (flat_map class_exprs attrs).
Definition scripts_defs (env : E) (attrs : list fattr) : res := script_defs env (flat_map script_exprs attrs).
Definition dpart (env : E) (p : jpart) : res :=
  match p with
  | JText v => lit v
  | JGo e tr inside => andthen (js_val env inside e) (lit tr) end.

Section WithCall.
Variable dcall : E -> expr -> option dblock -> res.   (* what a call renders, given the block it was handed *)
Variable dblk : option dblock -> res.                 (* what a child block renders *)

Fixpoint denote (env : E) (kids : option dblock) (n : nd) (next : option nd) {struct n} : res :=
  andthen
   (match n with
    | Ws => lit [x20]
    | Text v _ => lit v
    | Str e _ => str_val env e
    | Elem name _ void attrs ch _ =>
        andthen (css_defs env attrs) (andthen (scripts_defs env attrs)
        (andthen (lit (open_tag name)) (andthen (dattrs env attrs) (andthen (lit [x3e])
          (if void && is_nil ch then unit_r
           else andthen (seq_nodes (fun c nx => denote env kids c nx) ch None) (lit (close_tag name)))))))
    | Raw name attrs c =>
        andthen (scripts_defs env attrs)
        (andthen (lit (open_tag name)) (andthen (dattrs env attrs) (lit ([x3e] ++ c ++ close_tag name))))
    | Script attrs parts =>
        andthen (scripts_defs env attrs)
        (andthen (lit (open_tag (bs "script"))) (andthen (dattrs env attrs) (andthen (lit [x3e])
          (andthen (seq_list (dpart env) parts) (lit (close_tag (bs "script")))))))
    | Doc v => lit (bs "<!doctype " ++ v ++ [x3e])
    | Comment c => lit (bs "<!--" ++ c ++ bs "-->")
    | GoComment => unit_r
    | GoCode e => evt KGo e
    | If c th elifs _ el =>
        andthen (evt KBool c)
          (if eval_bool env c then seq_nodes (fun c nx => denote env kids c nx) th next
           else chain env (fun b => seq_nodes (fun c nx => denote env kids c nx) b next) elifs
                      (seq_nodes (fun c nx => denote env kids c nx) el next))
    | Switch e cases =>
        andthen (evt KSwitch e) (pick (fun b => seq_nodes (fun c nx => denote env kids c nx) b next) cases (eval_sw env e))
    | For e body =>
        andthen (evt KFor e) (seq_list (fun env' => seq_nodes (fun c nx => denote env' kids c nx) body next) (eval_for env e))
    | Call e => andthen (evt KCall e) (dcall env e None)
    | CallB e ch => andthen (evt KCall e) (dcall env e (Some (DBlk ch env kids)))
    | Children => dblk kids
    end)
   (lit (trailer n next)).
Definition denotes (env : E) (kids : option dblock) (l : list nd) (next : option nd) : res :=
  seq_nodes (fun c nx => denote env kids c nx) l next.
End WithCall.

(* ---------- meaning of the generated statements ---------- *)
Section WithCallX.
Variable xcall : E -> expr -> option xblock -> res.
Variable xblk : option xblock -> res.
Fixpoint exec1 (env : E) (kids : option xblock) (s : stmt) {struct s} : res :=
  match s with
  | SLit a => lit a
  | SExpr e => str_val env e
  | SAttrV k _ _ e => sink_val k env e
  | SSpread e => (eval_spread env e, [(KSpread, e)], None)
  | SClassHoist e => (eval_css_defs env e, class_ev e, None)
  | SClassUse e => lit (escape (eval_class env e))
  | SScriptHoist es => (eval_script_defs env es, hoist_ev es, None)
  | SJs inside e => js_val env inside e
  | SGo e => evt KGo e
  | SIf c th elifs _ el =>
      andthen (evt KBool c)
        (if eval_bool env c then seq_list (fun s => exec1 env kids s) th
         else chain env (seq_list (fun s => exec1 env kids s)) elifs (seq_list (fun s => exec1 env kids s) el))
  | SSwitch e cases => andthen (evt KSwitch e) (pick (seq_list (fun s => exec1 env kids s)) cases (eval_sw env e))
  | SFor e b => andthen (evt KFor e) (seq_list (fun env' => seq_list (fun s => exec1 env' kids s) b) (eval_for env e))
  | SCall e => andthen (evt KCall e) (xcall env e None)
  | SCallB e b => andthen (evt KCall e) (xcall env e (Some (XBlk b env kids)))
  | SChildren => xblk kids
  end.
Definition exec (env : E) (kids : option xblock) (p : list stmt) : res := seq_list (fun s => exec1 env kids s) p.
End WithCallX.

(* ---------- the generator: statements with literal pieces ---------- *)
(* writeAttributesCSS: class expressions, also those under conditional attributes, are evaluated in front of the element *)
Definition hoist (a : fattr) : list stmt := map SClassHoist (class_exprs a).
(* writeElementScript: one RenderScriptItems call over every on* expression of the element, also those under conditionals *)
Definition ghoist_scripts (attrs : list fattr) : list stmt :=
  match flat_map script_exprs attrs with [] => [] | es => [SScriptHoist es] end.
Definition gexpr_attr (n : bytes) (v : stmt) : list stmt := [SLit (attr_open n); v; SLit [x22]].
Fixpoint gattr (elem : bytes) (a : fattr) : list stmt :=
  match a with
  | FBoolConst n => [SLit ([x20] ++ escape n)]
  | FConst n v => [SLit (attr_open n ++ escape v ++ [x22])]
  | FBoolExpr n e => [SIf e [SLit ([x20] ++ escape n)] [] false []]
  | FExpr n e => gexpr_attr n (SAttrV SkDefault elem n e)
  | FUrl n e => gexpr_attr n (SAttrV SkUrl elem n e)
  | FStyle n e => gexpr_attr n (SAttrV SkStyle elem n e)
  | FScript n e => gexpr_attr n (SAttrV SkScript elem n e)
  | FSpread e => [SSpread e]
  | FClass n e => gexpr_attr n (SClassUse e)
  | FCond e th el => [SIf e (flat_map (gattr elem) th) [] (negb (is_nil el)) (flat_map (gattr elem) el)]
  end.
Definition gattrs (elem : bytes) (l : list fattr) : list stmt := flat_map (gattr elem) l.
Definition glit (s : bytes) : list stmt := match s with [] => [] | _ => [SLit s] end.
Definition gpart (p : jpart) : list stmt :=
  match p with
  | JText v => glit v
  | JGo e tr inside => SJs inside e :: glit tr end.

Fixpoint gen (n : nd) (next : option nd) {struct n} : list stmt :=
  (match n with
   | Ws => [SLit [x20]]
   | Text v _ => [SLit v]
   | Str e _ => [SExpr e]
   | Elem name _ void attrs ch _ =>
       flat_map hoist attrs ++ ghoist_scripts attrs ++ [SLit (open_tag name)] ++ gattrs name attrs ++ [SLit [x3e]] ++
       (if void && is_nil ch then [] else gen_nodes gen ch None ++ [SLit (close_tag name)])
   | Raw name attrs c =>
       ghoist_scripts attrs ++ [SLit (open_tag name)] ++ gattrs name attrs ++ [SLit [x3e]; SLit c; SLit (close_tag name)]
   | Script attrs parts =>
       ghoist_scripts attrs ++ [SLit (open_tag (bs "script"))] ++ gattrs (bs "script") attrs ++ [SLit [x3e]] ++
       flat_map gpart parts ++ [SLit (close_tag (bs "script"))]
   | Doc v => [SLit (bs "<!doctype " ++ v ++ [x3e])]
   | Comment c => [SLit (bs "<!--"); SLit c; SLit (bs "-->")]
   | GoComment => []
   | GoCode e => [SGo e]
   | If c th elifs he el =>
       [SIf c (gen_nodes gen th next) (map (fun p => let '(c', b) := p in (c', gen_nodes gen b next)) elifs) he (gen_nodes gen el next)]
   | Switch e cases => [SSwitch e (map (fun p => let '(c', b) := p in (c', gen_nodes gen b next)) cases)]
   | For e body => [SFor e (gen_nodes gen body next)]
   | Call e => [SCall e]
   | CallB e ch => [SCallB e (gen_nodes gen ch None)]
   | Children => [SChildren]
   end) ++ glit (trailer n next).
Definition gens (l : list nd) (next : option nd) : list stmt := gen_nodes gen l next.

(* ---------- RangeWriter: adjacent literals merge into one WriteString; never across a block boundary ---------- *)
Definition push (x : stmt) (acc : list stmt) : list stmt :=
  match x, acc with SLit a, SLit b :: r => SLit (a ++ b) :: r | _, _ => x :: acc end.
Definition coal_with (f : stmt -> stmt) : list stmt -> list stmt :=
  fix go (l : list stmt) : list stmt := match l with [] => [] | x :: r => push (f x) (go r) end.
Fixpoint cst (s : stmt) : stmt :=
  match s with
  | SIf c th elifs he el =>
      SIf c (coal_with cst th) (map (fun p => let '(c', b) := p in (c', coal_with cst b)) elifs) he (coal_with cst el)
  | SSwitch e cases => SSwitch e (map (fun p => let '(c', b) := p in (c', coal_with cst b)) cases)
  | SFor e b => SFor e (coal_with cst b)
  | SCallB e b => SCallB e (coal_with cst b)
  | x => x end.
Definition coalesce (p : list stmt) : list stmt := coal_with cst p.

(* ---------- files: a table of templates; calls and child blocks recurse on fuel ---------- *)
Fixpoint call_x (tbl : list (bytes * list stmt)) (fuel : nat) (env : E) (e : expr) (blk : option xblock) {struct fuel} : res :=
  match fuel with
  | O => fail0
  | S f =>
      match comp_of e with
      | KTempl name => match find tbl name with
                       | Some body => exec (call_x tbl f) (blk_x tbl f) (call_env env e) blk body   (* the callee takes the block as its children *)
                       | None => fail0 end
      | KWrap o c => andthen (lit o) (andthen (blk_x tbl f blk) (lit c))
      | KOpaque s => lit s
      | KNop => unit_r
      | KUnknown => fail0
      end
  end
with blk_x (tbl : list (bytes * list stmt)) (fuel : nat) (blk : option xblock) {struct fuel} : res :=
  match fuel with
  | O => match blk with None => unit_r | Some _ => fail0 end
  | S f => match blk with
           | None => unit_r
           | Some (XBlk body cap k) => exec (call_x tbl f) (blk_x tbl f) cap k body   (* lexical: captured environment and children *)
           end
  end.
Definition exec_f (tbl : list (bytes * list stmt)) (fuel : nat) (env : E) (kids : option xblock) (p : list stmt) : res :=
  exec (call_x tbl fuel) (blk_x tbl fuel) env kids p.
Fixpoint call_d (tbl : list (bytes * list nd)) (fuel : nat) (env : E) (e : expr) (blk : option dblock) {struct fuel} : res :=
  match fuel with
  | O => fail0
  | S f =>
      match comp_of e with
      | KTempl name => match find tbl name with
                       | Some body => denotes (call_d tbl f) (blk_d tbl f) (call_env env e) blk body None
                       | None => fail0 end
      | KWrap o c => andthen (lit o) (andthen (blk_d tbl f blk) (lit c))
      | KOpaque s => lit s
      | KNop => unit_r
      | KUnknown => fail0
      end
  end
with blk_d (tbl : list (bytes * list nd)) (fuel : nat) (blk : option dblock) {struct fuel} : res :=
  match fuel with
  | O => match blk with None => unit_r | Some _ => fail0 end
  | S f => match blk with
           | None => unit_r
           | Some (DBlk body cap k) => denotes (call_d tbl f) (blk_d tbl f) cap k body None
           end
  end.
Definition denote_f (tbl : list (bytes * list nd)) (fuel : nat) (env : E) (kids : option dblock) (l : list nd) (next : option nd) : res :=
  denotes (call_d tbl fuel) (blk_d tbl fuel) env kids l next.
(* the generated file: every template body generated (raw), and with its literals merged (compile) *)
Definition compile_raw (tbl : list (bytes * list nd)) : list (bytes * list stmt) :=
  map (fun p => let '(k, b) := p in (k, gens b None)) tbl.
Definition compile (tbl : list (bytes * list nd)) : list (bytes * list stmt) :=
  map (fun p => let '(k, b) := p in (k, coalesce (gens b None))) tbl.
(* the generated form of a child block *)
Fixpoint compile_blk (b : dblock) : xblock :=
  match b with
  | DBlk body cap k => XBlk (coalesce (gens body None)) cap (match k with Some k' => Some (compile_blk k') | None => None end)
  end.
End Sem.
Arguments DBlk {E}.
Arguments XBlk {E}.
Arguments exec1 {E}. Arguments exec {E}. Arguments denote {E}. Arguments denotes {E}. Arguments dattr {E}. Arguments dattrs {E}.
Arguments sink_val {E}. Arguments str_val {E}. Arguments js_val {E}. Arguments chain {E} orc {B}. Arguments call_x {E}. Arguments blk_x {E}.
Arguments call_d {E}. Arguments blk_d {E}. Arguments exec_f {E}. Arguments denote_f {E}. Arguments compile_blk {E}. Arguments expr_attr {E}.
Arguments css_defs {E}. Arguments scripts_defs {E}. Arguments script_defs {E}. Arguments dpart {E}. Arguments attr_open {E}. Arguments open_tag {E}.
Arguments close_tag {E}. Arguments gexpr_attr {E}.
Arguments gen {E}. Arguments gens {E}. Arguments gattr {E}. Arguments gattrs {E}. Arguments compile {E}. Arguments compile_raw {E}.

(* ---------- the hoisted kinds (class lists, on* scripts) ---------- *)
Fixpoint attr_hoisted (a : fattr) : bool :=
  match a with
  | FClass _ _ | FScript _ _ => true
  | FCond _ th el => existsb attr_hoisted th || existsb attr_hoisted el
  | _ => false end.
Definition cases_all {B} (f : B -> bool) (l : list (expr * B)) : bool := forallb (fun p => let '(_, b) := p in f b) l.
Fixpoint hoist_free (n : nd) : bool :=
  match n with
  | Elem _ _ _ attrs ch _ => negb (existsb attr_hoisted attrs) && forallb hoist_free ch
  | Raw _ attrs _ => negb (existsb attr_hoisted attrs)
  | Script attrs _ => negb (existsb attr_hoisted attrs)
  | If _ th elifs _ el => forallb hoist_free th && cases_all (forallb hoist_free) elifs && forallb hoist_free el
  | Switch _ cases => cases_all (forallb hoist_free) cases
  | For _ body => forallb hoist_free body
  | CallB _ ch => forallb hoist_free ch
  | _ => true end.
Definition tbl_hoist_free (tbl : list (bytes * list nd)) : bool :=
  forallb (fun p => let '(_, b) := p in forallb hoist_free b) tbl.
Fixpoint blk_hoist_free {E} (b : dblock E) : bool :=
  match b with DBlk body _ k => forallb hoist_free body && match k with Some k' => blk_hoist_free k' | None => true end end.

(* ---------- static markup: nodes without any Go expression, and the bytes they stand for ---------- *)
Section Static.
Variable escape : bytes -> bytes.
Definition static_attr (a : fattr) : option bytes :=
  match a with
  | FBoolConst n => Some ([x20] ++ escape n)
  | FConst n v => Some (([x20] ++ escape n ++ [x3d; x22]) ++ escape v ++ [x22])
  | _ => None end.
Definition sopen (name : bytes) : bytes := [x3c] ++ escape name.
Definition sclose (name : bytes) : bytes := [x3c; x2f] ++ escape name ++ [x3e].
Fixpoint static_attrs (l : list fattr) : option bytes :=
  match l with
  | [] => Some []
  | a :: r => match static_attr a, static_attrs r with Some x, Some y => Some (x ++ y) | _, _ => None end end.
Definition static_nodes (f : nd -> option nd -> option bytes) : list nd -> option nd -> option bytes :=
  fix go (l : list nd) (next : option nd) : option bytes :=
    match l with
    | [] => Some []
    | c :: r => match f c (next_of r next), go r next with Some x, Some y => Some (x ++ y) | _, _ => None end end.
Fixpoint static_node (n : nd) (next : option nd) {struct n} : option bytes :=
  option_map (fun b => b ++ trailer n next)
   (match n with
    | Ws => Some [x20]
    | Text v _ => Some v
    | Doc v => Some (bs "<!doctype " ++ v ++ [x3e])
    | Comment c => Some (bs "<!--" ++ c ++ bs "-->")
    | GoComment => Some []
    | Elem name _ void attrs ch _ =>
        match static_attrs attrs, static_nodes static_node ch None with
        | Some a, Some c => Some (sopen name ++ a ++ [x3e] ++ (if void && is_nil ch then [] else c ++ sclose name))
        | _, _ => None end
    | Raw name attrs c =>
        match static_attrs attrs with
        | Some a => Some (sopen name ++ a ++ [x3e] ++ c ++ sclose name)
        | None => None end
    | _ => None end).
(* the bytes of a static node list: each node's bytes in source order, with the trailing-space rule between them *)
Definition static_render (l : list nd) (next : option nd) : option bytes := static_nodes static_node l next.
End Static.
