(* C02 on a fragment of the template language: what a template denotes, the generator as a function to IR
   statements (generator/generator.go: writeNode and the attribute writers, with the trailing-space rule),
   RangeWriter's merging of adjacent literals (generator/rangewriter.go: WriteStringLiteral/closeLiteral) as
   [coalesce], and the meaning of the generated statements [exec].  Definitions only; theorems are in
   proofs/IrFragProof.v.  The tie to the real generator (to_frag, print_frag) is model/IrFragPrint.v.

   Fragment: whitespace, text, string expressions (with errors), elements incl. void ones with constant,
   boolean-constant, string-expression, boolean-expression, class-expression and conditional attributes, raw
   elements, doctype, HTML comments, Go comments, raw Go code, if/else-if/else, switch, for, calls (without
   blocks) of other templates of the file.  Go expressions are opaque: everything is parametric in the oracles
   of Section Sem (any expression semantics).  Results carry the output, the evaluation trace and the error
   position; nothing runs after an error (the generated `if templ_7745c5c3_Err != nil { return ... }`). *)
From Coq.Strings Require Import Byte String.
From Coq Require Import List Arith NArith Bool.
Import ListNotations.
From V Require Import lib.Bytes model.Ast.
Local Open Scope nat_scope.

(* ---------- the fragment ---------- *)
Inductive fattr :=
| FBoolConst (n : bytes)                       (* <input disabled> *)
| FConst (n v : bytes)                         (* title="v" *)
| FBoolExpr (n : bytes) (e : expr)             (* disabled?={ e } *)
| FExpr (n : bytes) (e : expr)                 (* title={ e }  (default sink: JoinStringErrs + EscapeString) *)
| FClass (n : bytes) (e : expr)                (* class={ e }: hoisted by writeAttributesCSS *)
| FCond (e : expr) (th el : list fattr).       (* if e { ... } else { ... } *)

Inductive nd :=
| Ws
| Text (v : bytes) (t : trailing)
| Str (e : expr) (t : trailing)
| Elem (name : bytes) (block void : bool) (attrs : list fattr) (ch : list nd) (t : trailing)
| Raw (name : bytes) (attrs : list fattr) (c : bytes)
| Doc (v : bytes)
| Comment (c : bytes)
| GoComment
| GoCode (e : expr)
| If (c : expr) (th : list nd) (elifs : list (expr * list nd)) (haselse : bool) (el : list nd)
| Switch (e : expr) (cases : list (expr * list nd))
| For (e : expr) (body : list nd)
| Call (e : expr).

(* ---------- generated statements ---------- *)
Inductive stmt :=
| SLit (s : bytes)                             (* part of a templruntime.WriteString literal *)
| SExpr (e : expr)                             (* string expression node *)
| SAttrV (elem n : bytes) (e : expr)           (* expression attribute value, default sink *)
| SClassHoist (e : expr)                       (* var v = []any{e}; RenderCSSItems(ctx, buf, v...) *)
| SClassUse (e : expr)                         (* templ.CSSClasses(v).String(), escaped *)
| SGo (e : expr)                               (* raw Go code *)
| SIf (c : expr) (th : list stmt) (elifs : list (expr * list stmt)) (haselse : bool) (el : list stmt)
| SSwitch (e : expr) (cases : list (expr * list stmt))
| SFor (e : expr) (body : list stmt)
| SCall (e : expr).                            (* e.Render(ctx, buffer) *)

(* ---------- results: output, evaluation trace, error position ---------- *)
Inductive evk := KStr | KBool | KFor | KSwitch | KCall | KGo | KClass.
Notation event := (evk * expr)%type.
Notation epos := (N * N)%type.
Notation res := (bytes * list event * option epos)%type.
Definition unit_r : res := ([], [], None).
Definition lit (s : bytes) : res := (s, [], None).
Definition evt (k : evk) (e : expr) : res := ([], [(k, e)], None).
Definition fail (p : epos) : res := ([], [], Some p).
Definition fail0 : res := fail (0%N, 0%N).
(* sequencing: b does not run when a failed *)
Definition andthen (a b : res) : res :=
  match a with
  | (o, t, Some p) => (o, t, Some p)
  | (o, t, None) => match b with (o', t', p') => (o ++ o', t ++ t', p') end
  end.
Definition out_of (r : res) : bytes := fst (fst r).
Definition trace_of (r : res) : list event := snd (fst r).
Definition err_of (r : res) : option epos := snd r.
(* templ.Error{Line: e.Range.To.Line + 1, Col: e.Range.To.Col} *)
Definition epos_of (e : expr) : epos := (N.succ (e_tl e), e_tc e).

(* list combinators; the element function is bound outside the fix so that nested recursion is accepted *)
Definition next_of {A} (r : list A) (next : option A) : option A := match r with y :: _ => Some y | [] => next end.
Definition seq_list {A} (f : A -> res) : list A -> res :=
  fix go (l : list A) : res := match l with [] => unit_r | c :: r => andthen (f c) (go r) end.
Definition seq_nodes {A} (f : A -> option A -> res) : list A -> option A -> res :=
  fix go (l : list A) (next : option A) : res :=
    match l with [] => unit_r | c :: r => andthen (f c (next_of r next)) (go r next) end.
Definition gen_nodes {A B} (f : A -> option A -> list B) : list A -> option A -> list B :=
  fix go (l : list A) (next : option A) : list B :=
    match l with [] => [] | c :: r => f c (next_of r next) ++ go r next end.
Definition is_nil {A} (l : list A) : bool := match l with [] => true | _ => false end.
Fixpoint find {A} (t : list (bytes * A)) (k : bytes) : option A :=
  match t with [] => None | (k', v) :: r => if bytes_eqb k k' then Some v else find r k end.

(* ---------- whitespace rule (writeNode: isInlineOrText, writeWhitespaceTrailer) ---------- *)
Definition inline (n : option nd) : bool :=
  match n with
  | Some (If _ _ _ _ _) | Some (Switch _ _) | Some (For _ _) | Some (Text _ _) | Some (Str _ _) => true
  | Some (Elem _ block _ _ _ _) => negb block
  | _ => false end.
Definition trail_of (n : nd) : option trailing :=
  match n with Text _ t | Str _ t | Elem _ _ _ _ _ t => Some t | _ => None end.
Definition trailer (n : nd) (next : option nd) : bytes :=
  match trail_of n with
  | Some SpNone | None => []
  | Some _ => if inline (Some n) && inline next then [x20] else [] end.

Section Sem.
Variable E : Type.                                  (* environments: argument values, loop variables *)
Variable escape : bytes -> bytes.                   (* html.EscapeString / templ.EscapeString *)
Variable eval_str : E -> expr -> option bytes.      (* templ.JoinStringErrs(e): None = the expression returned an error *)
Variable eval_bool : E -> expr -> bool.
Variable eval_for : E -> expr -> list E.            (* one environment per iteration *)
Variable eval_sw : E -> expr -> nat.                (* index of the selected case; >= number of cases: none *)
Variable eval_class : E -> expr -> bytes.           (* templ.CSSClasses(items).String() *)
Variable callee : expr -> bytes.                    (* name of the template a call expression names *)
Variable call_env : E -> expr -> E.                 (* the callee's environment: its parameters bound to the arguments *)
Variable tc : bool.                                 (* whether the trace records the evaluation of class expressions *)

Definition str_val (env : E) (e : expr) : res :=
  match eval_str env e with
  | Some s => (escape s, [(KStr, e)], None)
  | None => ([], [(KStr, e)], Some (epos_of e)) end.
Definition class_ev (e : expr) : list event := if tc then [(KClass, e)] else [].

Definition chain {B} (env : E) (f : B -> res) : list (expr * B) -> res -> res :=
  fix go (l : list (expr * B)) (el : res) : res :=
    match l with
    | [] => el
    | p :: r => let '(c, b) := p in andthen (evt KBool c) (if eval_bool env c then f b else go r el) end.
Definition pick {B} (f : B -> res) : list (expr * B) -> nat -> res :=
  fix go (l : list (expr * B)) (i : nat) : res :=
    match l with
    | [] => unit_r
    | p :: r => let '(_, b) := p in match i with O => f b | S j => go r j end end.

(* ---------- specification: what the template denotes ---------- *)
Definition attr_open (n : bytes) : bytes := [x20] ++ escape n ++ [x3d; x22].
Fixpoint dattr (env : E) (a : fattr) : res :=
  match a with
  | FBoolConst n => lit ([x20] ++ escape n)
  | FConst n v => lit (attr_open n ++ escape v ++ [x22])
  | FBoolExpr n e => andthen (evt KBool e) (if eval_bool env e then lit ([x20] ++ escape n) else unit_r)
  | FExpr n e => andthen (lit (attr_open n)) (andthen (str_val env e) (lit [x22]))
  | FClass n e => andthen (lit (attr_open n)) (andthen (escape (eval_class env e), class_ev e, None) (lit [x22]))
  | FCond e th el => andthen (evt KBool e) (if eval_bool env e then seq_list (dattr env) th else seq_list (dattr env) el)
  end.
Definition dattrs (env : E) (l : list fattr) : res := seq_list (dattr env) l.
Definition open_tag (name : bytes) : bytes := [x3c] ++ escape name.
Definition close_tag (name : bytes) : bytes := [x3c; x2f] ++ escape name ++ [x3e].

Section WithCall.
Variable call : E -> expr -> res.                   (* what a call renders (the callee's body at smaller fuel) *)

Fixpoint denote (env : E) (n : nd) (next : option nd) {struct n} : res :=
  andthen
   (match n with
    | Ws => lit [x20]
    | Text v _ => lit v
    | Str e _ => str_val env e
    | Elem name _ void attrs ch _ =>
        andthen (lit (open_tag name)) (andthen (dattrs env attrs) (andthen (lit [x3e])
          (if void && is_nil ch then unit_r
           else andthen (seq_nodes (fun c nx => denote env c nx) ch None) (lit (close_tag name)))))
    | Raw name attrs c =>
        andthen (lit (open_tag name)) (andthen (dattrs env attrs) (lit ([x3e] ++ c ++ close_tag name)))
    | Doc v => lit (bs "<!doctype " ++ v ++ [x3e])
    | Comment c => lit (bs "<!--" ++ c ++ bs "-->")
    | GoComment => unit_r
    | GoCode e => evt KGo e
    | If c th elifs _ el =>
        andthen (evt KBool c)
          (if eval_bool env c then seq_nodes (fun c nx => denote env c nx) th next
           else chain env (fun b => seq_nodes (fun c nx => denote env c nx) b next) elifs
                      (seq_nodes (fun c nx => denote env c nx) el next))
    | Switch e cases =>
        andthen (evt KSwitch e) (pick (fun b => seq_nodes (fun c nx => denote env c nx) b next) cases (eval_sw env e))
    | For e body =>
        andthen (evt KFor e) (seq_list (fun env' => seq_nodes (fun c nx => denote env' c nx) body next) (eval_for env e))
    | Call e => andthen (evt KCall e) (call env e)
    end)
   (lit (trailer n next)).
Definition denotes (env : E) (l : list nd) (next : option nd) : res := seq_nodes (fun c nx => denote env c nx) l next.

(* ---------- meaning of the generated statements ---------- *)
Fixpoint exec1 (env : E) (s : stmt) {struct s} : res :=
  match s with
  | SLit a => lit a
  | SExpr e => str_val env e
  | SAttrV _ _ e => str_val env e
  | SClassHoist e => ([], class_ev e, None)
  | SClassUse e => lit (escape (eval_class env e))
  | SGo e => evt KGo e
  | SIf c th elifs _ el =>
      andthen (evt KBool c)
        (if eval_bool env c then seq_list (fun s => exec1 env s) th
         else chain env (seq_list (fun s => exec1 env s)) elifs (seq_list (fun s => exec1 env s) el))
  | SSwitch e cases => andthen (evt KSwitch e) (pick (seq_list (fun s => exec1 env s)) cases (eval_sw env e))
  | SFor e b => andthen (evt KFor e) (seq_list (fun env' => seq_list (fun s => exec1 env' s) b) (eval_for env e))
  | SCall e => andthen (evt KCall e) (call env e)
  end.
Definition exec (env : E) (p : list stmt) : res := seq_list (fun s => exec1 env s) p.
End WithCall.

(* ---------- the generator: statements with literal pieces ---------- *)
(* writeAttributesCSS: class expressions, also those under conditional attributes, are evaluated in front of the element *)
Fixpoint hoist (a : fattr) : list stmt :=
  match a with
  | FClass _ e => [SClassHoist e]
  | FCond _ th el => flat_map hoist th ++ flat_map hoist el
  | _ => [] end.
Fixpoint gattr (elem : bytes) (a : fattr) : list stmt :=
  match a with
  | FBoolConst n => [SLit ([x20] ++ escape n)]
  | FConst n v => [SLit (attr_open n ++ escape v ++ [x22])]
  | FBoolExpr n e => [SIf e [SLit ([x20] ++ escape n)] [] false []]
  | FExpr n e => [SLit (attr_open n); SAttrV elem n e; SLit [x22]]
  | FClass n e => [SLit (attr_open n); SClassUse e; SLit [x22]]
  | FCond e th el => [SIf e (flat_map (gattr elem) th) [] (negb (is_nil el)) (flat_map (gattr elem) el)]
  end.
Definition gattrs (elem : bytes) (l : list fattr) : list stmt := flat_map (gattr elem) l.
Definition glit (s : bytes) : list stmt := match s with [] => [] | _ => [SLit s] end.

Fixpoint gen (n : nd) (next : option nd) {struct n} : list stmt :=
  (match n with
   | Ws => [SLit [x20]]
   | Text v _ => [SLit v]
   | Str e _ => [SExpr e]
   | Elem name _ void attrs ch _ =>
       flat_map hoist attrs ++ [SLit (open_tag name)] ++ gattrs name attrs ++ [SLit [x3e]] ++
       (if void && is_nil ch then [] else gen_nodes gen ch None ++ [SLit (close_tag name)])
   | Raw name attrs c => [SLit (open_tag name)] ++ gattrs name attrs ++ [SLit [x3e]; SLit c; SLit (close_tag name)]
   | Doc v => [SLit (bs "<!doctype " ++ v ++ [x3e])]
   | Comment c => [SLit (bs "<!--"); SLit c; SLit (bs "-->")]
   | GoComment => []
   | GoCode e => [SGo e]
   | If c th elifs he el =>
       [SIf c (gen_nodes gen th next) (map (fun p => let '(c', b) := p in (c', gen_nodes gen b next)) elifs) he (gen_nodes gen el next)]
   | Switch e cases => [SSwitch e (map (fun p => let '(c', b) := p in (c', gen_nodes gen b next)) cases)]
   | For e body => [SFor e (gen_nodes gen body next)]
   | Call e => [SCall e]
   end) ++ glit (trailer n next).
Definition gens (l : list nd) (next : option nd) : list stmt := gen_nodes gen l next.

(* ---------- RangeWriter: adjacent literals merge into one WriteString; never across a block boundary ---------- *)
Definition push (x : stmt) (acc : list stmt) : list stmt :=
  match x, acc with SLit a, SLit b :: r => SLit (a ++ b) :: r | _, _ => x :: acc end.
Definition coal_with (f : stmt -> stmt) : list stmt -> list stmt :=
  fix go (l : list stmt) : list stmt := match l with [] => [] | x :: r => push (f x) (go r) end.
Fixpoint cst (s : stmt) : stmt :=
  match s with
  | SIf c th elifs he el =>
      SIf c (coal_with cst th) (map (fun p => let '(c', b) := p in (c', coal_with cst b)) elifs) he (coal_with cst el)
  | SSwitch e cases => SSwitch e (map (fun p => let '(c', b) := p in (c', coal_with cst b)) cases)
  | SFor e b => SFor e (coal_with cst b)
  | x => x end.
Definition coalesce (p : list stmt) : list stmt := coal_with cst p.

(* ---------- files: a table of templates; calls recurse on fuel ---------- *)
Fixpoint call_x (tbl : list (bytes * list stmt)) (fuel : nat) (env : E) (e : expr) {struct fuel} : res :=
  match fuel with
  | O => fail0
  | S f => match find tbl (callee e) with
           | Some body => exec (call_x tbl f) (call_env env e) body
           | None => fail0 end
  end.
Definition exec_f (tbl : list (bytes * list stmt)) (fuel : nat) (env : E) (p : list stmt) : res :=
  exec (call_x tbl fuel) env p.
Fixpoint call_d (tbl : list (bytes * list nd)) (fuel : nat) (env : E) (e : expr) {struct fuel} : res :=
  match fuel with
  | O => fail0
  | S f => match find tbl (callee e) with
           | Some body => denotes (call_d tbl f) (call_env env e) body None
           | None => fail0 end
  end.
Definition denote_f (tbl : list (bytes * list nd)) (fuel : nat) (env : E) (l : list nd) (next : option nd) : res :=
  denotes (call_d tbl fuel) env l next.
(* the generated file: every template body generated and its literals merged *)
Definition compile (tbl : list (bytes * list nd)) : list (bytes * list stmt) :=
  map (fun p => let '(k, b) := p in (k, coalesce (gens b None))) tbl.
End Sem.

(* ---------- class expressions (the hoisted attribute kind) ---------- *)
Fixpoint attr_has_class (a : fattr) : bool :=
  match a with
  | FClass _ _ => true
  | FCond _ th el => existsb attr_has_class th || existsb attr_has_class el
  | _ => false end.
Definition cases_all {B} (f : B -> bool) (l : list (expr * B)) : bool := forallb (fun p => let '(_, b) := p in f b) l.
Fixpoint hoist_free (n : nd) : bool :=
  match n with
  | Elem _ _ _ attrs ch _ => negb (existsb attr_has_class attrs) && forallb hoist_free ch
  | Raw _ attrs _ => negb (existsb attr_has_class attrs)
  | If _ th elifs _ el => forallb hoist_free th && cases_all (forallb hoist_free) elifs && forallb hoist_free el
  | Switch _ cases => cases_all (forallb hoist_free) cases
  | For _ body => forallb hoist_free body
  | _ => true end.
Definition tbl_hoist_free (tbl : list (bytes * list nd)) : bool :=
  forallb (fun p => let '(_, b) := p in forallb hoist_free b) tbl.

(* ---------- static markup: nodes without any Go expression, and the bytes they stand for ---------- *)
Section Static.
Variable escape : bytes -> bytes.
Definition static_attr (a : fattr) : option bytes :=
  match a with
  | FBoolConst n => Some ([x20] ++ escape n)
  | FConst n v => Some (attr_open escape n ++ escape v ++ [x22])
  | _ => None end.
Fixpoint static_attrs (l : list fattr) : option bytes :=
  match l with
  | [] => Some []
  | a :: r => match static_attr a, static_attrs r with Some x, Some y => Some (x ++ y) | _, _ => None end end.
Definition static_nodes (f : nd -> option nd -> option bytes) : list nd -> option nd -> option bytes :=
  fix go (l : list nd) (next : option nd) : option bytes :=
    match l with
    | [] => Some []
    | c :: r => match f c (next_of r next), go r next with Some x, Some y => Some (x ++ y) | _, _ => None end end.
Fixpoint static_node (n : nd) (next : option nd) {struct n} : option bytes :=
  option_map (fun b => b ++ trailer n next)
   (match n with
    | Ws => Some [x20]
    | Text v _ => Some v
    | Doc v => Some (bs "<!doctype " ++ v ++ [x3e])
    | Comment c => Some (bs "<!--" ++ c ++ bs "-->")
    | GoComment => Some []
    | Elem name _ void attrs ch _ =>
        match static_attrs attrs, static_nodes static_node ch None with
        | Some a, Some c => Some (open_tag escape name ++ a ++ [x3e] ++ (if void && is_nil ch then [] else c ++ close_tag escape name))
        | _, _ => None end
    | Raw name attrs c =>
        match static_attrs attrs with
        | Some a => Some (open_tag escape name ++ a ++ [x3e] ++ c ++ close_tag escape name)
        | None => None end
    | _ => None end).
(* the bytes of a static node list: each node's bytes in source order, with the trailing-space rule between them *)
Definition static_render (l : list nd) (next : option nd) : option bytes := static_nodes static_node l next.
End Static.
