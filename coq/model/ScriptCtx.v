(* Model of the script elements the templ RUNTIME writes during one render, as a function of the operation
   sequence and of the render context (the CSP nonce and the set of script names already rendered in it):
     render_items  = templ.RenderScriptItems(ctx, w, scripts...)   (/repo/scripttemplate.go; generated code calls it
                     before every element that carries on* / hx-on: script handlers)
     render_cs     = ComponentScript.Render(ctx, w)                (/repo/scripttemplate.go; @script(...), and
                     templ.JSFuncCall / JSUnsafeFuncCall values used as components: Function is empty)
     render_json   = JSONScriptElement.Render(ctx, w)              (/repo/jsonscript.go)
     the context   = contextValue.ss (hasScriptBeenRendered / addScript) and contextValue.nonce (/repo/runtime.go)
   Definitions only; proofs are in proofs/ScriptCtxProof.v. *)
From Coq.Strings Require Import Byte String.
From Coq Require Import List NArith Bool.
Import ListNotations.
From V Require Import lib.Bytes model.Escape.

(* templ.ComponentScript{Name, Function, Call, CallInline} *)
Record cscript := CS { cs_name : bytes; cs_fn : bytes; cs_call : bytes; cs_inline : bytes }.

Inductive sop :=
| OItems (l : list cscript)                                  (* templ.RenderScriptItems(ctx, w, l...) *)
| ORender (s : cscript)                                      (* s.Render(ctx, w) *)
| OJson (id ty : bytes) (own : option bytes) (body : bytes). (* templ.JSONScript(id, data).WithType(ty)
                                                                [.WithNonceFromString(own)].Render(ctx, w);
                                                                body = the bytes json.Encoder wrote for data *)

(* v.hasScriptBeenRendered(name) *)
Definition seen_has (n : bytes) (seen : list bytes) : bool := existsb (bytes_eqb n) seen.

(* the loop of RenderScriptItems: the strings.Builder's content and the set afterwards *)
Fixpoint items_loop (seen : list bytes) (l : list cscript) : bytes * list bytes :=
  match l with
  | [] => ([], seen)
  | s :: r =>
      if seen_has (cs_name s) seen then items_loop seen r
      else let '(b, seen') := items_loop (cs_name s :: seen) r in (cs_fn s ++ b, seen')
  end.

(* writeScriptHeader, the text, the end tag *)
Definition script_elem (nonce body : bytes) : bytes := script_header nonce ++ body ++ bs "</script>".

(* RenderScriptItems: nothing at all when the builder is empty *)
Definition render_items (nonce : bytes) (seen : list bytes) (l : list cscript) : bytes * list bytes :=
  let '(b, seen') := items_loop seen l in
  (match b with [] => [] | _ => script_elem nonce b end, seen').

(* ComponentScript.Render: RenderScriptItems(ctx, w, c), then - when len(c.Call) > 0 - a second script element
   holding c.CallInline *)
Definition render_cs (nonce : bytes) (seen : list bytes) (s : cscript) : bytes * list bytes :=
  let '(o, seen') := render_items nonce seen [s] in
  (o ++ match cs_call s with [] => [] | _ => script_elem nonce (cs_inline s) end, seen').

(* JSONScriptElement.Render: j.Nonce is GetNonce unless WithNonceFromString replaced it *)
Definition render_json (nonce id ty : bytes) (own : option bytes) (body : bytes) : bytes :=
  json_script_header id ty (match own with Some n => n | None => nonce end) ++ body ++ bs "</script>".

Definition render_op (nonce : bytes) (seen : list bytes) (o : sop) : bytes * list bytes :=
  match o with
  | OItems l => render_items nonce seen l
  | ORender s => render_cs nonce seen s
  | OJson id ty own body => (render_json nonce id ty own body, seen)
  end.

(* a sequence of operations on ONE context.  keep = the context was initialised (templ.InitializeContext /
   WithNonce / a generated template's Render): the set lives as long as the context.  With a bare
   context.Background() every getContext call makes a new value, so nothing is remembered between operations
   (and the nonce is empty). *)
Fixpoint render_ops (keep : bool) (nonce : bytes) (seen : list bytes) (ops : list sop) : bytes :=
  match ops with
  | [] => []
  | o :: r => let '(b, seen') := render_op nonce seen o in b ++ render_ops keep nonce (if keep then seen' else []) r
  end.
