(* C06 model: github.com/a-h/parse Input (input.go), parser/v2 NewExpression/NewRange (types.go),
   the range arithmetic of the expression constructors of parser/v2, goexpression.extract's
   prefix subtraction and clamping, and the node-list loop schema of templateNodeParser.Parse.
   Definitions only; proofs are in proofs/ParseInputProof.v.

   Go ints that can go negative (token.Pos arithmetic, Seek arguments) are Z; byte indices that
   the Go code keeps within 0..len are nat.  A Go slice expression that would panic is [None]. *)
From Coq.Strings Require Import Byte String.
From Coq Require Import List Arith ZArith Bool Lia.
Import ListNotations.
From V Require Import lib.Bytes lib.SrcPos.
Local Open Scope nat_scope.

(* ------------------------------------------------------------------ *)
(* parse.Input                                                          *)
(* ------------------------------------------------------------------ *)

(* type Input struct { s string; charIndex int; newLines []int } *)
Record input := mkinput { in_s : bytes; in_idx : nat; in_nl : list nat }.

(* NewInput: `for i, r := range s { if r == '\n' { newLines = append(newLines, i) } }`.
   The range loop decodes runes; the rune '\n' arises from the byte 0x0a and from nothing else
   (continuation bytes are >= 0x80; an invalid byte yields U+FFFD and advances by one), and i is
   the byte offset.  So the table holds the offsets of the 0x0a bytes.  (checked by the harness on
   invalid UTF-8 as well.) *)
Fixpoint nls (off : nat) (s : bytes) : list nat :=
  match s with
  | [] => []
  | b :: r => if Byte.eqb b x0a then off :: nls (S off) r else nls (S off) r
  end.
Definition new_input (s : bytes) : input := mkinput s 0 (nls 0 s).

(* s[charIndex:] *)
Definition rest (pi : input) : bytes := skipn (in_idx pi) (in_s pi).

(* Peek(n), n >= 0 *)
Definition peek (pi : input) (n : nat) : option bytes :=
  if length (in_s pi) <? in_idx pi + n then None else Some (firstn n (rest pi)).
(* Peek(-1): charIndex-1 > len(s) never holds, the result is s[charIndex:] *)
Definition peek_rest (pi : input) : bytes := rest pi.

(* Take(n), n >= 0: on failure the input is unchanged *)
Definition take (pi : input) (n : nat) : option bytes * input :=
  if length (in_s pi) <? in_idx pi + n then (None, pi)
  else (Some (firstn n (rest pi)), mkinput (in_s pi) (in_idx pi + n) (in_nl pi)).
Definition take_ (pi : input) (n : nat) : input := snd (take pi n).

(* Seek(index) *)
Definition seek (pi : input) (index : Z) : bool * input :=
  if (index <? 0)%Z || (Z.of_nat (length (in_s pi)) <? index)%Z then (false, pi)
  else (true, mkinput (in_s pi) (Z.to_nat index) (in_nl pi)).

(* sort.Search(n, f):  i, j := 0, n; for i < j { h := int(uint(i+j) >> 1); if !f(h) { i = h + 1 } else { j = h } }; return i
   The loop runs at most n times (j - i shrinks); fuel n suffices. *)
Fixpoint bsearch (fuel : nat) (f : nat -> bool) (i j : nat) : nat :=
  match fuel with
  | O => i
  | S fu => if i <? j then
              let h := Nat.div2 (i + j) in
              if f h then bsearch fu f i h else bsearch fu f (S h) j
            else i
  end.
Definition sort_search (n : nat) (f : nat -> bool) : nat := bsearch n f 0 n.

(* PositionAt(index) *)
Definition position_at (pi : input) (index : nat) : position :=
  let t := in_nl pi in
  let li := sort_search (length t) (fun k => index <=? nth k t 0) in
  let prev := match li with O => 0 | S k => nth k t 0 + 1 end in
  mkpos index li (index - prev).
(* Position() *)
Definition cur_position (pi : input) : position := position_at pi (in_idx pi).

(* ------------------------------------------------------------------ *)
(* types.go                                                             *)
(* ------------------------------------------------------------------ *)
(* NewExpression / NewRange copy the three fields (int -> int64 / uint32; identity while the file
   is shorter than 2^32 lines - an assumption recorded in the evidence). *)
Definition new_expression (value : bytes) (from to : position) : expression := mkexpr value from to.
Definition new_range (from to : position) : position * position := (from, to).

(* Go s[a:b]; None = run-time panic *)
Definition slice (s : bytes) (a b : nat) : option bytes :=
  if (a <=? b) && (b <=? length s) then Some (firstn (b - a) (skipn a s)) else None.
Definition zslice (s : bytes) (a b : Z) : option bytes :=
  if ((0 <=? a) && (a <=? b) && (b <=? Z.of_nat (length s)))%Z
  then Some (firstn (Z.to_nat (b - a)) (skipn (Z.to_nat a) s)) else None.

(* ------------------------------------------------------------------ *)
(* parser/v2 expression constructors                                    *)
(* ------------------------------------------------------------------ *)

(* goparser.go parseGo, after the extractor returned (start, end) without error:
     from := pi.Index(); src, _ := pi.Peek(-1); expr := src[start:end]; pi.Take(end)
     NewExpression(expr, pi.PositionAt(from+start), pi.PositionAt(from+end)) *)
Definition parse_go (pi : input) (start end_ : nat) : option (expression * input) :=
  let from := in_idx pi in
  match slice (peek_rest pi) start end_ with
  | None => None
  | Some expr =>
      Some (new_expression expr (position_at pi (from + start)) (position_at pi (from + end_)), take_ pi end_)
  end.

(* goparser.go parseGoSliceArgs, after goexpression.SliceArgs returned expr:
     from := pi.Position(); pi.Take(len(expr)); to := pi.Position() *)
Definition parse_go_slice_args (pi : input) (expr : bytes) : expression * input :=
  let from := cur_position pi in
  let pi' := take_ pi (length expr) in
  (new_expression expr from (cur_position pi'), pi').

(* goexpression/parse.go SliceArgs: the arithmetic on the composite literal found by go/parser.
     src := prefix + content + "}"; from = Lbrace; to = Rbrace-1; for elts: to = e.End()-1; clamp to Rbrace-1;
     if src[to:Rbrace-1] holds anything but white space, to = from + len(TrimRight(src[from:Rbrace-1], " \t")); return src[from:to]
   lbrace, rbrace, elt_ends are token.Pos values (1-based); has_code abstracts the unicode.IsSpace scan. *)
(* strings.TrimRight(s, " \t") *)
Fixpoint drop_blank_tab (r : bytes) : bytes :=
  match r with b :: t => if Byte.eqb b x20 || Byte.eqb b x09 then drop_blank_tab t else r | [] => [] end.
Definition trim_right_bt (s : bytes) : bytes := rev (drop_blank_tab (rev s)).
Definition slice_args_prefix : bytes := bs "package main" ++ [x0a] ++ bs "var templ_args = []any{".
Definition slice_args (has_code : bytes -> bool) (content : bytes) (lbrace rbrace : Z) (elt_ends : list Z) : option bytes :=
  let src := slice_args_prefix ++ content ++ bs "}" in
  let from := lbrace in
  let to := fold_left (fun _ e => (e - 1)%Z) elt_ends (rbrace - 1)%Z in
  let to := if (rbrace - 1 <? to)%Z then (rbrace - 1)%Z else to in
  match zslice src to (rbrace - 1)%Z with
  | None => None
  | Some between =>
      (* fix b5f9c20: the code up to the brace is kept, the blanks and tabs in front of the brace are not *)
      if has_code between then option_map trim_right_bt (zslice src from (rbrace - 1)%Z) else zslice src from to
  end.

(* goparser.go parseGoFuncDecl, after goexpression.Func returned expr:
     prefix = prefix + " "; from := pi.Index(); pi.Take(len(prefix)+len(expr)); to := pi.Position()
     NewExpression(expr, pi.PositionAt(from+len(prefix)), to) *)
Definition parse_go_func_decl (prefix : bytes) (pi : input) (expr : bytes) : expression * input :=
  let prefix := prefix ++ bs " " in
  let from := in_idx pi in
  let pi' := take_ pi (length prefix + length expr) in
  (new_expression expr (position_at pi (from + length prefix)) (cur_position pi'), pi').

(* goexpression/parse.go Func: src := "package main\n" + content; start := fn.Pos()+len("func"); end := Params.End()-1;
   if len(src) < end { error }; expr = src[start:end].   outer None = panic, inner None = error *)
Definition func_prefix : bytes := bs "package main" ++ [x0a].
Definition func_expr (content : bytes) (fnpos params_end : Z) : option (option bytes) :=
  let src := func_prefix ++ content in
  let start := (fnpos + 4)%Z in
  let end_ := (params_end - 1)%Z in
  if (Z.of_nat (length src) <? end_)%Z then Some None
  else match zslice src start end_ with None => None | Some e => Some (Some e) end.

(* packageparser.go: start := pi.Position(); String("package ") ; exp := StringUntil(NewLine);
   NewExpression("package "+exp, start, pi.Position()) *)
Definition pkg_expression (pi : input) (exp : bytes) : expression * input :=
  let start := cur_position pi in
  let pi1 := take_ pi (length (bs "package ")) in
  let pi2 := take_ pi1 (length exp) in
  (new_expression (bs "package " ++ exp) start (cur_position pi2), pi2).

(* templatefile.go header lines: from := pi.Position(); line := StringUntil(NewLine); newLine := NewLine;
   NewExpression(line+newLine, from, pi.Position()) *)
Definition header_line (pi : input) (line newline : bytes) : expression * input :=
  let from := cur_position pi in
  let pi1 := take_ pi (length line) in
  let pi2 := take_ pi1 (length newline) in
  (new_expression (line ++ newline) from (cur_position pi2), pi2).

(* expressionparser.go ExpressionOf(p): from := in.Position(); exp := p.Parse(in); NewExpression(exp, from, in.Position())
   for a p that returns the text it consumed (script template name and parameters) *)
Definition expression_of (pi : input) (exp : bytes) : expression * input :=
  let from := cur_position pi in
  let pi' := take_ pi (length exp) in
  (new_expression exp from (cur_position pi'), pi').

(* elementparser.go spreadAttributesParser, on the expression returned by parseGo:
     if !HasSuffix(Value, "...") { no match }; Value = TrimSuffix(Value, "..."); To.Col -= 3; To.Index -= 3 *)
Fixpoint has_suffix3 (v : bytes) : bool :=
  match v with
  | [] => false
  | a :: r => match r with
              | [b; c] => Byte.eqb a x2e && Byte.eqb b x2e && Byte.eqb c x2e
              | _ => has_suffix3 r
              end
  end.
Definition spread_fix (e : expression) : option expression :=
  if has_suffix3 (e_value e) then
    Some (mkexpr (firstn (length (e_value e) - 3) (e_value e)) (e_from e)
                 (mkpos (p_index (e_to e) - 3) (p_line (e_to e)) (p_col (e_to e) - 3)))
  else None.

(* strings.TrimSpace (unicode.IsSpace on decoded runes): byte length of a white-space rune at the head *)
Definition ascii_space (b : byte) : bool :=
  Byte.eqb b x09 || Byte.eqb b x0a || Byte.eqb b x0b || Byte.eqb b x0c || Byte.eqb b x0d || Byte.eqb b x20.
Definition sp3 (a b c : byte) : bool :=
  (Byte.eqb a xe1 && Byte.eqb b x9a && Byte.eqb c x80) ||                                   (* U+1680 *)
  (Byte.eqb a xe2 && Byte.eqb b x80 &&
     ((N.leb 128 (bN c) && N.leb (bN c) 138) || Byte.eqb c xa8 || Byte.eqb c xa9 || Byte.eqb c xaf)) || (* U+2000-200A 2028 2029 202F *)
  (Byte.eqb a xe2 && Byte.eqb b x81 && Byte.eqb c x9f) ||                                   (* U+205F *)
  (Byte.eqb a xe3 && Byte.eqb b x80 && Byte.eqb c x80).                                     (* U+3000 *)
Definition sp2 (a b : byte) : bool := Byte.eqb a xc2 && (Byte.eqb b x85 || Byte.eqb b xa0).    (* U+0085 U+00A0 *)
Definition space_len (s : bytes) : nat :=
  match s with
  | [] => 0
  | a :: r => if ascii_space a then 1 else
      match r with
      | [] => 0
      | b :: r' => if sp2 a b then 2 else
          match r' with [] => 0 | c :: _ => if sp3 a b c then 3 else 0 end
      end
  end.
(* the same test on the reversed string (utf8.DecodeLastRune) *)
Definition space_len_last (r : bytes) : nat :=
  match r with
  | [] => 0
  | c :: t => if ascii_space c then 1 else
      match t with
      | [] => 0
      | b :: t' => if sp2 b c then 2 else
          match t' with [] => 0 | a :: _ => if sp3 a b c then 3 else 0 end
      end
  end.
Fixpoint trim_with (len : bytes -> nat) (fuel : nat) (s : bytes) : bytes :=
  match fuel with
  | O => s
  | S f => match len s with O => s | k => trim_with len f (skipn k s) end
  end.
Definition trim_left (s : bytes) : bytes := trim_with space_len (length s) s.
Definition trim_right (s : bytes) : bytes := rev (trim_with space_len_last (length s) (rev s)).
Definition trim_space (s : bytes) : bytes := trim_right (trim_left s).

(* templatefile.go top-level Go block: from := pi.Position() ... lines appended to code ...
   NewExpression(strings.TrimSpace(code.String()), from, pi.Position()) *)
Definition go_block (pi_from pi_to : input) (code : bytes) : expression :=
  new_expression (trim_space code) (cur_position pi_from) (cur_position pi_to).

(* ifexpressionparser.go elseIfExpressionParser: after `} else if` matched: pi.Seek(pi.Index() - 2) *)
Definition else_if_rewind (pi : input) : bool * input := seek pi (Z.of_nat (in_idx pi) - 2)%Z.

(* elementparser.go: NameRange = NewRange(pi.PositionAt(pi.Index()-len(name)), pi.Position()) right after the name parser *)
Definition name_range (pi : input) (name : bytes) : position * position :=
  new_range (position_at pi (in_idx pi - length name)) (cur_position pi).

(* ------------------------------------------------------------------ *)
(* goexpression.extract                                                 *)
(* ------------------------------------------------------------------ *)
Definition container_prefix : bytes := bs "package main" ++ [x0a] ++ bs "func templ_container() {" ++ [x0a].

(* start -= len(prefix); end -= len(prefix); if end > len(content) { end = len(content) }; if start > end { start = end } *)
Definition clamp (plen clen start0 end0 : Z) : Z * Z :=
  let s := (start0 - plen)%Z in
  let e := (end0 - plen)%Z in
  let e := if (clen <? e)%Z then clen else e in
  let s := if (e <? s)%Z then e else s in
  (s, e).

(* extract(content, extractor): the extractor is ANY function of the parsed source (None = error / nothing found) *)
Definition extract (extractor : bytes -> option (Z * Z)) (content : bytes) : option (Z * Z) :=
  match extractor (container_prefix ++ content) with
  | None => None
  | Some (s0, e0) => Some (clamp (Z.of_nat (length container_prefix)) (Z.of_nat (length content)) s0 e0)
  end.

(* Case: prefix := "switch {\n"; extract(prefix+content, ...); start -= len(prefix); end -= len(prefix) *)
Definition switch_prefix : bytes := bs "switch {" ++ [x0a].
Definition case_extract (extractor : bytes -> option (Z * Z)) (content : bytes) : option (Z * Z) :=
  match extract extractor (switch_prefix ++ content) with
  | None => None
  | Some (s, e) => Some ((s - Z.of_nat (length switch_prefix))%Z, (e - Z.of_nat (length switch_prefix))%Z)
  end.

(* latestEnd(start, nodes...): end = start; for n: if n.End()-1 > end { end = n.End()-1 } *)
Definition latest_end (start : Z) (node_ends : list Z) : Z :=
  fold_left (fun e n => if (e <? n - 1)%Z then (n - 1)%Z else e) node_ends start.

(* ------------------------------------------------------------------ *)
(* templateparser.go templateNodeParser.Parse - the loop schema         *)
(* ------------------------------------------------------------------ *)
(* A parser over a fixed input is a function of the index: error, no match (index left at j), match (index now j). *)
Inductive presult := PErr | PNo (j : nat) | POk (j : nat).
Notation nparser := (nat -> presult).

(* `for _, p := range parsers { node, matched, err = p.Parse(pi); if err != nil {return}; if matched {break} }` *)
Fixpoint first_match (ps : list nparser) (i : nat) : presult :=
  match ps with
  | [] => PNo i
  | p :: r => match p i with PErr => PErr | POk j => POk j | PNo j => first_match r j end
  end.

Inductive loop_out :=
| LErr                          (* a parser returned an error *)
| LDone (i nodes : nat)         (* until matched (index restored), or until == nil and nothing matched *)
| LNotFound (i : nat)           (* UntilNotFoundError *)
| LFuel.                        (* model artefact: fuel ran out *)

Fixpoint node_loop (fuel : nat) (until : option nparser) (skips parsers : list nparser)
         (i nodes iters : nat) : loop_out * nat :=
  match fuel with
  | O => (LFuel, iters)
  | S f =>
    let iters := S iters in
    let probe := match until with
                 | None => PNo i
                 | Some u => u i
                 end in
    match probe with
    | PErr => (LErr, iters)
    | POk _ => (LDone i nodes, iters)                       (* pi.Seek(start); return op, true, nil *)
    | PNo i1 =>
      match first_match skips i1 with
      | PErr => (LErr, iters)
      | POk i2 => node_loop f until skips parsers i2 nodes iters          (* continue outer *)
      | PNo i2 =>
        match first_match parsers i2 with
        | PErr => (LErr, iters)
        | POk i3 => node_loop f until skips parsers i3 (S nodes) iters    (* append, continue *)
        | PNo i3 => match until with
                    | None => (LDone i3 nodes, iters)                     (* break *)
                    | Some _ => (LNotFound i3, iters)
                    end
        end
      end
    end
  end.

(* scriptparser.go Parse: the outer `loop:` - one iteration either leaves the loop or continues at a new index *)
Inductive sresult := SErr | SBreak (j : nat) | SCont (j : nat).
Fixpoint script_loop (fuel : nat) (body : nat -> sresult) (i iters : nat) : option sresult * nat :=
  match fuel with
  | O => (None, iters)
  | S f => match body i with
           | SErr => (Some SErr, S iters)
           | SBreak j => (Some (SBreak j), S iters)
           | SCont j => script_loop f body j (S iters)
           end
  end.
