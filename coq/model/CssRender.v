(* Model of how generated code places dynamic CSS into the rendered document (C05, end to end).
     css component:   /repo/generator/generator.go writeCSS - a constant property is written as the author's text
                      "name:value;"; an EXPRESSION property, WHATEVER THE SHAPE OF ITS GO EXPRESSION (identifier,
                      literal, concatenation, call, ...), as templ.SanitizeCSS(`name`, expression); the class is
                      "." + id + "{" + body + "}"  (templ.ComponentCSSClass.Class)
     <style> element: /repo/runtime.go RenderCSSItems - <style type="text/css"> classes </style>
     style attribute: generator.go writeExpressionAttributeValueStyle - the string returned by
                      templruntime.SanitizeStyleAttributeValues (model/Css.v style_attr) written between the
                      quotes of  style="..."  without further escaping (since b502e9e)
   Definitions only. *)
From Coq.Strings Require Import Byte String.
From Coq Require Import List NArith Bool.
Import ListNotations.
From V Require Import lib.Bytes model.Css.

(* one property of a css component; for an expression property x is the string the Go expression evaluated to *)
Inductive cprop :=
| CConst (n v : bytes)
| CDyn (n x : bytes).

Section WithParse.
Variable parse : bytes -> option bytes.

(* the (name, value) a property ends up as *)
Definition cprop_decl (p : cprop) : bytes * bytes :=
  match p with
  | CConst n v => (n, v)
  | CDyn n x => sanitize_css parse n x
  end.
(* what the generated function writes into templ_7745c5c3_CSSBuilder for it *)
Definition cprop_text (p : cprop) : bytes :=
  match p with
  | CConst n v => n ++ [x3a] ++ v ++ [x3b]
  | CDyn n x => templ_sanitize_css parse false n x
  end.
Definition css_body (ps : list cprop) : bytes := concat (map cprop_text ps).
(* Class: templ.SafeCSS(`.` + id + `{` + body + `}`) *)
Definition css_class (c : bytes * list cprop) : bytes := [x2e] ++ fst c ++ [x7b] ++ css_body (snd c) ++ [x7d].
(* the text RenderCSSItems writes between <style type="text/css"> and </style> for classes not rendered before *)
Definition style_text (cs : list (bytes * list cprop)) : bytes := concat (map css_class cs).
Definition style_element (cs : list (bytes * list cprop)) : bytes :=
  match cs with
  | [] => []
  | _ => bs "<style type=""text/css"">" ++ style_text cs ++ bs "</style>"
  end.

End WithParse.

(* the unescaped text of the pieces SanitizeStyleAttributeValues emits (what html.EscapeString is applied to) *)
Definition raw_piece (p : piece) : bytes :=
  match p with
  | PDecl n v => n ++ [x3a] ++ v ++ [x3b]
  | PSafeDecl n v => n ++ [x3a] ++ v ++ [x3b]
  | PText t => t ++ (if has_suffix [x3b] t then [] else [x3b])
  | PUnsupported => unsupported
  end.
Definition raw_text (ps : list piece) : bytes := concat (map raw_piece ps).
(* the declarations among the pieces *)
Definition piece_decl (p : piece) : option (bytes * bytes) :=
  match p with
  | PDecl n v => Some (n, v)
  | PSafeDecl n v => Some (n, v)
  | _ => None
  end.
Fixpoint pieces_decls (ps : list piece) : option (list (bytes * bytes)) :=
  match ps with
  | [] => Some []
  | p :: r => match piece_decl p, pieces_decls r with Some d, Some ds => Some (d :: ds) | _, _ => None end
  end.

(* <elem style="out">inner</elem> as the generated code writes it *)
Definition style_attr_elem (elem out inner : bytes) : bytes :=
  [x3c] ++ elem ++ bs " style=""" ++ out ++ [x22; x3e] ++ inner ++ [x3c; x2f] ++ elem ++ [x3e].
