(* C10 - model of Go's bufio.Writer as templ's runtime.Buffer uses it (runtime/buffer.go), over an ARBITRARY
   destination writer.  Definitions only.

   Go (bufio.go, go1.23):  Writer{err error; buf []byte; n int; wr io.Writer}
     Reset(w)        : err = nil; n = 0; wr = w
     Flush()         : sticky error; one wr.Write(buf[:n]); n < len && err == nil -> io.ErrShortWrite;
                       on error copy the unwritten tail down and keep it, record the error
     Write(p)        : while len(p) > Available() && err == nil { if Buffered() == 0 { n, err = wr.Write(p) }   (large write: bypass)
                                                                   else { n = copy(buf[n:], p); Flush() }; p = p[n:] }
                       if err != nil return err; copy the rest into the buffer
     WriteString(s)  : the same loop; the bypass is taken only when wr implements io.StringWriter
   A destination that answers (0, nil) on the bypass makes that loop spin for ever; the model runs the loop on
   fuel and records [LSpin] / [ESpin] when the fuel is gone (see RenderSkelProof.no_spin_under_contract). *)
From Coq.Strings Require Import Byte String.
From Coq Require Import List NArith Bool Arith.
Import ListNotations.
From V Require Import lib.Bytes spec.RenderSpec.
Local Open Scope nat_scope.

Section Bufio.
Variable sink_st : Type.
(* an arbitrary io.Writer: given its state and the bytes offered, how many it accepted, the error it returned, its new state *)
Variable sink : sink_st -> bytes -> nat * option err * sink_st.
Variable cap : nat.                        (* runtime.DefaultBufferSize *)

(* the destination and the ghost record of what happened to it *)
Record world := { sst : sink_st;
                  recv : bytes;            (* ghost: every byte the destination accepted, in order *)
                  log : list logent;       (* ghost: one entry per call on the destination *)
                  marks : list nat }.      (* ghost: length of recv at each http.Flusher.Flush() call *)

(* bufio.Writer: the bytes buf[0:n] and the sticky error *)
Record bw := { buf : bytes; berr : option err }.

(* b.wr.Write(p) / sw.WriteString(p) *)
Definition sink_call (direct : bool) (w : world) (p : bytes) : nat * option err * world :=
  let '(n, e, s') := sink (sst w) p in
  (n, e, {| sst := s'; recv := recv w ++ firstn n p;
            log := log w ++ [LCall direct (length p) n e]; marks := marks w |}).

(* new(Buffer) followed by the first Reset: bufio.NewWriterSize *)
Definition bw_fresh : bw := {| buf := []; berr := None |}.

(* bufio.Writer.Reset (through runtime.Buffer.Reset) *)
Definition bw_reset (b : bw) : bw := {| buf := []; berr := None |}.

(* bufio.Writer.Flush; the error it returns is [berr] of the result *)
Definition bw_flush (b : bw) (w : world) : bw * world :=
  match berr b with
  | Some _ => (b, w)
  | None =>
      match buf b with
      | [] => (b, w)
      | _ =>
          let '(n, e, w') := sink_call false w (buf b) in
          let e' := match e with
                    | Some x => Some x
                    | None => if n <? length (buf b) then Some EShortWrite else None
                    end in
          match e' with
          | Some x => ({| buf := skipn n (buf b); berr := Some x |}, w')
          | None => ({| buf := []; berr := None |}, w')
          end
      end
  end.

Definition is_nil (l : bytes) : bool := match l with [] => true | _ => false end.

(* bufio.Writer.Write (direct = true) and bufio.Writer.WriteString (direct = does wr implement io.StringWriter);
   the error the call returns is [berr] of the result *)
Fixpoint bw_write (direct : bool) (fuel : nat) (b : bw) (w : world) (s : bytes) : bw * world :=
  match berr b with
  | Some _ => (b, w)
  | None =>
      if length s <=? cap - length (buf b) then ({| buf := buf b ++ s; berr := None |}, w)
      else
        match fuel with
        | O => ({| buf := buf b; berr := Some ESpin |},
                {| sst := sst w; recv := recv w; log := log w ++ [LSpin]; marks := marks w |})
        | S f =>
            if direct && is_nil (buf b) then
              let '(n, e, w1) := sink_call true w s in
              bw_write direct f {| buf := []; berr := e |} w1 (skipn n s)
            else
              let n := cap - length (buf b) in
              let '(b1, w1) := bw_flush {| buf := buf b ++ firstn n s; berr := None |} w in
              bw_write direct f b1 w1 (skipn n s)
        end
  end.
End Bufio.

Arguments sst {sink_st} _.
Arguments recv {sink_st} _.
Arguments log {sink_st} _.
Arguments marks {sink_st} _.
