(* C06 model: the two scanner-based extractors of parser/v2/goexpression - TemplExpression (scanner.go
   ExpressionParser + parse.go TemplExpression, the `@component(...)` path) and Expression (parse.go, the
   `{{ }}`, `{! }`, `{ x... }`, `x?={ }` path) - as functions of the token stream go/scanner produces.
   Definitions only; proofs are in proofs/GoExprScanProof.v.

   A token is (pos, class, len): pos is the token.Pos (file base 1, so pos - 1 is the byte offset), len is
   len(tokenString(tok, lit)) - the length of tok.String() for keywords and operators, of the LITERAL otherwise.
   The literal of a token is NOT always a piece of the source: an invalid UTF-8 byte is reported as an ILLEGAL token
   whose literal is the 3-byte replacement character U+FFFD (1 byte of source), and carriage returns are removed
   from comments and raw strings.  Nothing is therefore assumed about len here. *)
From Coq.Strings Require Import Byte String.
From Coq Require Import List Arith ZArith Bool Lia.
Import ListNotations.
From V Require Import lib.Bytes lib.SrcPos model.ParseInput.
Local Open Scope nat_scope.

(* the token classes the two functions distinguish; pairs: 0 = ( ), 1 = { }, 2 = [ ] *)
Inductive gtok :=
| GEof | GFunc | GOpen (k : nat) | GClose (k : nat) | GIdent | GPeriod
| GSemi | GIllegal | GOther.     (* GOther: every other keyword, operator, literal and comment *)
Notation gtoken := (Z * gtok * nat)%type.

Definition is_closer (t : gtok) : bool := match t with GClose _ => true | _ => false end.
Definition is_rparen (t : gtok) : bool := match t with GClose 0 => true | _ => false end.
Definition is_ident (t : gtok) : bool := match t with GIdent => true | _ => false end.
Definition is_period (t : gtok) : bool := match t with GPeriod => true | _ => false end.

(* scanner.go: type ExpressionParser struct { Stack; End int; Previous token.Token; Fns Stack[int] }
   (the head of a list is the top of the Go stack) *)
Record ep_state := mkep { ep_stack : list nat; ep_end : Z; ep_prev : gtok; ep_fns : list nat }.
(* NewExpressionParser: Previous: token.PERIOD *)
Definition ep_new : ep_state := mkep [] 0%Z GPeriod [].

(* setEnd: ep.End = int(pos) + len(tokenString(tok, lit)) - 1 *)
Definition ep_set_end (pos : Z) (len : nat) : Z := (pos + Z.of_nat len - 1)%Z.
(* hasSpaceBeforeCurrentToken: (int(pos) - 1) > ep.End *)
Definition ep_has_space (st : ep_state) (pos : Z) : bool := (ep_end st <? pos - 1)%Z.
(* isTopLevel: len(ep.Fns) == 0 && len(ep.Stack) == 0 *)
Definition ep_top_level (st : ep_state) : bool :=
  match ep_fns st, ep_stack st with [], [] => true | _, _ => false end.

Inductive ep_out := EpStop | EpErr | EpGo.

(* the three ways Insert returns; `defer func() { ep.Previous = tok }()` runs on each *)
Definition ep_keep (o : ep_out) (st : ep_state) (tok : gtok) : ep_out * ep_state :=
  (o, mkep (ep_stack st) (ep_end st) tok (ep_fns st)).
Definition ep_go (pos : Z) (tok : gtok) (len : nat) (stack fns : list nat) : ep_out * ep_state :=
  (EpGo, mkep stack (ep_set_end pos len) tok fns).

(* ExpressionParser.Insert *)
Definition ep_insert (st : ep_state) (pos : Z) (tok : gtok) (len : nat) : ep_out * ep_state :=
  let prev := ep_prev st in
  match tok with
  | GEof => if ep_top_level st then ep_keep EpStop st tok else ep_keep EpErr st tok       (* ErrUnbalanced *)
  | GFunc => ep_go pos tok len (ep_stack st) (length (ep_stack st) :: ep_fns st)        (* Fns.Push(len(Stack)) *)
  | GOpen k =>
      if (k =? 1) && ep_top_level st && (is_rparen prev || (is_ident prev && ep_has_space st pos))
      then ep_keep EpStop st tok                                                          (* `() {` / `name {` *)
      else ep_go pos tok len (k :: ep_stack st) (ep_fns st)
  | GClose k =>
      match ep_stack st with
      | [] => ep_keep EpStop st tok                                                       (* nothing to close: done *)
      | a :: r =>
          if negb (a =? k) then ep_keep EpErr st tok                                      (* ErrUnbalanced *)
          else
            (* if tok == RBRACE && len(ep.Stack) == ep.Fns.Peek() { ep.Fns.Pop() } - Peek of an empty stack is 0,
               Pop of an empty stack does nothing *)
            let fns := if k =? 1 then
                         match ep_fns st with
                         | [] => []
                         | d :: fr => if length r =? d then fr else ep_fns st
                         end
                       else ep_fns st in
            ep_go pos tok len r fns
      end
  | _ =>
      if negb (ep_top_level st) then ep_go pos tok len (ep_stack st) (ep_fns st)          (* anything, until closed *)
      else if is_ident tok && (is_period prev || is_closer prev) then
        (if is_closer prev && ep_has_space st pos then ep_keep EpStop st tok
         else ep_go pos tok len (ep_stack st) (ep_fns st))
      else if is_period tok && (is_ident prev || is_closer prev) then ep_go pos tok len (ep_stack st) (ep_fns st)
      else ep_keep EpStop st tok
  end.

(* the loop of TemplExpression: `for { pos, tok, lit := s.Scan(); stop, err := ep.Insert(...); if err != nil { return 0, 0, err };
   if stop { break } }`.  None: the token list ran out (a real stream ends with EOF, on which Insert always stops);
   Some None: error; Some (Some end): ep.End when the loop was left. *)
Fixpoint ep_run (st : ep_state) (toks : list gtoken) : option (option Z) :=
  match toks with
  | [] => None
  | (pos, tok, len) :: r =>
      match ep_insert st pos tok len with
      | (EpErr, _) => Some None
      | (EpStop, st') => Some (Some (ep_end st'))
      | (EpGo, st') => ep_run st' r
      end
  end.

Definition scan_result (r : option (option Z)) (f : Z -> Z * Z) : option (option (Z * Z)) :=
  match r with
  | None => None
  | Some None => Some None
  | Some (Some e) => Some (Some (f e))
  end.

(* TemplExpression since 906dd9d: `return 0, min(ep.End, len(src)), nil` *)
Definition templ_expression (toks : list gtoken) (srclen : nat) : option (option (Z * Z)) :=
  scan_result (ep_run ep_new toks) (fun e => (0%Z, Z.min e (Z.of_nat srclen))).
(* before 906dd9d: `return 0, ep.End, nil` *)
Definition templ_expression_unclamped (toks : list gtoken) : option (option (Z * Z)) :=
  scan_result (ep_run ep_new toks) (fun e => (0%Z, e)).

(* parse.go Expression: the loop over the tokens.  parenDepth and bracketDepth are counted but never read; only
   braceDepth decides.  `end` is: the position of a closing token; pos + len(lit) - 1 of identifiers, literals and
   comments; pos + len(tok.String()) - 1 of every other token; semicolons are skipped; ILLEGAL is an error. *)
Fixpoint expr_run (brace end_ : Z) (toks : list gtoken) : option (option Z) :=
  match toks with
  | [] => None
  | (pos, tok, len) :: r =>
      match tok with
      | GEof => Some (Some end_)
      | GOpen k => expr_run (if k =? 1 then (brace + 1)%Z else brace) end_ r
      | GClose k =>
          if k =? 1 then (if (brace - 1 <? 0)%Z then Some (Some end_) else expr_run (brace - 1)%Z pos r)
          else expr_run brace pos r
      | GSemi => expr_run brace end_ r
      | GIllegal => Some None
      | _ => expr_run brace (ep_set_end pos len) r
      end
  end.
(* `return start, end, nil` with start never assigned *)
Definition expression_scan (toks : list gtoken) : option (option (Z * Z)) :=
  scan_result (expr_run 0 0 toks) (fun e => (0%Z, e)).

(* the offset just behind a token as Expression computes it - what the go/scanner contract of
   GoExprScanProof.expression_scan_inside speaks about *)
Definition expr_sets_end (tok : gtok) : bool :=
  match tok with GEof | GOpen _ | GSemi | GIllegal => false | _ => true end.
Definition expr_tok_end (pos : Z) (tok : gtok) (len : nat) : Z :=
  match tok with GClose _ => pos | _ => ep_set_end pos len end.
