(* C14 model: N goroutines rendering at the same time.  Definitions only.
   Shared state: a heap of runtime.Buffer objects, the runtime buffer pool (runtime/bufferpool.go: bufferPool),
   the templ bytes.Buffer pool (runtime.go: bufferPool), the development-mode text-file cache
   (runtime/watchmode.go: watchModeCache under watchStateMutex), the once-handle counter (once.go: onceHandleIndex).
   Per goroutine: the request's context value (runtime.go: contextValue - once handles rendered, classes and scripts
   emitted or registered by CSSMiddleware.ServeHTTP) and its writer, possibly behind the goroutine's own bufio.Writer.
   One scheduled step = one atomic action of one goroutine.  The schedule also chooses WHICH pooled object a
   pool Get returns (sync.Pool promises nothing) and what the clock says at a cache lookup. *)
From Coq.Strings Require Import Byte String.
From Coq Require Import List Arith NArith Bool.
Import ListNotations.
From V Require Import lib.Bytes spec.Isolated.
Local Open Scope nat_scope.

(* runtime/buffer.go: type Buffer struct { Underlying io.Writer; b *bufio.Writer }.
   content/err = the bufio.Writer's unflushed bytes and sticky error; tgt/tgtB = whose writer Underlying is
   (goroutine tgt's response writer, or - tgtB - the bytes.Buffer that goroutine holds). *)
Record buf := { content : bytes; err : bool; tgt : nat; tgtB : bool }.
(* new(Buffer) made by bufferPool.New for goroutine t, after the lazy initialisation in Reset(w) that every fresh Buffer needs before use *)
Definition fresh_buf (t : nat) (tb : bool) : buf := {| content := []; err := false; tgt := t; tgtB := tb |}.

Inductive phase := PGot | PReady | PFlushed.
Definition phase_flushed (p : phase) : bool := match p with PFlushed => true | _ => false end.

(* per-goroutine private state: the Buffer it holds (heap index), whether it holds a bytes.Buffer,
   the context value's once set (runtime.go: contextValue.onceHandles), its set of emitted classes and scripts
   (contextValue.ss: Some l = a map of its own; None = the ONE map [mwss] a middleware shares between requests, which
   only the variant without [fresh_registry] ever installs), handle ids it created, error flag, remaining actions *)
Record thread := {
  own : option (nat * phase);
  bown : option bool;
  ctx : list nat;
  reg : option (list N);
  ids : list N;
  failed : bool;
  prog : list act }.
Definition tmk o bo cx rg i f p : thread := {| own := o; bown := bo; ctx := cx; reg := rg; ids := i; failed := f; prog := p |}.

(* goroutine t's writer (accepts scap bytes, then fails), the content of the bytes.Buffer it holds, and the bytes held by
   its own bufio.Writer in front of the writer when it uses one *)
Record sink := { sout : bytes; scap : nat; sbb : bytes; spend : option bytes }.
Definition smk o c b pd : sink := {| sout := o; scap := c; sbb := b; spend := pd |}.

(* runtime/watchmode.go: type watchState struct { modTime; strings } *)
Record centry := { cmt : N; clines : list bytes }.

Record world := {
  heap : list buf;
  poolA : list nat;             (* runtime.bufferPool: heap indices *)
  poolB : list bytes;           (* templ.bufferPool: contents *)
  cache : list (N * centry);    (* watchModeCache *)
  ctr : N;                      (* onceHandleIndex *)
  mwss : list N;                (* a map owned by the middleware value; the code under test never hands it to a request *)
  threads : list thread;
  sinks : list sink }.
Definition wmk h pa pb c n ms ts sk : world :=
  {| heap := h; poolA := pa; poolB := pb; cache := c; ctr := n; mwss := ms; threads := ts; sinks := sk |}.

(* the code under test, and the variants the refutation lemmas use *)
Record config := {
  reset_on_get : bool;       (* runtime/bufferpool.go GetBuffer: b.Reset(w) after bufferPool.Get() *)
  reset_on_put : bool;       (* runtime.go ReleaseBuffer: b.Reset() before bufferPool.Put(b) *)
  flush_before_put : bool;   (* runtime/bufferpool.go ReleaseBuffer: b.Flush() before bufferPool.Put(b) *)
  fresh_registry : bool }.   (* runtime.go CSSMiddleware.ServeHTTP: v.addClass(id) into the request's own contextValue, for every registered class *)
Definition real : config := {| reset_on_get := true; reset_on_put := true; flush_before_put := true; fresh_registry := true |}.

Fixpoint set_nth {A} (i : nat) (x : A) (l : list A) : list A :=
  match l, i with [] , _ => [] | _ :: r, O => x :: r | y :: r, S k => y :: set_nth k x r end.
Definition remove_at {A} (k : nat) (l : list A) : list A := firstn k l ++ skipn (S k) l.

(* sync.Pool.Get: some pooled object, or none (then New is called) - the schedule decides *)
Definition pick_pool {A} (pick : option nat) (p : list A) : option (A * list A) :=
  match pick with
  | Some k => match nth_error p k with Some x => Some (x, remove_at k p) | None => None end
  | None => None
  end.

(* runtime/watchmode.go: cacheStrings *)
Definition cache_set (f : N) (e : centry) (c : list (N * centry)) : list (N * centry) := (f, e) :: c.
Definition cache_load (fs : fsys) (c : list (N * centry)) (f : N) : option (list bytes) * list (N * centry) :=
  match assoc f fs with
  | None => (None, c)                                                      (* os.Open fails *)
  | Some fi => (Some (flines fi), cache_set f {| cmt := mtime fi; clines := flines fi |} c)
  end.
(* runtime/watchmode.go: getWatchedStrings, the whole body under watchStateMutex: one atomic action *)
Definition cache_lookup (fs : fsys) (now : N) (c : list (N * centry)) (f : N) : option (list bytes) * list (N * centry) :=
  match assoc f c with
  | None => cache_load fs c f
  | Some e =>
      if N.ltb (now - cmt e)%N 100%N then (Some (clines e), c)                 (* time.Since(state.modTime) < 100ms *)
      else match assoc f fs with
           | None => (None, c)                                              (* os.Stat fails *)
           | Some fi => if N.ltb (cmt e) (mtime fi) then cache_load fs c f  (* info.ModTime().After(state.modTime) *)
                        else (Some (clines e), c)
           end
  end.

(* bufio Flush of b to its Underlying: new sinks, new buffer, error *)
Definition deliver (b : buf) (sk : list sink) : list sink * buf * bool :=
  if err b then (sk, b, true) else
  match nth_error sk (tgt b) with
  | None => (sk, b, true)
  | Some s =>
      if tgtB b then
        (set_nth (tgt b) (smk (sout s) (scap s) (sbb s ++ content b) (spend s)) sk,
         {| content := []; err := false; tgt := tgt b; tgtB := tgtB b |}, false)
      else
        let '(out', pd', rest) := dest_write (scap s) (sout s) (spend s) (content b) in
        (set_nth (tgt b) (smk out' (scap s) (sbb s) pd') sk,
         {| content := rest; err := negb (nilb rest); tgt := tgt b; tgtB := tgtB b |}, negb (nilb rest))
  end.

Definition with_content (b : buf) (c : bytes) : buf := {| content := c; err := err b; tgt := tgt b; tgtB := tgtB b |}.

(* the set of emitted classes and scripts a goroutine's context value points to *)
Definition reg_get (ms : list N) (rg : option (list N)) : list N := match rg with Some l => l | None => ms end.

(* one atomic action of goroutine t *)
Definition step (cfg : config) (fs : fsys) (w : world) (s : nat * option nat * N) : option world :=
  let '(t, pick, now) := s in
  let '{| heap := hp; poolA := pa; poolB := pb; cache := ca; ctr := cn; mwss := ms; threads := ts; sinks := sk |} := w in
  match nth_error ts t with None => None | Some th =>
  let '{| own := o; bown := bo; ctx := cx; reg := rg; ids := is; failed := fl; prog := p |} := th in
  let T th' := set_nth t th' ts in
  match o with
  | Some (i, PGot) =>
      (* Buffer.Reset(w): Underlying = w, bufio.Writer.Reset(w) *)
      match nth_error hp i with None => None | Some b =>
        let b' := if reset_on_get cfg then {| content := []; err := false; tgt := t; tgtB := is_some bo |} else b in
        Some (wmk (set_nth i b' hp) pa pb ca cn ms (T (tmk (Some (i, PReady)) bo cx rg is fl p)) sk)
      end
  | Some (i, PFlushed) =>
      (* second half of templruntime.ReleaseBuffer *)
      if flush_before_put cfg then
        Some (wmk hp (i :: pa) pb ca cn ms (T (tmk None bo cx rg is fl p)) sk)                      (* bufferPool.Put(b) *)
      else
        match nth_error hp i with None => None | Some b =>                                    (* variant: the flush comes after the Put *)
          let '(sk', b', e) := deliver b sk in
          Some (wmk (set_nth i b' hp) pa pb ca cn ms (T (tmk None bo cx rg is (fl || e) p)) sk')
        end
  | _ =>
  match bo with
  | Some true =>
      (* second half of templ.ReleaseBuffer: bufferPool.Put(b) *)
      match nth_error sk t with None => None | Some s =>
        Some (wmk hp pa (sbb s :: pb) ca cn ms (T (tmk o None cx rg is fl p)) (set_nth t (smk (sout s) (scap s) [] (spend s)) sk))
      end
  | _ =>
  match p with [] => None | a :: r =>
  match a with
  | Begin => Some (wmk hp pa pb ca cn ms (T (tmk o bo [] (Some []) is false r)) sk)       (* InitializeContext: v := &contextValue{} *)
  | Get =>
      match o with Some _ => None | None =>
        match pick_pool pick pa with
        | Some (i, pa') => Some (wmk hp pa' pb ca cn ms (T (tmk (Some (i, PGot)) bo cx rg is fl r)) sk)
        | None => Some (wmk (hp ++ [fresh_buf t (is_some bo)]) pa pb ca cn ms (T (tmk (Some (length hp, PGot)) bo cx rg is fl r)) sk)
        end
      end
  | Write s =>
      if fl then Some (wmk hp pa pb ca cn ms (T (tmk o bo cx rg is fl r)) sk) else
      match o with
      | Some (i, _) =>
          match nth_error hp i with None => None | Some b =>
            if err b then Some (wmk hp pa pb ca cn ms (T (tmk o bo cx rg is true r)) sk)
            else Some (wmk (set_nth i (with_content b (content b ++ s)) hp) pa pb ca cn ms (T (tmk o bo cx rg is fl r)) sk)
          end
      | _ => None end
  | Lookup f k =>
      if fl then Some (wmk hp pa pb ca cn ms (T (tmk o bo cx rg is fl r)) sk) else
      match o with
      | Some (i, _) =>
          match nth_error hp i with None => None | Some b =>
            let '(res, ca') := cache_lookup fs now ca f in
            match (match res with Some ls => nth_error ls k | None => None end) with
            | Some s => if err b then Some (wmk hp pa pb ca' cn ms (T (tmk o bo cx rg is true r)) sk)
                        else Some (wmk (set_nth i (with_content b (content b ++ s)) hp) pa pb ca' cn ms (T (tmk o bo cx rg is fl r)) sk)
            | None => Some (wmk hp pa pb ca' cn ms (T (tmk o bo cx rg is true r)) sk)
            end
          end
      | _ => None end
  | Once h k =>
      if fl then Some (wmk hp pa pb ca cn ms (T (tmk o bo cx rg is fl r)) sk) else
      if existsb (Nat.eqb h) cx then Some (wmk hp pa pb ca cn ms (T (tmk o bo cx rg is fl (skipn k r))) sk)
      else Some (wmk hp pa pb ca cn ms (T (tmk o bo (h :: cx) rg is fl r)) sk)
  | NewHandle =>
      if fl then Some (wmk hp pa pb ca cn ms (T (tmk o bo cx rg is fl r)) sk) else
      (* atomic.AddInt64(&onceHandleIndex, 1) *)
      Some (wmk hp pa pb ca (cn + 1)%N ms (T (tmk o bo cx rg ((cn + 1)%N :: is) fl r)) sk)
  | Err => Some (wmk hp pa pb ca cn ms (T (tmk o bo cx rg is true r)) sk)
  | Flush =>
      if fl then Some (wmk hp pa pb ca cn ms (T (tmk o bo cx rg is fl r)) sk) else
      match o with
      | Some (i, _) =>
          match nth_error hp i with None => None | Some b =>
            let '(sk', b', e) := deliver b sk in
            Some (wmk (set_nth i b' hp) pa pb ca cn ms (T (tmk o bo cx rg is e r)) sk')
          end
      | _ => None end
  | Release =>
      (* first half of templruntime.ReleaseBuffer: err = b.Flush() *)
      match o with
      | Some (i, _) =>
          if flush_before_put cfg then
            match nth_error hp i with None => None | Some b =>
              let '(sk', b', e) := deliver b sk in
              Some (wmk (set_nth i b' hp) pa pb ca cn ms (T (tmk (Some (i, PFlushed)) bo cx rg is (fl || e) r)) sk')
            end
          else Some (wmk hp (i :: pa) pb ca cn ms (T (tmk (Some (i, PFlushed)) bo cx rg is fl r)) sk)
      | None => None end
  | BGet =>
      match bo, nth_error sk t with
      | None, Some s =>
          let '(c, pb') := match pick_pool pick pb with Some (c, pb') => (c, pb') | None => ([], pb) end in
          Some (wmk hp pa pb' ca cn ms (T (tmk o (Some false) cx rg is fl r)) (set_nth t (smk (sout s) (scap s) c (spend s)) sk))
      | _, _ => None end
  | BDrain =>
      if fl then Some (wmk hp pa pb ca cn ms (T (tmk o bo cx rg is fl r)) sk) else
      match bo, nth_error sk t with
      | Some _, Some s =>
          let '(out', pd', rest) := dest_write (scap s) (sout s) (spend s) (sbb s) in
          Some (wmk hp pa pb ca cn ms (T (tmk o bo cx rg is (negb (nilb rest)) r)) (set_nth t (smk out' (scap s) (sbb s) pd') sk))
      | _, _ => None end
  | BRelease =>
      (* first half of templ.ReleaseBuffer: b.Reset() *)
      match bo, nth_error sk t with
      | Some _, Some s =>
          Some (wmk hp pa pb ca cn ms (T (tmk o (Some true) cx rg is fl r))
                  (set_nth t (smk (sout s) (scap s) (if reset_on_put cfg then [] else sbb s) (spend s)) sk))
      | _, _ => None end
  | Mid regs =>
      (* runtime.go CSSMiddleware.ServeHTTP: ctx, v := getContext(r.Context()); for each registered class v.addClass(c.ID) *)
      if fresh_registry cfg then
        match rg with
        | Some l => Some (wmk hp pa pb ca cn ms (T (tmk o bo cx (Some (regs ++ l)) is fl r)) sk)
        | None => Some (wmk hp pa pb ca cn (regs ++ ms) (T (tmk o bo cx rg is fl r)) sk)
        end
      else
        (* variant: the middleware keeps ONE precomputed map of its registered classes and installs it in every request's context value *)
        Some (wmk hp pa pb ca cn ms (T (tmk o bo cx None is fl r)) sk)
  | EmitOnce k s =>
      (* RenderCSSItems / RenderScriptItems: if !v.has...BeenRendered(k) { sb.WriteString(..); v.add...(k) }; then the element is written *)
      if fl then Some (wmk hp pa pb ca cn ms (T (tmk o bo cx rg is fl r)) sk) else
      if existsb (N.eqb k) (reg_get ms rg) then Some (wmk hp pa pb ca cn ms (T (tmk o bo cx rg is fl r)) sk) else
      let ms' := match rg with Some _ => ms | None => k :: ms end in
      let rg' := match rg with Some l => Some (k :: l) | None => None end in
      match o with
      | Some (i, _) =>
          match nth_error hp i with None => None | Some b =>
            if err b then Some (wmk hp pa pb ca cn ms' (T (tmk o bo cx rg' is true r)) sk)
            else Some (wmk (set_nth i (with_content b (content b ++ s)) hp) pa pb ca cn ms' (T (tmk o bo cx rg' is fl r)) sk)
          end
      | _ => None end
  | OwnWrap =>
      (* bw := bufio.NewWriter(w); from now on the goroutine hands bw to its renders *)
      match o, bo, nth_error sk t with
      | None, None, Some s =>
          match spend s with
          | None => Some (wmk hp pa pb ca cn ms (T (tmk o bo cx rg is fl r)) (set_nth t (smk (sout s) (scap s) (sbb s) (Some [])) sk))
          | Some _ => None end
      | _, _, _ => None end
  | OwnWrite x =>
      match nth_error sk t with
      | Some s =>
          let '(out', pd', _) := dest_write (scap s) (sout s) (spend s) x in
          Some (wmk hp pa pb ca cn ms (T (tmk o bo cx rg is fl r)) (set_nth t (smk out' (scap s) (sbb s) pd') sk))
      | None => None end
  | OwnFlush =>
      match nth_error sk t with
      | Some s =>
          match spend s with
          | Some q => let '(out', rest) := sink_write (scap s) (sout s) q in
                      Some (wmk hp pa pb ca cn ms (T (tmk o bo cx rg is fl r)) (set_nth t (smk out' (scap s) (sbb s) (Some rest)) sk))
          | None => Some (wmk hp pa pb ca cn ms (T (tmk o bo cx rg is fl r)) sk)
          end
      | None => None end
  end end end end end.

Fixpoint exec (cfg : config) (fs : fsys) (w : world) (sch : list (nat * option nat * N)) : option world :=
  match sch with [] => Some w | s :: r => match step cfg fs w s with Some w' => exec cfg fs w' r | None => None end end.

(* how many steps of the schedule belong to goroutine t *)
Fixpoint steps_of (t : nat) (sch : list (nat * option nat * N)) : nat :=
  match sch with [] => 0 | (u, _, _) :: r => (if Nat.eqb u t then 1 else 0) + steps_of t r end.

(* the start: nothing held, nothing written; each goroutine has its program and its writer's capacity *)
Definition init_threads (progs : list (list act * nat)) : list thread := map (fun pc => tmk None None [] (Some []) [] false (fst pc)) progs.
Definition init_sinks (progs : list (list act * nat)) : list sink := map (fun pc => smk [] (snd pc) [] None) progs.

(* what goroutine t can see of the world: its own state with the Buffer it holds read through the heap *)
Definition view (w : world) (t : nat) : option lstate :=
  match nth_error (threads w) t, nth_error (sinks w) t with
  | Some th, Some s =>
      let lb := match own th with
                | None => Some None
                | Some (i, PGot) => Some (Some LGot)
                | Some (i, ph) => match nth_error (heap w) i with
                                  | Some b => Some (Some (LBuf (content b) (err b) (tgtB b) (phase_flushed ph)))
                                  | None => None end
                end in
      match lb with
      | Some lb => Some (lmk lb (bown th) (sbb s) (sout s) (scap s) (ctx th) (reg_get (mwss w) (reg th)) (spend s) (length (ids th)) (failed th) (prog th))
      | None => None end
  | _, _ => None
  end.
