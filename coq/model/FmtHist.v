(* MODEL side of C09, process level (definitions only).

   cmd/templ/fmtcmd/main.go format, cmd/templ/lspcmd/proxy/server.go Formatting: every command that formats does
   parser.ParseString on the text and TemplateFile.Write on the tree.  The parser is not modelled (model/Fmt.v starts
   from the tree); here it is a parameter that may keep a state of its own from one call to the next, so that the
   requirement on it can be SAID: [fmt_step] is one formatting request in a process.

   The second half models the one place of the parser that collects text in a buffer of its own,
   parser/v2/expressionparser.go expressionParser.Parse (the body of `script name() { ... }`), reduced to what matters
   for a process: characters are appended to a buffer while braces are counted, the closing brace of the block ends
   it, the end of the input inside the block is the error "expression: unexpected brace count".  [NewBuffer] is the
   code as it is (`sb := new(strings.Builder)` in every call); the two pooled variants take the buffer from a pool
   shared by the process.  They are kept to show that the statement of spec/FmtHist.v separates them.          *)
From Coq.Strings Require Import Byte String.
From Coq Require Import List Bool.
Import ListNotations.
From V Require Import lib.Bytes model.Fmt.

Section FormatProcess.
  Variable St : Type.
  Variable parse : St -> bytes -> St * option file.
  Definition fmt_step (s : St) (x : bytes) : St * option bytes :=
    (fst (parse s x), option_map fmt_write (snd (parse s x))).
End FormatProcess.

(* ---------- a text-collecting block scanner under three buffer disciplines ---------- *)
Definition x_open : byte := "{"%byte.
Definition x_close : byte := "}"%byte.

(* [scan buf depth inp]: the body (None: end of input inside the block) and the buffer as it is at the return *)
Fixpoint scan (buf : bytes) (depth : nat) (inp : bytes) : option bytes * bytes :=
  match inp with
  | [] => (None, buf)
  | c :: r =>
      if Byte.eqb c x_open then scan (buf ++ [c]) (S depth) r
      else if Byte.eqb c x_close then
        match depth with O => (Some buf, buf) | S d => scan (buf ++ [c]) d r end
      else scan (buf ++ [c]) depth r
  end.

Inductive discipline := NewBuffer | PooledResetOnEntry | PooledResetOnSuccess.

Fixpoint drop_prefix (p s : bytes) : option bytes :=
  match p, s with
  | [], _ => Some s
  | a :: p', b :: s' => if Byte.eqb a b then drop_prefix p' s' else None
  | _ :: _, [] => None
  end.
Definition script_head : bytes := bs "script f() {".

(* one file = `script f() {`, the body, `}`; a file that does not begin so is rejected before the scanner is reached.
   The state = the contents of the buffer in the pool. *)
Definition script_step (d : discipline) (pool : bytes) (x : bytes) : bytes * option bytes :=
  match drop_prefix script_head x with
  | None => (pool, None)
  | Some rest =>
      let start := match d with PooledResetOnSuccess => pool | _ => [] end in
      let res := scan start 0 rest in
      let pool' := match d with
                   | NewBuffer => pool
                   | PooledResetOnEntry => snd res
                   | PooledResetOnSuccess => match fst res with Some _ => [] | None => snd res end
                   end in
      (pool', option_map (fun body => script_head ++ body ++ bs "}") (fst res))
  end.
