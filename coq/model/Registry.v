(* C12 - executable model of templ's per-context registry and of everything that consults it:
   runtime.go (contextValue, getContext/InitializeContext, cssProcessor, RenderCSSItems,
   renderCSSItemsToBuilder, CSSMiddleware, CSSHandler), scripttemplate.go (ComponentScript.Render,
   RenderScriptItems), once.go (OnceHandle.Once with a block, with a fixed component, with neither), the children
   slot of the context (runtime.go WithChildren, ClearChildren, GetChildren, renderChildren), and the order in which
   generated code (generator.go: writeElement -> writeElementCSS, writeElementScript, attributes; writeTemplate's
   prologue; writeBlockTemplElementExpression / writeSelfClosingTemplElementExpression; writeChildrenExpression)
   calls them.  Definitions only. *)
From Coq.Strings Require Import Byte String.
From Coq Require Import List NArith Bool.
Import ListNotations.
From V Require Import lib.Bytes spec.RegistrySpec.

(* ---------- runtime.go: contextValue ---------- *)
(* ss is the one string set shared by scripts and classes (keys "script_"+name, "class_"+id);
   onceHandles is the set of handles; nonce is WithNonce's value; kids is contextValue.children: the component
   (here: the uses it makes) a caller left for the next component to pick up, None when the pointer is nil *)
Record reg := mkReg { ss : list bytes; hs : list N; nonce : bytes; kids : option (list op) }.

Definition script_ : bytes := bs "script_".
Definition class_ : bytes := bs "class_".

(* hasScriptBeenRendered / hasClassBeenRendered / getHasBeenRendered *)
Definition has (r : reg) (i : id) : bool :=
  match i with
  | Script n => memb (script_ ++ n) (ss r)
  | Class c => memb (class_ ++ c) (ss r)
  | Handle h => existsb (N.eqb h) (hs r)
  end.
(* addScript / addClass / setHasBeenRendered *)
Definition add (r : reg) (i : id) : reg :=
  match i with
  | Script n => mkReg ((script_ ++ n) :: ss r) (hs r) (nonce r) (kids r)
  | Class c => mkReg ((class_ ++ c) :: ss r) (hs r) (nonce r) (kids r)
  | Handle h => mkReg (ss r) (h :: hs r) (nonce r) (kids r)
  end.
(* runtime.go WithChildren (Some c) / ClearChildren (None): v.children on the context value every derived context shares *)
Definition set_kids (r : reg) (k : option (list op)) : reg := mkReg (ss r) (hs r) (nonce r) k.

(* the loop shared by RenderScriptItems and renderCSSItemsToBuilder:
   for each item, if it has not been rendered, write it and record it *)
Fixpoint emit_new {A} (idf : A -> id) (r : reg) (l : list A) : reg * list A :=
  match l with
  | [] => (r, [])
  | x :: t => if has r (idf x) then emit_new idf r t
              else let '(r', n) := emit_new idf (add r (idf x)) t in (r', x :: n)
  end.
Definition sid (s : script) : id := Script (sname s).
Definition clid (c : cls) : id := Class (cid c).

(* ---------- runtime.go: cssProcessor.Add (the names type switch) ---------- *)
Definition unknown : bytes := bs "--templ-css-class-unknown-type".

(* sort.Strings over the map's keys *)
Fixpoint bytes_leb (a b : bytes) : bool :=
  match a, b with
  | [], _ => true
  | _ :: _, [] => false
  | x :: a', y :: b' => if N.ltb (bN x) (bN y) then true
                        else if N.ltb (bN y) (bN x) then false else bytes_leb a' b'
  end.
Fixpoint insert_kv (x : bytes * bool) (l : list (bytes * bool)) : list (bytes * bool) :=
  match l with
  | [] => [x]
  | y :: t => if bytes_leb (fst x) (fst y) then x :: l else y :: insert_kv x t
  end.
Definition sort_kv (l : list (bytes * bool)) : list (bytes * bool) := fold_right insert_kv [] l.

(* cp.Add(item) for an item of static type CSSClass ([]CSSClass case): the dynamic type decides *)
Definition names_class (k : cssclass) : list (bytes * bool) :=
  match k with
  | KComp c => [(cid c, true)]
  | KConst n => [(n, true)]
  | KOther _ => [(unknown, true)]
  end.
Fixpoint names_of (f : cform) : list (bytes * bool) :=
  match f with
  | FStrings l => map (fun n => (n, true)) l
  | FString n => [(n, true)]
  | FConst n => [(n, true)]
  | FComp c => [(cid c, true)]
  | FMap l => sort_kv l
  | FListKVString l => l
  | FKVString n b => [(n, b)]
  | FListKVClass l => map (fun kb : cssclass * bool => (class_name (fst kb), snd kb)) l
  | FKVClass k b => [(class_name k, b)]
  | FKVComp c b => [(cid c, b)]
  | FNested l => flat_map names_of l
  | FListClass l => flat_map names_class l
  | FFunc k => [(class_name k, true)]
  | FKVConst _ _ => [(unknown, true)]       (* no case in Add: default *)
  | FListKVConst _ => [(unknown, true)]     (* no case in Add: default *)
  | FOther _ => [(unknown, true)]           (* no "case CSSClass" in Add: default *)
  | FUnknown => [(unknown, true)]
  end.
Definition names_l (fs : list cform) : list (bytes * bool) := flat_map names_of fs.

(* cssProcessor.String: the last setting of a name wins; order of first appearance; no repeats *)
Definition last_enabled (l : list (bytes * bool)) (n : bytes) : bool :=
  match find (fun kv : bytes * bool => bytes_eqb (fst kv) n) (rev l) with
  | Some kv => snd kv
  | None => false
  end.
Fixpoint dedup (seen l : list bytes) : list bytes :=
  match l with
  | [] => []
  | n :: t => if memb n seen then dedup seen t else n :: dedup (n :: seen) t
  end.
Definition enabled_names (l : list (bytes * bool)) : list bytes :=
  dedup [] (filter (last_enabled l) (map fst l)).
(* templ.CSSClasses(v).String() split at the joining spaces *)
Definition class_attr (fs : list cform) : list bytes := enabled_names (names_l fs).

(* ---------- runtime.go: renderCSSItemsToBuilder (the rules type switch) ---------- *)
Definition rules_class (k : cssclass) : list cls := match k with KComp c => [c] | _ => [] end.
Fixpoint rules_of (f : cform) : list cls :=
  match f with
  | FComp c => [c]
  | FKVComp c b => if b then [c] else []
  | FKVClass k b => if b then rules_class k else []
  | FListKVClass l => flat_map (fun kb : cssclass * bool => if snd kb then rules_class (fst kb) else []) l
  | FNested l => flat_map rules_of l
  | FListClass l => flat_map rules_class l
  | FFunc k => rules_class k
  | _ => []
  end.
Definition rules_l (fs : list cform) : list cls := flat_map rules_of fs.

(* ---------- what gets written ---------- *)
Inductive chunk :=
| KText (t : bytes)
| KScriptTag (nonce : bytes) (l : list script)   (* RenderScriptItems: one element for all new functions *)
| KStyleTag (l : list cls)                       (* RenderCSSItems: one element for all new rules *)
| KCallInline (nonce : bytes) (s : script)       (* ComponentScript.Render: <script>call</script> *)
| KOpen                                          (* <div *)
| KClassAttr (fs : list cform)                   (*  class="..." *)
| KCallAttr (s : script)                         (*  onclick="call" *)
| KClose                                         (* ></div> *)
| KMiddleware (l : list cls)                     (* no bytes: the context passed through a CSS middleware holding these classes *)
| KOnceBegin (h : N) | KOnceEnd (h : N) | KOnceSkip (h : N)    (* no bytes: where a once body starts/ends, a skipped render *)
| KOnceNone (h : N)                              (* no bytes: first render of a handle that has neither component nor children *)
| KLeak (b : list op).                           (* a component rendered the children it found in the context although its
                                                    caller gave it none: whatever b writes (C12_children_never_leak: never) *)

(* the component classes an element's class attribute actually names *)
Definition used_comps (fs : list cform) : list cls :=
  filter (fun c => memb (cid c) (class_attr fs)) (held_enabled fs).

(* generated code for <div class={ fs... } onclick={ s1 } onclick={ s2 }></div>:
   RenderCSSItems, RenderScriptItems, then the tag with templ.CSSClasses(v).String() and each s.Call *)
Definition elem (r : reg) (fs : list cform) (sl : list script) : reg * list chunk :=
  let '(r1, nc) := emit_new clid r (rules_l fs) in
  let '(r2, nsc) := emit_new sid r1 sl in
  (r2, [KStyleTag nc; KScriptTag (nonce r) nsc; KOpen]
       ++ match fs with [] => [] | _ => [KClassAttr fs] end
       ++ map KCallAttr sl ++ [KClose]).

(* runtime.go WithNonce: v.nonce = nonce on the context value every derived context shares *)
Definition set_nonce (r : reg) (n : bytes) : reg := mkReg (ss r) (hs r) n (kids r).

(* NewCSSHandler keeps the ComponentCSSClass values only *)
Definition handler_comps (l : list cssclass) : list cls := flat_map rules_class l.
(* CSSMiddleware.ServeHTTP: ctx, v := getContext(r.Context()); v.addClass(c.ID) for each registered class:
   the registry the request context already carries is the one that is extended *)
Definition add_classes (r : reg) (ks : list cls) : reg := fold_left (fun r k => add r (clid k)) ks r.
(* CSSHandler.ServeHTTP: the stylesheet endpoint's body *)
Definition sheet_of (l : list cssclass) : bytes := concat (map crule (handler_comps l)).

Fixpoint step (r : reg) (o : op) {struct o} : reg * list chunk :=
  match o with
  | OText t => (r, [KText t])
  | ONonce n => (set_nonce r n, [])
  | OMiddleware l => (add_classes r (handler_comps l), [KMiddleware (handler_comps l)])
  | OScriptItems l => let '(r', n) := emit_new sid r l in (r', [KScriptTag (nonce r) n])
  | ORender s =>
      let '(r', n) := emit_new sid r [s] in
      (r', KScriptTag (nonce r) n :: match scall s with [] => [] | _ => [KCallInline (nonce r) s] end)
  | OCSSItems fs => let '(r', n) := emit_new clid r (rules_l fs) in (r', [KStyleTag n])
  | OElem fs sl => elem r fs sl
  | OOnce h body =>
      (* generator.go writeBlockTemplElementExpression: h.Once().Render(templ.WithChildren(ctx, block), buf), then
         ctx = templ.ClearChildren(ctx).  once.go Once with o.c == nil: renderChildren, which takes the children out of
         the context while they are rendered and puts them back when it returns *)
      let r0 := set_kids r (Some body) in
      if has r0 (Handle h) then (set_kids r0 None, [KOnceSkip h])
      else let '(r', c) := seqf step (set_kids (add r0 (Handle h)) None) body in
           (set_kids (set_kids r' (Some body)) None, KOnceBegin h :: c ++ [KOnceEnd h])
  | OOnceC h body =>
      (* generator.go writeSelfClosingTemplElementExpression: h.Once().Render(ctx, buf): no WithChildren, no ClearChildren
         after it.  once.go Once with o.c != nil: o.c.Render(ctx, w); o.c is a template, whose prologue (generator.go
         writeTemplate) takes the children out of the context: Var := templ.GetChildren(ctx); ctx = templ.ClearChildren(ctx);
         body has no { children... } *)
      if has r (Handle h) then (r, [KOnceSkip h])
      else let '(r', c) := seqf step (set_kids (add r (Handle h)) None) body in
           (r', KOnceBegin h :: c ++ [KOnceEnd h])
  | OOnceSelf h =>
      (* the same call on a handle without component: renderChildren renders the children the context holds (and puts
         them back) *)
      if has r (Handle h) then (r, [KOnceSkip h])
      else (add r (Handle h), match kids r with None => [KOnceNone h] | Some b => [KOnceBegin h; KLeak b; KOnceEnd h] end)
  | OCall slot pre blk block post =>
      (* caller: c().Render(templ.WithChildren(ctx, block), buf); ctx = templ.ClearChildren(ctx)  or  c().Render(ctx, buf);
         callee prologue (writeTemplate): Var := templ.GetChildren(ctx); ctx = templ.ClearChildren(ctx);
         { children... } (writeChildrenExpression): Var.Render(ctx, buf) *)
      let r0 := if blk then set_kids r (Some block) else r in
      let var := kids r0 in
      let '(r1, c1) := seqf step (set_kids r0 None) pre in
      let '(r2, c2) := if slot then
                         (if blk then seqf step r1 block      (* var = Some block *)
                          else (r1, match var with None => [] | Some b => [KLeak b] end))
                       else (r1, []) in
      let '(r3, c3) := seqf step r2 post in
      (if blk then set_kids r3 None else r3, c1 ++ c2 ++ c3)
  end.
Fixpoint run (r : reg) (l : list op) : reg * list chunk :=
  match l with
  | [] => (r, [])
  | o :: t => let '(r1, c1) := step r o in let '(r2, c2) := run r1 t in (r2, c1 ++ c2)
  end.

(* the abstract log of what was written *)
Definition log1 (c : chunk) : list ev :=
  match c with
  | KScriptTag _ l => map (fun s => Def (sid s)) l
  | KStyleTag l => map (fun c => Def (clid c)) l
  | KCallInline _ s => [Use (sid s)]
  | KCallAttr s => [Use (sid s)]
  | KClassAttr fs => map (fun c => Use (clid c)) (used_comps fs)
  | KOnceBegin h => [Def (Handle h)]
  | KOnceEnd h => [Use (Handle h)]
  | KOnceSkip h => [Use (Handle h)]
  | KOnceNone h => [Def (Handle h); Use (Handle h)]
  | KMiddleware l => map (fun c => Reg (clid c)) l
  | _ => []
  end.
Definition log (cs : list chunk) : list ev := flat_map log1 cs.

(* what each use yielded, definitions left out *)
Definition want1 (c : chunk) : list want :=
  match c with
  | KCallInline _ s => [WCallInline s]
  | KCallAttr s => [WCallAttr s]
  | KClassAttr fs => [WAttr fs]
  | _ => []
  end.
Definition wants (cs : list chunk) : list want := flat_map want1 cs.

(* ---------- the bytes ---------- *)
Fixpoint join_sp (l : list bytes) : bytes :=
  match l with [] => [] | [a] => a | a :: t => a ++ [x20] ++ join_sp t end.
(* scripttemplate.go: writeScriptHeader (nonce values are taken from an alphabet EscapeString leaves alone) *)
Definition script_open (nonce : bytes) : bytes :=
  match nonce with
  | [] => bs "<script>"
  | _ => bs "<script nonce=""" ++ nonce ++ bs """>"
  end.
Definition render1 (c : chunk) : bytes :=
  match c with
  | KText t => t
  | KScriptTag nonce l =>
      match concat (map sfun l) with
      | [] => []
      | body => script_open nonce ++ body ++ bs "</script>"
      end
  | KStyleTag l =>
      match concat (map crule l) with
      | [] => []
      | body => bs "<style type=""text/css"">" ++ body ++ bs "</style>"
      end
  | KCallInline nonce s => script_open nonce ++ sinline s ++ bs "</script>"
  | KOpen => bs "<div"
  | KClassAttr fs => bs " class=""" ++ join_sp (class_attr fs) ++ bs """"
  | KCallAttr s => bs " onclick=""" ++ scall s ++ bs """"
  | KClose => bs "></div>"
  | KOnceBegin _ => [] | KOnceEnd _ => [] | KOnceSkip _ => [] | KOnceNone _ => [] | KMiddleware _ => []
  | KLeak _ => []
  end.
Definition render (cs : list chunk) : bytes := flat_map render1 cs.

(* ---------- contexts ---------- *)
(* a context as the CSS middleware (or a plain InitializeContext) hands it to the page:
   mw = Some classes for a request that went through NewCSSMiddleware(next, classes...) *)
Record cfg := mkCfg { cnonce : bytes; cmw : option (list cssclass) }.
Definition mw_comps (c : cfg) : list cls :=
  match cmw c with None => [] | Some l => handler_comps l end.
(* CSSMiddleware.ServeHTTP on a request whose context carries nothing yet *)
Definition init_reg (c : cfg) : reg := add_classes (mkReg [] [] (cnonce c) None) (mw_comps c).
Definition stylesheet (c : cfg) : bytes := match cmw c with None => [] | Some l => sheet_of l end.

(* several contexts, uses interleaved in any order; each use names its context *)
Definition upd (st : nat -> reg) (c : nat) (r : reg) : nat -> reg :=
  fun d => if Nat.eqb d c then r else st d.
Fixpoint run_multi (st : nat -> reg) (h : list (nat * op)) : (nat -> reg) * list (nat * chunk) :=
  match h with
  | [] => (st, [])
  | (c, o) :: t =>
      let '(r, cs) := step (st c) o in
      let '(st', rest) := run_multi (upd st c r) t in
      (st', map (fun k => (c, k)) cs ++ rest)
  end.
Definition proj {A} (c : nat) (l : list (nat * A)) : list A :=
  flat_map (fun x : nat * A => if Nat.eqb (fst x) c then [snd x] else []) l.
