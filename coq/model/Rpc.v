(* C18 - model of lsp/jsonrpc2: Content-Length framing (stream.go) and the connection's
   pending map / reply channels / write mutex / read loop (conn.go).  Definitions only. *)
From Coq.Strings Require Import Byte String.
From Coq Require Import List Arith NArith Bool.
Import ListNotations.
From V Require Import lib.Bytes.
Open Scope N_scope.

(* ====================================================================================== *)
(*  Part 1.  stream.go                                                                    *)
(* ====================================================================================== *)

(* ---------- decimal rendering: fmt "%v" of a non-negative int (stream.Write) ---------- *)
Definition dig (n : N) : byte := Nb (48 + n).
Fixpoint decf (fuel : nat) (n : N) : bytes :=
  match fuel with
  | O => []
  | S f => if n <? 10 then [dig n] else decf f (n / 10) ++ [dig (n mod 10)]
  end.
Definition dec10 (n : N) : bytes := decf 20 n.

(* ---------- strconv.ParseInt(value, 10, 32) ---------- *)
Definition is_digit (b : byte) : bool := (48 <=? bN b) && (bN b <=? 57).
Definition dstep (a : N) (b : byte) : N := a * 10 + (bN b - 48).
Fixpoint parse_digits (s : bytes) (acc : N) : option N :=
  match s with
  | [] => Some acc
  | b :: r => if is_digit b then parse_digits r (dstep acc b) else None
  end.
(* Some (negative?, magnitude), or None for strconv's syntax and range errors *)
Definition parse_int32 (s : bytes) : option (bool * N) :=
  let '(neg, d) :=
    match s with
    | b :: r => if Byte.eqb b x2b then (false, r) else if Byte.eqb b x2d then (true, r) else (false, s)
    | [] => (false, s)
    end in
  match d with
  | [] => None
  | _ => match parse_digits d 0 with
         | Some n => if neg then (if n <=? 2147483648 then Some (true, n) else None)
                     else (if n <=? 2147483647 then Some (false, n) else None)
         | None => None
         end
  end.

(* ---------- stream.Write: "%s: %v%s" HdrContentLength len(data) "\r\n\r\n", then data ---------- *)
Definition hdr_name : bytes := bs "Content-Length".
Definition crlf : bytes := [x0d; x0a].
Definition frame_header (p : bytes) : bytes :=
  hdr_name ++ [x3a; x20] ++ dec10 (N.of_nat (length p)) ++ crlf ++ crlf.
Definition frame (p : bytes) : bytes := frame_header p ++ p.

(* ---------- bufio.Reader.ReadString('\n'): the line including the newline ---------- *)
Fixpoint split_line (s : bytes) : option (bytes * bytes) :=
  match s with
  | [] => None
  | b :: r => if Byte.eqb b x0a then Some ([b], r)
              else match split_line r with Some (l, t) => Some (b :: l, t) | None => None end
  end.

(* ---------- strings.TrimSpace: ASCII spaces and the UTF-8 encodings of the other White_Space runes
   U+0085 U+00A0 (C2 85, C2 A0), U+1680 (E1 9A 80), U+2000..200A U+2028 U+2029 U+202F (E2 80 ..),
   U+205F (E2 81 9F), U+3000 (E3 80 80).  Invalid UTF-8 decodes to RuneError, which is not a space. *)
Definition is_space (b : byte) : bool :=
  Byte.eqb b x20 || Byte.eqb b x09 || Byte.eqb b x0a || Byte.eqb b x0b || Byte.eqb b x0c || Byte.eqb b x0d.
Definition sp2 (b c : byte) : bool := Byte.eqb b xc2 && (Byte.eqb c x85 || Byte.eqb c xa0).
Definition sp_e280 (d : byte) : bool :=
  ((128 <=? bN d) && (bN d <=? 138)) || Byte.eqb d xa8 || Byte.eqb d xa9 || Byte.eqb d xaf.
Definition sp3 (b c d : byte) : bool :=
  (Byte.eqb b xe1 && Byte.eqb c x9a && Byte.eqb d x80)
  || (Byte.eqb b xe2 && Byte.eqb c x80 && sp_e280 d)
  || (Byte.eqb b xe2 && Byte.eqb c x81 && Byte.eqb d x9f)
  || (Byte.eqb b xe3 && Byte.eqb c x80 && Byte.eqb d x80).
(* TrimLeftFunc(s, unicode.IsSpace) *)
Fixpoint trim_l (s : bytes) : bytes :=
  match s with
  | [] => []
  | b :: r =>
      if is_space b then trim_l r else
      match r with
      | c :: r1 =>
          if sp2 b c then trim_l r1 else
          match r1 with
          | d :: r2 => if sp3 b c d then trim_l r2 else s
          | [] => s
          end
      | [] => s
      end
  end.
(* TrimRightFunc on the reversed string (DecodeLastRune yields a space rune exactly when the string ends
   with that rune's encoding) *)
Fixpoint trim_lr (s : bytes) : bytes :=
  match s with
  | [] => []
  | b :: r =>
      if is_space b then trim_lr r else
      match r with
      | c :: r1 =>
          if sp2 c b then trim_lr r1 else
          match r1 with
          | d :: r2 => if sp3 d c b then trim_lr r2 else s
          | [] => s
          end
      | [] => s
      end
  end.
(* rev' = rev_append _ []: the same list as rev (List.rev_alt), computed in linear time *)
Definition trim (s : bytes) : bytes := rev' (trim_lr (rev' (trim_l s))).

(* strings.IndexRune(line, ':') and the two slices *)
Fixpoint split_colon (s : bytes) : option (bytes * bytes) :=
  match s with
  | [] => None
  | b :: r => if Byte.eqb b x3a then Some ([], r)
              else match split_colon r with Some (p, q) => Some (b :: p, q) | None => None end
  end.

(* error classes of stream.Read (the message prefixes of the fmt.Errorf calls) *)
Inductive rerr :=
| EInvalidLine     (* "invalid header line"            : no ':' in a non-empty header line *)
| EParse           (* "failed parsing Content-Length"  : strconv syntax or range error *)
| ENonPositive     (* "invalid Content-Length"         : length <= 0 *)
| EMissing.        (* "missing Content-Length header" *)

Inductive hres := HOk (len : N) (rest : bytes) | HNeedMore | HErr (e : rerr) | HFuel.

(* the header loop of stream.Read; [len] is the variable [length] carried across lines *)
Fixpoint headers (fuel : nat) (s : bytes) (len : N) : hres :=
  match fuel with
  | O => HFuel
  | S f =>
      match split_line s with
      | None => HNeedMore                                   (* ReadString: EOF before '\n' *)
      | Some (line, rest) =>
          match trim line with
          | [] => HOk len rest
          | l => match split_colon l with
                 | None => HErr EInvalidLine
                 | Some (name, value) =>
                     if bytes_eqb name hdr_name then
                       match parse_int32 (trim value) with
                       | Some (false, n) => if 0 <? n then headers f rest n else HErr ENonPositive
                       | Some (true, _) => HErr ENonPositive
                       | None => HErr EParse
                       end
                     else headers f rest len               (* unknown headers are ignored *)
                 end
          end
      end
  end.

Inductive rres := ROk (payload rest : bytes) | RNeedMore | RErr (e : rerr) | RFuel.

(* stream.Read up to (not including) DecodeMessage.  RNeedMore: the reader is waiting for bytes
   (at end of input the real reader reports io.EOF / io.ErrUnexpectedEOF). *)
Definition read_frame (s : bytes) : rres :=
  match headers (S (length s)) s 0 with
  | HOk n rest =>
      if n =? 0 then RErr EMissing
      else if N.of_nat (length rest) <? n then RNeedMore      (* io.ReadFull hits the end of input *)
      else ROk (firstn (N.to_nat n) rest) (skipn (N.to_nat n) rest)
  | HNeedMore => RNeedMore
  | HErr e => RErr e
  | HFuel => RFuel
  end.

(* how a sequence of Reads over a finite input ends *)
Inductive rend := EndEof | EndTrunc | EndErr (e : rerr) | EndFuel.

Fixpoint read_all (fuel : nat) (s : bytes) : list bytes * rend :=
  match fuel with
  | O => ([], EndFuel)
  | S f =>
      match read_frame s with
      | ROk p rest => let '(l, e) := read_all f rest in (p :: l, e)
      | RNeedMore => ([], match s with [] => EndEof | _ => EndTrunc end)
      | RErr e => ([], EndErr e)
      | RFuel => ([], EndFuel)
      end
  end.
Definition read_stream (s : bytes) : list bytes * rend := read_all (S (length s)) s.

(* a payload stream.Write can frame and stream.Read accepts: non-empty, length fits int32 *)
Definition payload_ok (p : bytes) : Prop := p <> [] /\ N.of_nat (length p) < 2147483648.

(* ====================================================================================== *)
(*  Part 2.  conn.go as a transition system over a transport that can fail                *)
(* ====================================================================================== *)
Close Scope N_scope.

(* a response read off the wire: (id it carries, value) *)
Notation resp := (nat * nat)%type.

Inductive result :=
| Got (r : resp)        (* Call returned the response taken from its channel *)
| Cancelled             (* Call returned ctx.Err() from the select *)
| WriteFailed           (* stream.Write saw ctx.Done() and wrote nothing *)
| Sent                  (* Notify / reply: written *)
| TransportErr.         (* stream.Write: the underlying connection's Write returned an error *)

Inductive kind := KCall | KWrite.   (* KWrite: Notify, and the replier of an incoming call *)

Inductive pc :=
| PStart      (* Call: before atomic.AddInt32(&c.seq, 1) *)
| PIdd        (* Call: id assigned, not yet in c.pending *)
| PReady      (* Call: registered in c.pending;  KWrite: about to call c.write *)
| PLocked     (* holds writeMu, nothing written *)
| PHeader     (* holds writeMu, Fprintf of the header done *)
| PBody       (* holds writeMu, body written *)
| PWait       (* Call: in the select *)
| PSel        (* Call: about to return, deferred delete(c.pending, id) not yet run *)
| PDone.

Record thread := mkT {
  t_kind : kind;
  t_pc : pc;
  t_id : nat;                  (* Call: the id obtained from seq *)
  t_payload : bytes;           (* the marshalled message this thread writes *)
  t_chan : option resp;        (* Call: content of rchan (capacity 1) *)
  t_ctx : bool;                (* ctx.Done() is closed *)
  t_ret : option result
}.

Record state := mkS {
  threads : nat -> thread;
  pending : list (nat * nat);  (* c.pending: id -> the registering call's channel (thread index) *)
  lock : option nat;           (* writeMu holder *)
  wire : bytes;                (* every byte the underlying connection accepted *)
  sent : list bytes;           (* ghost: payloads whose frame is complete, in lock order *)
  next_id : nat;               (* c.seq *)
  run : option (resp * nat);   (* read loop: holds rchan of that thread, about to send *)
  down : bool;                 (* the underlying connection has returned an error from Write (it keeps doing so) *)
  torn : bytes;                (* ghost: what the failed Write had put on the connection beyond the complete frames *)
  senders : list nat;          (* ghost: the threads whose frame is complete, in lock order *)
  closed : bool                (* run() has returned: stream.Read gave an error (end of stream, the peer hung up,
                                  a broken frame) and c.done is closed; nothing is read any more *)
}.

Definition dead : thread := mkT KWrite PDone 0 [] None false None.
Definition mk_thread (kp : kind * bytes) : thread :=
  mkT (fst kp) (match fst kp with KCall => PStart | KWrite => PReady end) 0 (snd kp) None false None.
Definition init (prog : list (kind * bytes)) : state :=
  mkS (fun t => nth t (map mk_thread prog) dead) [] None [] [] 0 None false [] [] false.

Definition upd (f : nat -> thread) (t : nat) (v : thread) : nat -> thread :=
  fun x => if Nat.eqb x t then v else f x.
Definition set_pc (th : thread) (p : pc) : thread :=
  mkT (t_kind th) p (t_id th) (t_payload th) (t_chan th) (t_ctx th) (t_ret th).

Fixpoint lookup (id : nat) (l : list (nat * nat)) : option nat :=
  match l with [] => None | (k, v) :: r => if Nat.eqb k id then Some v else lookup id r end.
Definition delete (id : nat) (l : list (nat * nat)) : list (nat * nat) :=
  filter (fun kv => negb (Nat.eqb (fst kv) id)) l.

Inductive action :=
| ACtx (t : nat)           (* environment: the call's context is cancelled - at ANY moment, also between the
                              header and the body of the thread's own write *)
| ASeq (t : nat)           (* Call: id = NewNumberID(atomic.AddInt32(&c.seq, 1)) *)
| AReg (t : nat)           (* Call: c.pending[id] = rchan *)
| ALock (t : nat)          (* c.write: writeMu.Lock() *)
| AWriteCancelled (t : nat)(* stream.Write: ctx.Done() ready, return before writing; writeMu.Unlock() *)
| AHeader (t : nat)        (* stream.Write: fmt.Fprintf(conn, "Content-Length: %v\r\n\r\n") succeeds *)
| ABody (t : nat)          (* stream.Write: conn.Write(data) succeeds *)
| AHeaderFail (t k : nat)  (* stream.Write: the header's conn.Write takes k bytes (fewer than given) and returns an
                              error; stream.Write returns it; writeMu.Unlock() *)
| ABodyFail (t k : nat)    (* stream.Write: the body's conn.Write takes k bytes (fewer than given) and returns an
                              error; stream.Write returns it; writeMu.Unlock() *)
| AUnlock (t : nat)        (* c.write: writeMu.Unlock() *)
| ATake (t : nat)          (* Call: case resp := <-rchan *)
| ACancel (t : nat)        (* Call: case <-ctx.Done() *)
| ACleanup (t : nat)       (* Call: deferred delete(c.pending, id); return *)
| ARead (r : resp)         (* run: a *Response read from the stream; rchan, ok := c.pending[msg.id] *)
| ASend                    (* run: rchan <- msg   (blocks while the channel is full) *)
| AEof.                    (* run: stream.Read returns an error - the peer hung up (io.EOF), the stream was closed, a
                              frame was cut or malformed -; c.fail(err) (which closes the stream); return; the deferred
                              close(c.done).  At ANY moment at which the loop is about to read: before, between and
                              after the responses.  Call does not look at c.done: a call whose response is in its
                              channel still takes it, a call without one waits for its context *)

Definition with_threads (s : state) (f : nat -> thread) : state :=
  mkS f (pending s) (lock s) (wire s) (sent s) (next_id s) (run s) (down s) (torn s) (senders s) (closed s).

Definition is_pc (p q : pc) : bool :=
  match p, q with
  | PStart, PStart | PIdd, PIdd | PReady, PReady | PLocked, PLocked | PHeader, PHeader
  | PBody, PBody | PWait, PWait | PSel, PSel | PDone, PDone => true
  | _, _ => false
  end.
Definition is_call (th : thread) : bool := match t_kind th with KCall => true | KWrite => false end.

(* the thread returns from c.write with the error of a failed conn.Write *)
Definition failed (th : thread) : thread :=
  mkT (t_kind th) (if is_call th then PSel else PDone) (t_id th) (t_payload th) (t_chan th) (t_ctx th)
      (Some TransportErr).

Definition step (s : state) (a : action) : option state :=
  match a with
  | ACtx t =>
      let th := threads s t in
      Some (with_threads s (upd (threads s) t
        (mkT (t_kind th) (t_pc th) (t_id th) (t_payload th) (t_chan th) true (t_ret th))))
  | ASeq t =>
      let th := threads s t in
      if is_call th && is_pc (t_pc th) PStart then
        Some (mkS (upd (threads s) t (mkT KCall PIdd (S (next_id s)) (t_payload th) (t_chan th) (t_ctx th) (t_ret th)))
                  (pending s) (lock s) (wire s) (sent s) (S (next_id s)) (run s) (down s) (torn s) (senders s) (closed s))
      else None
  | AReg t =>
      let th := threads s t in
      if is_call th && is_pc (t_pc th) PIdd then
        Some (mkS (upd (threads s) t (set_pc th PReady))
                  ((t_id th, t) :: pending s) (lock s) (wire s) (sent s) (next_id s) (run s) (down s) (torn s) (senders s) (closed s))
      else None
  | ALock t =>
      let th := threads s t in
      match lock s with
      | None => if is_pc (t_pc th) PReady then
                  Some (mkS (upd (threads s) t (set_pc th PLocked))
                            (pending s) (Some t) (wire s) (sent s) (next_id s) (run s) (down s) (torn s) (senders s) (closed s))
                else None
      | Some _ => None
      end
  | AWriteCancelled t =>
      let th := threads s t in
      if is_pc (t_pc th) PLocked && t_ctx th then
        Some (mkS (upd (threads s) t
                    (mkT (t_kind th) (if is_call th then PSel else PDone) (t_id th) (t_payload th)
                         (t_chan th) (t_ctx th) (Some WriteFailed)))
                  (pending s) None (wire s) (sent s) (next_id s) (run s) (down s) (torn s) (senders s) (closed s))
      else None
  | AHeader t =>
      let th := threads s t in
      if is_pc (t_pc th) PLocked && negb (down s) then
        Some (mkS (upd (threads s) t (set_pc th PHeader))
                  (pending s) (lock s) (wire s ++ frame_header (t_payload th)) (sent s) (next_id s) (run s)
                  (down s) (torn s) (senders s) (closed s))
      else None
  | ABody t =>
      let th := threads s t in
      if is_pc (t_pc th) PHeader && negb (down s) then
        Some (mkS (upd (threads s) t (set_pc th PBody))
                  (pending s) (lock s) (wire s ++ t_payload th) (sent s ++ [t_payload th]) (next_id s) (run s)
                  (down s) (torn s) (senders s ++ [t]) (closed s))
      else None
  | AHeaderFail t k =>
      let th := threads s t in
      if is_pc (t_pc th) PLocked && Nat.ltb k (length (frame_header (t_payload th))) then
        let got := firstn k (frame_header (t_payload th)) in   (* a connection that is down takes nothing *)
        Some (mkS (upd (threads s) t (failed th))
                  (pending s) None (if down s then wire s else wire s ++ got) (sent s) (next_id s) (run s)
                  true (if down s then torn s else got) (senders s) (closed s))
      else None
  | ABodyFail t k =>
      let th := threads s t in
      if is_pc (t_pc th) PHeader && Nat.ltb k (length (t_payload th)) then
        let got := firstn k (t_payload th) in
        Some (mkS (upd (threads s) t (failed th))
                  (pending s) None (if down s then wire s else wire s ++ got) (sent s) (next_id s) (run s)
                  true (if down s then torn s else frame_header (t_payload th) ++ got) (senders s) (closed s))
      else None
  | AUnlock t =>
      let th := threads s t in
      if is_pc (t_pc th) PBody then
        Some (mkS (upd (threads s) t
                    (if is_call th then set_pc th PWait
                     else mkT (t_kind th) PDone (t_id th) (t_payload th) (t_chan th) (t_ctx th) (Some Sent)))
                  (pending s) None (wire s) (sent s) (next_id s) (run s) (down s) (torn s) (senders s) (closed s))
      else None
  | ATake t =>
      let th := threads s t in
      if is_pc (t_pc th) PWait then
        match t_chan th with
        | Some r => Some (with_threads s (upd (threads s) t
                      (mkT (t_kind th) PSel (t_id th) (t_payload th) None (t_ctx th) (Some (Got r)))))
        | None => None
        end
      else None
  | ACancel t =>
      let th := threads s t in
      if is_pc (t_pc th) PWait && t_ctx th then
        Some (with_threads s (upd (threads s) t
               (mkT (t_kind th) PSel (t_id th) (t_payload th) (t_chan th) (t_ctx th) (Some Cancelled))))
      else None
  | ACleanup t =>
      let th := threads s t in
      if is_pc (t_pc th) PSel then
        Some (mkS (upd (threads s) t (set_pc th PDone))
                  (delete (t_id th) (pending s)) (lock s) (wire s) (sent s) (next_id s) (run s)
                  (down s) (torn s) (senders s) (closed s))
      else None
  | ARead r =>
      match run s with
      | Some _ => None                                      (* the loop is busy sending *)
      | None =>
          if closed s then None else                        (* the loop has returned *)
          match lookup (fst r) (pending s) with
          | Some t => Some (mkS (threads s) (pending s) (lock s) (wire s) (sent s) (next_id s) (Some (r, t))
                                (down s) (torn s) (senders s) (closed s))
          | None => Some s                                  (* nobody waits for this id: dropped *)
          end
      end
  | ASend =>
      match run s with
      | Some (r, t) =>
          let th := threads s t in
          match t_chan th with
          | None => Some (mkS (upd (threads s) t
                          (mkT (t_kind th) (t_pc th) (t_id th) (t_payload th) (Some r) (t_ctx th) (t_ret th)))
                        (pending s) (lock s) (wire s) (sent s) (next_id s) None (down s) (torn s) (senders s) (closed s))
          | Some _ => None                                  (* channel full: the send blocks *)
          end
      | None => None
      end
  | AEof =>
      match run s with
      | Some _ => None                                      (* the loop is busy sending *)
      | None =>
          if closed s then None else
          Some (mkS (threads s) (pending s) (lock s) (wire s) (sent s) (next_id s) None (down s) (torn s)
                    (senders s) true)
      end
  end.

Fixpoint exec (s : state) (tr : list action) : option state :=
  match tr with
  | [] => Some s
  | a :: r => match step s a with Some s' => exec s' r | None => None end
  end.

(* what is on the wire beyond the complete frames: the torn frame of the Write that failed, else the
   header of the lock holder *)
Definition partial (s : state) : bytes :=
  if down s then torn s else
  match lock s with
  | Some t => if is_pc (t_pc (threads s t)) PHeader then frame_header (t_payload (threads s t)) else []
  | None => []
  end.

Definition quiescent (s : state) : Prop := forall t, t_pc (threads s t) = PDone.

(* c.write returned nil for this thread: its frame is complete *)
Definition wrote (th : thread) : bool :=
  is_pc (t_pc th) PBody || is_pc (t_pc th) PWait ||
  match t_ret th with Some (Got _) | Some Cancelled | Some Sent => true | _ => false end.
