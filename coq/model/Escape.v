(* Model of the HTML escaper and of the runtime writers that place strings into attribute values.
     escape                = html.EscapeString = templ.EscapeString            (/repo/runtime.go)
     render_attrs          = templ.RenderAttributes over the value sum type     (/repo/runtime.go)
     json_script_header    = the start tag JSONScriptElement.Render writes      (/repo/jsonscript.go)
     script_header         = writeScriptHeader                                  (/repo/scripttemplate.go)
     css_string            = CSSClasses.String via cssProcessor                 (/repo/runtime.go)
   Definitions only; proofs are in proofs/EscapeProof.v. *)
From Coq.Strings Require Import Byte String.
From Coq Require Import List NArith Bool.
Import ListNotations.
From V Require Import lib.Bytes.

(* html.EscapeString: strings.NewReplacer over the five pairs  & -> &amp;   ' -> &#39;   < -> &lt;   > -> &gt;
   and the double quote -> &#34;  -  a byte-wise replacement (all five are single ASCII bytes, so UTF-8
   validity of s plays no role). *)
Definition esc1 (b : byte) : bytes :=
  if Byte.eqb b x26 then bs "&amp;"
  else if Byte.eqb b x27 then bs "&#39;"
  else if Byte.eqb b x3c then bs "&lt;"
  else if Byte.eqb b x3e then bs "&gt;"
  else if Byte.eqb b x22 then bs "&#34;"
  else [b].
Definition escape (s : bytes) : bytes := flat_map esc1 s.

(* ---------- templ.RenderAttributes ---------- *)
(* the dynamic types RenderAttributes' type switch distinguishes; anything else is skipped *)
Inductive aval :=
| VString (s : bytes)
| VStringPtr (s : option bytes)              (* *string, None = nil *)
| VBool (b : bool)
| VBoolPtr (b : option bool)                 (* *bool *)
| VKVStringBool (s : bytes) (b : bool)       (* templ.KeyValue[string,bool]{Key: s, Value: b} *)
| VKVBoolBool (a b : bool)                   (* templ.KeyValue[bool,bool]{Key: a, Value: b} *)
| VFuncBool (b : bool)                       (* func() bool, by its result *)
| VOther.                                    (* any other dynamic type: no case in the switch *)

(* writeStrings(w, SPACE, EscapeString(key), EQUALS DQUOTE, EscapeString(value), DQUOTE) *)
Definition attr_kv (k v : bytes) : bytes := [x20] ++ escape k ++ [x3d; x22] ++ escape v ++ [x22].
(* writeStrings(w, SPACE, EscapeString(key)) *)
Definition attr_bool (k : bytes) : bytes := [x20] ++ escape k.
Definition render_attr (kv : bytes * aval) : bytes :=
  let '(k, v) := kv in
  match v with
  | VString s => attr_kv k s
  | VStringPtr (Some s) => attr_kv k s
  | VKVStringBool s true => attr_kv k s
  | VBool true | VBoolPtr (Some true) | VKVBoolBool true true | VFuncBool true => attr_bool k
  | _ => []
  end.

(* sortedKeys: sort.Strings = byte-wise lexicographic order; map keys are distinct *)
Fixpoint bytes_leb (a b : bytes) : bool :=
  match a, b with
  | [], _ => true
  | _ :: _, [] => false
  | x :: a', y :: b' => if Byte.eqb x y then bytes_leb a' b' else (bN x <? bN y)%N
  end.
Fixpoint insert_kv (kv : bytes * aval) (l : list (bytes * aval)) : list (bytes * aval) :=
  match l with
  | [] => [kv]
  | h :: t => if bytes_leb (fst kv) (fst h) then kv :: l else h :: insert_kv kv t
  end.
Definition sort_kv (m : list (bytes * aval)) : list (bytes * aval) := fold_right insert_kv [] m.

(* the bytes written for a key-sorted attribute list *)
Definition render_attrs_sorted (m : list (bytes * aval)) : bytes := flat_map render_attr m.
(* templ.RenderAttributes on a map given as an association list in any order *)
Definition render_attrs (m : list (bytes * aval)) : bytes := render_attrs_sorted (sort_kv m).

(* ---------- script element start tags ---------- *)
(* one optional attribute: when v is not empty, Fprintf(w, SPACE name EQUALS DQUOTE %s DQUOTE, EscapeString(v));
   name is a constant *)
Definition opt_attr (name v : bytes) : bytes :=
  match v with [] => [] | _ => [x20] ++ name ++ [x3d; x22] ++ escape v ++ [x22] end.
(* JSONScriptElement.Render up to and including '>' *)
Definition json_script_header (id ty nonce : bytes) : bytes :=
  bs "<script" ++ opt_attr (bs "id") id ++ opt_attr (bs "type") ty ++ opt_attr (bs "nonce") nonce ++ [x3e].
(* writeScriptHeader: <script%s> with nonceAttr = SPACE nonce EQUALS DQUOTE EscapeString(nonce) DQUOTE when the
   nonce is not empty *)
Definition script_header (nonce : bytes) : bytes := bs "<script" ++ opt_attr (bs "nonce") nonce ++ [x3e].

(* ---------- CSSClasses.String ---------- *)
(* cssProcessor after all Add calls: the (name, enabled) pairs in call order.  String(): a name is kept iff
   its LAST entry is enabled; each kept name once, at its first position; joined with one space. *)
Fixpoint last_enabled (name : bytes) (l : list (bytes * bool)) (cur : bool) : bool :=
  match l with [] => cur | (n, e) :: r => last_enabled name r (if bytes_eqb n name then e else cur) end.
Fixpoint css_names (all l : list (bytes * bool)) (seen : list bytes) : list bytes :=
  match l with
  | [] => []
  | (n, _) :: r =>
      if last_enabled n all false && negb (existsb (bytes_eqb n) seen) then n :: css_names all r (n :: seen)
      else css_names all r seen
  end.
Fixpoint join_sp (l : list bytes) : bytes :=
  match l with [] => [] | [a] => a | a :: r => a ++ [x20] ++ join_sp r end.
Definition css_string (l : list (bytes * bool)) : bytes := join_sp (css_names l l []).
