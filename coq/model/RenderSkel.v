(* C10 - model of a render as the generated code performs it.  Definitions only.

   generator/generator.go writeTemplate / writeTemplBuffer emit, for every template:
       if ctxErr := ctx.Err(); ctxErr != nil { return ctxErr }                    (not in block closures)
       buf, isBuf := templruntime.GetBuffer(w)                                    runtime/bufferpool.go
       if !isBuf { defer func() { bufErr := templruntime.ReleaseBuffer(buf); if err == nil { err = bufErr } }() }
       <statement>; if err != nil { return err }   ...                            writeErrorHandler / writeExpressionErrorHandler
       return nil
   GetBuffer(w): w already a *runtime.Buffer -> share it; otherwise bufferPool.Get() then Buffer.Reset(w).
   ReleaseBuffer(b): err = b.Flush(); bufferPool.Put(b).
   Nested components are rendered with the *runtime.Buffer as their writer, so they share it. *)
From Coq.Strings Require Import Byte String.
From Coq Require Import List NArith Bool Arith.
Import ListNotations.
From V Require Import lib.Bytes spec.RenderSpec model.Bufio.
Local Open Scope nat_scope.

(* html.EscapeString (templ.EscapeString) *)
Fixpoint html_escape (s : bytes) : bytes :=
  match s with
  | [] => []
  | c :: r =>
      (if Byte.eqb c x26 then bs "&amp;"
       else if Byte.eqb c x27 then bs "&#39;"
       else if Byte.eqb c x3c then bs "&lt;"
       else if Byte.eqb c x3e then bs "&gt;"
       else if Byte.eqb c x22 then bs "&#34;"
       else [c]) ++ html_escape r
  end.

Section Skel.
Variable sink_st : Type.
Variable sink : sink_st -> bytes -> nat * option err * sink_st.
Variable cap : nat.
Variable sw : bool.                            (* the destination implements io.StringWriter *)
Variable flusher : bool.                       (* the destination implements http.Flusher *)
Variable esc : bytes -> bytes.
Variable env : list nat -> N -> bytes * option N.
Variable benv : list nat -> N -> bool.
Variable senv : list nat -> N -> nat.
Variable cnt : list nat -> N -> nat.
Variable cancel : option N.

Notation worldT := (world sink_st).
(* what a component sees: the shared *runtime.Buffer and, behind it, the destination *)
Record rstate := { rb : bw; rw : worldT }.

(* Buffer.WriteString / Buffer.Write: the bufio loop on enough fuel for a destination that honours io.Writer *)
Definition do_write (direct : bool) (st : rstate) (s : bytes) : rstate * option err :=
  let '(b, w) := bw_write sink_st sink cap direct (length s + 2) (rb st) (rw st) s in
  ({| rb := b; rw := w |}, berr b).

(* runtime.Buffer.Flush: bufio flush, then the destination's http.Flusher *)
Definition buffer_flush (st : rstate) : rstate * option err :=
  let '(b, w) := bw_flush sink_st sink (rb st) (rw st) in
  match berr b with
  | Some x => ({| rb := b; rw := w |}, Some x)
  | None => ({| rb := b;
                rw := if flusher
                      then {| sst := sst w; recv := recv w; log := log w; marks := marks w ++ [length (recv w)] |}
                      else w |}, None)
  end.

(* a statement sequence with `if err != nil { return err }` after every statement *)
Section SeqR.
Variable A : Type.
Variable f : A -> rstate -> rstate * option err.
Fixpoint seq_r (l : list A) (st : rstate) : rstate * option err :=
  match l with
  | [] => (st, None)
  | x :: r => let '(st1, e) := f x st in
              match e with
              | Some _ => (st1, e)
              | None => seq_r r st1
              end
  end.
End SeqR.

Definition run_op (o : fop) (st : rstate) : rstate * option err :=
  match o with
  | FWrite p => do_write true st p
  | FWriteString s => do_write sw st s
  | FFail n => (st, Some (EComp n))
  end.

(* a component rendered with the shared buffer as its writer *)
(* generator.go writeIfExpression / writeSwitchExpression / writeConditionalAttribute / writeBoolExpressionAttribute:
   the condition as Go evaluates it *)
Definition test (path : list nat) (c : cond) : bool :=
  match c with
  | CBool id => benv path id
  | CCase id k => Nat.eqb (senv path id) k
  end.

Fixpoint run (n : node) (path : list nat) (st : rstate) : rstate * option err :=
  match n with
  | Lit s => do_write sw st s                                   (* runtime/watchmode.go WriteString -> io.WriteString *)
  | Expr id f l c =>
      match env path id with
      | (_, Some x) => (st, Some (ETempl f l c (EExpr x)))       (* writeExpressionErrorHandler *)
      | (v, None) => do_write sw st (esc v)
      end
  | Templ g body =>
      if g then match cancel with
                | Some c => (st, Some (ECtx c))
                | None => seq_r node (fun x => run x path) body st   (* GetBuffer: is a buffer, shared, no release *)
                end
      else seq_r node (fun x => run x path) body st
  | Join cs => seq_r node (fun x => run x path) cs st            (* join.go *)
  | Flush ch =>                                                  (* flush.go: children, then w.(flusherError).Flush() *)
      let '(st1, e) := seq_r node (fun x => run x path) ch st in
      match e with
      | Some _ => (st1, e)
      | None => buffer_flush st1
      end
  | Raw h e => match e with                                      (* runtime.go Raw *)
               | Some x => (st, Some (EComp x))
               | None => do_write sw st h
               end
  | Func ops => seq_r fop run_op ops st
  | Nop => (st, None)
  | If c thn els =>                                              (* if c { thn } else { els }, every statement checked *)
      if test path c then seq_r node (fun x => run x path) thn st
      else seq_r node (fun x => run x path) els st
  | For id body =>                                               (* generator.go writeForExpression: the body once per element;
                                                                    `return err` inside the body leaves the loop and the template *)
      seq_r nat (fun k => seq_r node (fun x => run x (k :: path)) body) (seq 0 (cnt path id)) st
  end.

(* sync.Pool: Get returns any buffer put back earlier, or a new one *)
Fixpoint take {A} (i : nat) (l : list A) : option (A * list A) :=
  match l, i with
  | [], _ => None
  | x :: r, O => Some (x, r)
  | x :: r, S j => match take j r with Some (y, r') => Some (y, x :: r') | None => None end
  end.
Definition acquire (pool : list bw) (choice : nat) : bw * list bw :=
  match take choice pool with Some (b, rest) => (b, rest) | None => (bw_fresh, pool) end.

(* Render of a generated template (or block closure) on a destination that is not a *runtime.Buffer.
   reset = true is the code (GetBuffer calls Buffer.Reset); reset = false is kept to show what the Reset is for. *)
Definition render_top (reset : bool) (pool : list bw) (choice : nat) (g : bool) (body : list node) (w0 : worldT)
  : option err * worldT * list bw :=
  match (if g then cancel else None) with
  | Some c => (Some (ECtx c), w0, pool)
  | None =>
      let '(b0, pool1) := acquire pool choice in
      let b := if reset then bw_reset b0 else b0 in
      let '(st1, e) := seq_r node (fun x => run x []) body {| rb := b; rw := w0 |} in
      let '(st2, fe) := buffer_flush st1 in                         (* deferred ReleaseBuffer *)
      (match e with Some x => Some x | None => fe end, rw st2, rb st2 :: pool1)
  end.
End Skel.

Arguments rb {sink_st} _.
Arguments rw {sink_st} _.

(* ---------- sequences of renders sharing the two pools ---------- *)
(* bytes.Buffer as a destination: accepts everything, implements io.StringWriter, no Flush *)
Definition buffer_sink (s : unit) (p : bytes) : nat * option err * unit := (length p, None, tt).

Section Jobs.
Variable sink_st : Type.
Variable sink : sink_st -> bytes -> nat * option err * sink_st.
Variable cap : nat.
Variable sw : bool.
Variable flusher : bool.
Variable esc : bytes -> bytes.

Record job := { j_env : list nat -> N -> bytes * option N;
                j_benv : list nat -> N -> bool;
                j_senv : list nat -> N -> nat;
                j_cnt : list nat -> N -> nat;
                j_cancel : option N;
                j_guard : bool;
                j_body : list node;
                j_html : bool;            (* templ.ToGoHTML(ctx, component) instead of component.Render(ctx, w) *)
                j_sink0 : sink_st;        (* the destination's state when the render starts *)
                j_choice : nat;           (* which pooled *runtime.Buffer sync.Pool hands out *)
                j_choice2 : nat }.        (* which pooled *bytes.Buffer sync.Pool hands out (ToGoHTML) *)
Record obs := { o_err : option err; o_out : bytes; o_log : list logent; o_marks : list nat }.
(* the two pools: runtime/bufferpool.go bufferPool, runtime.go bufferPool (contents of each pooled bytes.Buffer) *)
Notation pools := (list bw * list bytes)%type.

Definition acquire2 (pool : list bytes) (choice : nat) : bytes * list bytes :=
  match take choice pool with Some (b, rest) => (b, rest) | None => ([], pool) end.

(* reset_acq: Buffer.Reset in templruntime.GetBuffer; reset_rel: bytes.Buffer.Reset in templ.ReleaseBuffer *)
Definition run_job (reset_acq reset_rel : bool) (ps : pools) (j : job) : obs * pools :=
  if j_html j then
    (* runtime.go ToGoHTML: b := GetBuffer(); defer ReleaseBuffer(b); err = c.Render(ctx, b); s = b.String() *)
    let '(c, bp1) := acquire2 (snd ps) (j_choice2 j) in
    let '(e, w, rp) := render_top unit buffer_sink cap true false esc (j_env j) (j_benv j) (j_senv j) (j_cnt j) (j_cancel j) reset_acq (fst ps) (j_choice j)
                                  (j_guard j) (j_body j) {| sst := tt; recv := c; log := []; marks := [] |} in
    ({| o_err := e; o_out := match e with None => recv w | Some _ => [] end; o_log := []; o_marks := [] |},
     (rp, (if reset_rel then [] else recv w) :: bp1))
  else
    let '(e, w, rp) := render_top sink_st sink cap sw flusher esc (j_env j) (j_benv j) (j_senv j) (j_cnt j) (j_cancel j) reset_acq (fst ps) (j_choice j)
                                  (j_guard j) (j_body j) {| sst := j_sink0 j; recv := []; log := []; marks := [] |} in
    ({| o_err := e; o_out := recv w; o_log := log w; o_marks := marks w |}, (rp, snd ps)).

Fixpoint run_jobs (reset_acq reset_rel : bool) (ps : pools) (js : list job) : list obs :=
  match js with
  | [] => []
  | j :: r => let '(o, ps') := run_job reset_acq reset_rel ps j in o :: run_jobs reset_acq reset_rel ps' r
  end.
End Jobs.

(* ---------- the scripted faulty destination the harness uses (run/run.go type Sink) ---------- *)
(* limit: bytes accepted before the fault; mode: 0 never fails; 1 error, accepting up to the limit in the failing
   call; 2 error, accepting nothing of the failing call; 3 short count with nil error once, then accepts again;
   4 short count with nil error, then (0, nil) for ever. *)
Record fsink := { f_mode : N; f_limit : nat; f_tripped : bool; f_err : N }.
Definition fsink_step (s : fsink) (p : bytes) : nat * option err * fsink :=
  let trip := {| f_mode := f_mode s; f_limit := 0; f_tripped := true; f_err := f_err s |} in
  let go n := {| f_mode := f_mode s; f_limit := f_limit s - n; f_tripped := false; f_err := f_err s |} in
  if N.eqb (f_mode s) 0 then (length p, None, s)
  else if f_tripped s then
    (if N.eqb (f_mode s) 3 then (length p, None, s)
     else if N.eqb (f_mode s) 4 then (0, None, s)
     else (0, Some (ESink (f_err s)), s))
  else if length p <=? f_limit s then (length p, None, go (length p))
  else if N.eqb (f_mode s) 1 then (f_limit s, Some (ESink (f_err s)), trip)
  else if N.eqb (f_mode s) 2 then (0, Some (ESink (f_err s)), trip)
  else (f_limit s, None, trip).
