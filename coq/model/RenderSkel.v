(* C10 - model of a render as the generated code performs it.  Definitions only.

   generator/generator.go writeTemplate / writeTemplBuffer emit, for every template:
       if ctxErr := ctx.Err(); ctxErr != nil { return ctxErr }                    (not in block closures)
       buf, isBuf := templruntime.GetBuffer(w)                                    runtime/bufferpool.go
       if !isBuf { defer func() { bufErr := templruntime.ReleaseBuffer(buf); if err == nil { err = bufErr } }() }
       <statement>; if err != nil { return err }   ...                            writeErrorHandler / writeExpressionErrorHandler
       return nil
   GetBuffer(w): w already a *runtime.Buffer -> share it; otherwise bufferPool.Get() then Buffer.Reset(w).
   ReleaseBuffer(b): err = b.Flush(); bufferPool.Put(b).
   Nested components are rendered with the *runtime.Buffer as their writer, so they share it. *)
From Coq.Strings Require Import Byte String.
From Coq Require Import List NArith Bool Arith.
Import ListNotations.
From V Require Import lib.Bytes spec.RenderSpec model.Bufio.
Local Open Scope nat_scope.

(* html.EscapeString (templ.EscapeString) *)
Fixpoint html_escape (s : bytes) : bytes :=
  match s with
  | [] => []
  | c :: r =>
      (if Byte.eqb c x26 then bs "&amp;"
       else if Byte.eqb c x27 then bs "&#39;"
       else if Byte.eqb c x3c then bs "&lt;"
       else if Byte.eqb c x3e then bs "&gt;"
       else if Byte.eqb c x22 then bs "&#34;"
       else [c]) ++ html_escape r
  end.

(* Everything below takes the destination (its state type and its step function) as an ordinary argument: a block of
   children that a hand-written component renders into a writer of its own runs on ANOTHER destination - that writer,
   with the enclosing render's buffer and destination behind it - so [run] calls itself at a different destination type. *)

(* what a component sees: the shared *runtime.Buffer and, behind it, the destination *)
Record rstate (sink_st : Type) := { rb : bw; rw : world sink_st }.
Arguments rb {sink_st} _.
Arguments rw {sink_st} _.

(* Buffer.WriteString / Buffer.Write: the bufio loop on enough fuel for a destination that honours io.Writer *)
Definition do_write (sink_st : Type) (sink : sink_st -> bytes -> nat * option err * sink_st) (cap : nat)
                    (direct : bool) (st : rstate sink_st) (s : bytes) : rstate sink_st * option err :=
  let '(b, w) := bw_write sink_st sink cap direct (length s + 2) (rb st) (rw st) s in
  ({| rb := b; rw := w |}, berr b).

(* runtime.Buffer.Flush: bufio flush, then the destination's http.Flusher *)
Definition buffer_flush (sink_st : Type) (sink : sink_st -> bytes -> nat * option err * sink_st) (flusher : bool)
                        (st : rstate sink_st) : rstate sink_st * option err :=
  let '(b, w) := bw_flush sink_st sink (rb st) (rw st) in
  match berr b with
  | Some x => ({| rb := b; rw := w |}, Some x)
  | None => ({| rb := b;
                rw := if flusher
                      then {| sst := sst w; recv := recv w; log := log w; marks := marks w ++ [length (recv w)] |}
                      else w |}, None)
  end.

(* a statement sequence with `if err != nil { return err }` after every statement *)
Section SeqR.
Variable sink_st : Type.
Variable A : Type.
Variable f : A -> rstate sink_st -> rstate sink_st * option err.
Fixpoint seq_r (l : list A) (st : rstate sink_st) : rstate sink_st * option err :=
  match l with
  | [] => (st, None)
  | x :: r => let '(st1, e) := f x st in
              match e with
              | Some _ => (st1, e)
              | None => seq_r r st1
              end
  end.
End SeqR.

Definition run_op (sink_st : Type) (sink : sink_st -> bytes -> nat * option err * sink_st) (cap : nat) (sw : bool)
                  (o : fop) (st : rstate sink_st) : rstate sink_st * option err :=
  match o with
  | FWrite p => do_write sink_st sink cap true st p
  | FWriteString s => do_write sink_st sink cap sw st s
  | FFail n => (st, Some (EComp n))
  end.

(* generator.go writeIfExpression / writeSwitchExpression / writeConditionalAttribute / writeBoolExpressionAttribute:
   the condition as Go evaluates it *)
Definition test (benv : list nat -> N -> bool) (senv : list nat -> N -> nat) (path : list nat) (c : cond) : bool :=
  match c with
  | CBool id => benv path id
  | CCase id k => Nat.eqb (senv path id) k
  end.

(* bytes.Buffer as a destination: accepts everything, implements io.StringWriter, no Flush *)
Definition buffer_sink (s : unit) (p : bytes) : nat * option err * unit := (length p, None, tt).

(* ---------- a block of children rendered into a writer that is not the enclosing render's *runtime.Buffer ---------- *)
(* generator.go writeBlockTemplElementExpression emits the block as a closure with the same prologue as a template
   (writeTemplBuffer) but no ctx.Err check.  Handed a writer that is not a *runtime.Buffer, GetBuffer takes a pooled
   buffer and Resets it onto that writer (as new, whatever the pool held: Buffer.Reset), the body writes into it,
   and the deferred ReleaseBuffer flushes it; the closure adopts the flush error if the body returned nil.
   own = true is the code; own = false (the block does not release the buffer it took) is kept to show what that
   release is for: RenderSkelProof.block_without_own_release. *)
Definition closure_top (sink_st : Type) (sink : sink_st -> bytes -> nat * option err * sink_st) (flusher : bool) (own : bool)
                       (body : rstate sink_st -> rstate sink_st * option err) (w0 : world sink_st)
  : option err * world sink_st :=
  let '(st1, e) := body {| rb := bw_reset bw_fresh; rw := w0 |} in
  if own then
    let '(st2, fe) := buffer_flush sink_st sink flusher st1 in
    (match e with Some x => Some x | None => fe end, rw st2)
  else (e, rw st1).

(* the component renders the block k times, stopping at the first error *)
Fixpoint closure_times {W : Type} (f : W -> option err * W) (k : nat) (w : W) : option err * W :=
  match k with
  | O => (None, w)
  | S k' => let '(e, w1) := f w in
            match e with
            | Some _ => (e, w1)
            | None => closure_times f k' w1
            end
  end.

(* the component's own forwarding writer: how many bytes it may still take, and whether it has failed *)
Record hstate := { h_rem : option nat; h_trip : bool }.

(* fw.Write(p) for the forwarding writer of a hand-written component, in front of the *runtime.Buffer st that component
   was given:     if fw.failed { return 0, fw.err }
                  q := p; if fw.limited && len(p) > fw.rem { q = p[:fw.rem] }
                  n, err := fw.w.Write(q); fw.rem -= n                     (Buffer.Write = bufio.Writer.Write)
                  if err != nil { return n, err }
                  if len(q) < len(p) { fw.failed = true; return n, fw.err }
                  return n, nil
   n counts the bytes bufio.Writer.Write consumed: copied into its buffer or accepted by what is behind it. *)
Definition fwd_step (sink_st : Type) (sink : sink_st -> bytes -> nat * option err * sink_st) (cap : nat) (x : N)
                    (s : hstate * rstate sink_st) (p : bytes) : nat * option err * (hstate * rstate sink_st) :=
  let h := fst s in
  let st := snd s in
  if h_trip h then (0, Some (EComp x), s)
  else
    let q := match h_rem h with Some r => firstn r p | None => p end in
    let '(st', e) := do_write sink_st sink cap true st q in
    let n := length (recv (rw st')) + length (buf (rb st')) - (length (recv (rw st)) + length (buf (rb st))) in
    let rem' := match h_rem h with Some r => Some (r - n) | None => None end in
    match e with
    | Some y => (n, Some y, ({| h_rem := rem'; h_trip := false |}, st'))
    | None => if length q <? length p
              then (n, Some (EComp x), ({| h_rem := rem'; h_trip := true |}, st'))
              else (n, None, ({| h_rem := rem'; h_trip := false |}, st'))
    end.

(* a hand-written component that renders the block through a forwarding writer of its own *)
Definition host_fwd (sink_st : Type) (sink : sink_st -> bytes -> nat * option err * sink_st) (cap : nat) (own : bool)
                    (limit : option nat) (x : N) (own_first : bool) (times : nat)
                    (body : rstate (hstate * rstate sink_st) -> rstate (hstate * rstate sink_st) * option err)
                    (st : rstate sink_st) : rstate sink_st * option err :=
  let '(r, w') := closure_times (closure_top (hstate * rstate sink_st) (fwd_step sink_st sink cap x) false own body) times
                    {| sst := ({| h_rem := limit; h_trip := false |}, st); recv := []; log := []; marks := [] |} in
  (snd (sst w'), if own_first && h_trip (fst (sst w')) then Some (EComp x) else r).

(* ... into a bytes.Buffer of its own, copied to the writer it was given once the children have returned nil *)
Definition host_capture (sink_st : Type) (sink : sink_st -> bytes -> nat * option err * sink_st) (cap : nat) (own : bool)
                        (times : nat) (body : rstate unit -> rstate unit * option err)
                        (st : rstate sink_st) : rstate sink_st * option err :=
  let '(r, w') := closure_times (closure_top unit buffer_sink false own body) times
                    {| sst := tt; recv := []; log := []; marks := [] |} in
  match r with
  | Some e => (st, Some e)
  | None => do_write sink_st sink cap true st (recv w')
  end.

(* a component rendered with the shared buffer as its writer *)
Fixpoint run (sink_st : Type) (sink : sink_st -> bytes -> nat * option err * sink_st) (cap : nat)
             (sw : bool)                            (* the destination implements io.StringWriter *)
             (flusher : bool)                       (* the destination implements http.Flusher *)
             (esc : bytes -> bytes) (env : list nat -> N -> bytes * option N) (benv : list nat -> N -> bool)
             (senv : list nat -> N -> nat) (cnt : list nat -> N -> nat) (cancel : option N)
             (n : node) (path : list nat) (st : rstate sink_st) {struct n} : rstate sink_st * option err :=
  match n with
  | Lit s => do_write sink_st sink cap sw st s                  (* runtime/watchmode.go WriteString -> io.WriteString *)
  | Expr id f l c =>
      match env path id with
      | (_, Some x) => (st, Some (ETempl f l c (EExpr x)))       (* writeExpressionErrorHandler *)
      | (v, None) => do_write sink_st sink cap sw st (esc v)
      end
  | Templ g body =>
      if g then match cancel with
                | Some c => (st, Some (ECtx c))
                | None => seq_r sink_st node (fun x => run sink_st sink cap sw flusher esc env benv senv cnt cancel x path) body st
                                                                 (* GetBuffer: is a buffer, shared, no release *)
                end
      else seq_r sink_st node (fun x => run sink_st sink cap sw flusher esc env benv senv cnt cancel x path) body st
  | Join cs => seq_r sink_st node (fun x => run sink_st sink cap sw flusher esc env benv senv cnt cancel x path) cs st   (* join.go *)
  | Flush ch =>                                                  (* flush.go: children, then w.(flusherError).Flush() *)
      let '(st1, e) := seq_r sink_st node (fun x => run sink_st sink cap sw flusher esc env benv senv cnt cancel x path) ch st in
      match e with
      | Some _ => (st1, e)
      | None => buffer_flush sink_st sink flusher st1
      end
  | Raw h e => match e with                                      (* runtime.go Raw *)
               | Some x => (st, Some (EComp x))
               | None => do_write sink_st sink cap sw st h
               end
  | Func ops => seq_r sink_st fop (run_op sink_st sink cap sw) ops st
  | Nop => (st, None)
  | If c thn els =>                                              (* if c { thn } else { els }, every statement checked *)
      if test benv senv path c
      then seq_r sink_st node (fun x => run sink_st sink cap sw flusher esc env benv senv cnt cancel x path) thn st
      else seq_r sink_st node (fun x => run sink_st sink cap sw flusher esc env benv senv cnt cancel x path) els st
  | For id body =>                                               (* generator.go writeForExpression: the body once per element;
                                                                    `return err` inside the body leaves the loop and the template *)
      seq_r sink_st nat (fun k => seq_r sink_st node (fun x => run sink_st sink cap sw flusher esc env benv senv cnt cancel x (k :: path)) body)
            (seq 0 (cnt path id)) st
  | Host k times ch =>                                           (* c.Render(templ.WithChildren(ctx, block), buffer), c hand-written *)
      match k with
      | HPass =>                                                 (* the block is handed the *runtime.Buffer: shared, no release *)
          seq_r sink_st nat (fun _ => seq_r sink_st node (fun x => run sink_st sink cap sw flusher esc env benv senv cnt cancel x path) ch)
                (seq 0 times) st
      | HFwd limit x own_first =>                                (* its own writer has Write only: no io.StringWriter, no Flush *)
          host_fwd sink_st sink cap true limit x own_first times
            (seq_r (hstate * rstate sink_st) node
                   (fun c => run (hstate * rstate sink_st)%type (fwd_step sink_st sink cap x) cap false false
                                 esc env benv senv cnt cancel c path) ch) st
      | HCapture =>
          host_capture sink_st sink cap true times
            (seq_r unit node (fun c => run unit buffer_sink cap true false esc env benv senv cnt cancel c path) ch) st
      end
  end.

(* sync.Pool: Get returns any buffer put back earlier, or a new one *)
Fixpoint take {A} (i : nat) (l : list A) : option (A * list A) :=
  match l, i with
  | [], _ => None
  | x :: r, O => Some (x, r)
  | x :: r, S j => match take j r with Some (y, r') => Some (y, x :: r') | None => None end
  end.
Definition acquire (pool : list bw) (choice : nat) : bw * list bw :=
  match take choice pool with Some (b, rest) => (b, rest) | None => (bw_fresh, pool) end.

(* Render of a generated template (or block closure) on a destination that is not a *runtime.Buffer.
   reset = true is the code (GetBuffer calls Buffer.Reset); reset = false is kept to show what the Reset is for. *)
Definition render_top (sink_st : Type) (sink : sink_st -> bytes -> nat * option err * sink_st) (cap : nat) (sw flusher : bool)
                      (esc : bytes -> bytes) (env : list nat -> N -> bytes * option N) (benv : list nat -> N -> bool)
                      (senv : list nat -> N -> nat) (cnt : list nat -> N -> nat) (cancel : option N)
                      (reset : bool) (pool : list bw) (choice : nat) (g : bool) (body : list node) (w0 : world sink_st)
  : option err * world sink_st * list bw :=
  match (if g then cancel else None) with
  | Some c => (Some (ECtx c), w0, pool)
  | None =>
      let '(b0, pool1) := acquire pool choice in
      let b := if reset then bw_reset b0 else b0 in
      let '(st1, e) := seq_r sink_st node (fun x => run sink_st sink cap sw flusher esc env benv senv cnt cancel x []) body {| rb := b; rw := w0 |} in
      let '(st2, fe) := buffer_flush sink_st sink flusher st1 in                         (* deferred ReleaseBuffer *)
      (match e with Some x => Some x | None => fe end, rw st2, rb st2 :: pool1)
  end.

(* ---------- sequences of renders sharing the two pools ---------- *)
Section Jobs.
Variable sink_st : Type.
Variable sink : sink_st -> bytes -> nat * option err * sink_st.
Variable cap : nat.
Variable sw : bool.
Variable flusher : bool.
Variable esc : bytes -> bytes.

Record job := { j_env : list nat -> N -> bytes * option N;
                j_benv : list nat -> N -> bool;
                j_senv : list nat -> N -> nat;
                j_cnt : list nat -> N -> nat;
                j_cancel : option N;
                j_guard : bool;
                j_body : list node;
                j_html : bool;            (* templ.ToGoHTML(ctx, component) instead of component.Render(ctx, w) *)
                j_sink0 : sink_st;        (* the destination's state when the render starts *)
                j_choice : nat;           (* which pooled *runtime.Buffer sync.Pool hands out *)
                j_choice2 : nat }.        (* which pooled *bytes.Buffer sync.Pool hands out (ToGoHTML) *)
Record obs := { o_err : option err; o_out : bytes; o_log : list logent; o_marks : list nat }.
(* the two pools: runtime/bufferpool.go bufferPool, runtime.go bufferPool (contents of each pooled bytes.Buffer) *)
Notation pools := (list bw * list bytes)%type.

Definition acquire2 (pool : list bytes) (choice : nat) : bytes * list bytes :=
  match take choice pool with Some (b, rest) => (b, rest) | None => ([], pool) end.

(* reset_acq: Buffer.Reset in templruntime.GetBuffer; reset_rel: bytes.Buffer.Reset in templ.ReleaseBuffer *)
Definition run_job (reset_acq reset_rel : bool) (ps : pools) (j : job) : obs * pools :=
  if j_html j then
    (* runtime.go ToGoHTML: b := GetBuffer(); defer ReleaseBuffer(b); err = c.Render(ctx, b); s = b.String() *)
    let '(c, bp1) := acquire2 (snd ps) (j_choice2 j) in
    let '(e, w, rp) := render_top unit buffer_sink cap true false esc (j_env j) (j_benv j) (j_senv j) (j_cnt j) (j_cancel j) reset_acq (fst ps) (j_choice j)
                                  (j_guard j) (j_body j) {| sst := tt; recv := c; log := []; marks := [] |} in
    ({| o_err := e; o_out := match e with None => recv w | Some _ => [] end; o_log := []; o_marks := [] |},
     (rp, (if reset_rel then [] else recv w) :: bp1))
  else
    let '(e, w, rp) := render_top sink_st sink cap sw flusher esc (j_env j) (j_benv j) (j_senv j) (j_cnt j) (j_cancel j) reset_acq (fst ps) (j_choice j)
                                  (j_guard j) (j_body j) {| sst := j_sink0 j; recv := []; log := []; marks := [] |} in
    ({| o_err := e; o_out := recv w; o_log := log w; o_marks := marks w |}, (rp, snd ps)).

Fixpoint run_jobs (reset_acq reset_rel : bool) (ps : pools) (js : list job) : list obs :=
  match js with
  | [] => []
  | j :: r => let '(o, ps') := run_job reset_acq reset_rel ps j in o :: run_jobs reset_acq reset_rel ps' r
  end.
End Jobs.

(* ---------- the scripted faulty destination the harness uses (run/run.go type Sink) ---------- *)
(* limit: bytes accepted before the fault; mode: 0 never fails; 1 error, accepting up to the limit in the failing
   call; 2 error, accepting nothing of the failing call; 3 short count with nil error once, then accepts again;
   4 short count with nil error, then (0, nil) for ever. *)
Record fsink := { f_mode : N; f_limit : nat; f_tripped : bool; f_err : N }.
Definition fsink_step (s : fsink) (p : bytes) : nat * option err * fsink :=
  let trip := {| f_mode := f_mode s; f_limit := 0; f_tripped := true; f_err := f_err s |} in
  let go n := {| f_mode := f_mode s; f_limit := f_limit s - n; f_tripped := false; f_err := f_err s |} in
  if N.eqb (f_mode s) 0 then (length p, None, s)
  else if f_tripped s then
    (if N.eqb (f_mode s) 3 then (length p, None, s)
     else if N.eqb (f_mode s) 4 then (0, None, s)
     else (0, Some (ESink (f_err s)), s))
  else if length p <=? f_limit s then (length p, None, go (length p))
  else if N.eqb (f_mode s) 1 then (f_limit s, Some (ESink (f_err s)), trip)
  else if N.eqb (f_mode s) 2 then (0, Some (ESink (f_err s)), trip)
  else (f_limit s, None, trip).
