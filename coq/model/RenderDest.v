(* C10 - model of a render whose destination is a buffered writer owned by the caller.  Definitions only.

   The caller does       bw := bufio.NewWriterSize(conn, size)        (bufio.NewWriter(conn): size 4096)
                         err  := component.Render(ctx, bw)
                         ferr := bw.Flush()
                         if ferr != nil { bw.Reset(conn) }              (a bufio.Writer's error is sticky)
   and later renders into the same bw again, other renders (to other writers) happening in between.
   templ's runtime.Buffer (runtime/buffer.go) owns its OWN bufio.Writer: Reset does
   bufio.NewWriterSize(b, DefaultBufferSize) on the *Buffer itself, never on the destination, so the two buffered
   writers are distinct objects and the caller's is just another destination: a state machine whose state is its
   buffer, its sticky error and the writer behind it.  [wrap_step] is that state machine, built from the same model
   of bufio.Writer (model/Bufio.v) that is used for templ's internal buffer.

   The writer behind the caller's bufio.Writer implements io.StringWriter here, so that bufio.Writer.Write and
   bufio.Writer.WriteString take the same path (large write on an empty buffer: straight through). *)
From Coq.Strings Require Import Byte String.
From Coq Require Import List NArith Bool Arith.
Import ListNotations.
From V Require Import lib.Bytes spec.RenderSpec model.Bufio model.RenderSkel.
Local Open Scope nat_scope.

Section Wrap.
Variable inner_st : Type.
Variable inner : inner_st -> bytes -> nat * option err * inner_st.   (* the writer behind the caller's bufio.Writer *)
Variable size : nat.                                                 (* the caller's buffer size *)

(* the caller's *bufio.Writer as an io.Writer: its buffer and sticky error, and behind it the inner writer with the
   ghost record of what that one was handed *)
Notation wst := (bw * world inner_st)%type.

(* bufio.Writer.Write / WriteString on the caller's writer: (nn, b.err).  nn counts the bytes consumed: copied into
   the buffer or accepted by the inner writer on the straight-through path *)
Definition wrap_step (s : wst) (p : bytes) : nat * option err * wst :=
  let '(b', w') := bw_write inner_st inner size true (length p + 2) (fst s) (snd s) p in
  (length (recv w') + length (buf b') - (length (recv (snd s)) + length (buf (fst s))), berr b', (b', w')).

(* bufio.NewWriterSize(conn, size), nothing written yet *)
Definition wrap_world0 (s0 : inner_st) : world wst :=
  {| sst := (bw_fresh, {| sst := s0; recv := []; log := []; marks := [] |}); recv := []; log := []; marks := [] |}.

(* what the caller can see of one render *)
Record wobs := { wo_res : option err;          (* Render's result *)
                 wo_fres : option err;         (* the caller's bw.Flush() afterwards *)
                 wo_got : bytes;               (* everything the inner writer accepted *)
                 wo_log1 : list logent;        (* calls on the inner writer during Render *)
                 wo_log2 : list logent;        (* ... during the caller's Flush *)
                 wo_thru : nat;                (* bytes that had reached the inner writer when Render returned *)
                 wo_marks : list nat;          (* http.Flusher calls on the inner writer: bufio.Writer hides it *)
                 wo_after : bw }.              (* the caller's writer once the caller has flushed and, on error, Reset it *)

Section Render.
Variable cap : nat.
Variable esc : bytes -> bytes.
Variable env : list nat -> N -> bytes * option N.
Variable benv : list nat -> N -> bool.
Variable senv : list nat -> N -> nat.
Variable cnt : list nat -> N -> nat.
Variable cancel : option N.

(* *bufio.Writer implements io.StringWriter and not http.Flusher (its Flush returns an error) *)
Definition render_wrapped (pool : list bw) (choice : nat) (g : bool) (body : list node) (s0 : inner_st) : wobs :=
  let '(res, w', _) := render_top wst wrap_step cap true false esc env benv senv cnt cancel true pool choice g body (wrap_world0 s0) in
  let wb := fst (sst w') in
  let iw := snd (sst w') in
  let '(wb2, iw2) := bw_flush inner_st inner wb iw in
  {| wo_res := res; wo_fres := berr wb2; wo_got := recv iw2;
     wo_log1 := log iw; wo_log2 := skipn (length (log iw)) (log iw2);
     wo_thru := length (recv iw); wo_marks := marks iw2;
     wo_after := match berr wb2 with Some _ => bw_reset wb2 | None => wb2 end |}.
End Render.
End Wrap.

(* ---------- the caller's destination objects ---------- *)
(* A caller holds several destination objects; a render is given one of them.  In the model a render's only
   access to a destination is the [sink] function applied to that destination's state, so the objects it was not
   given cannot change: the store after a render differs from the store before it in that one slot at most. *)
Section Store.
Variable A : Type.
Fixpoint store_set (st : list A) (i : nat) (x : A) : list A :=
  match st, i with
  | [], _ => []
  | _ :: r, O => x :: r
  | y :: r, S j => y :: store_set r j x
  end.
(* run [f] (a render into the object, followed by whatever the caller does with it) on slot i *)
Definition on_slot {B} (f : A -> B * A) (st : list A) (i : nat) : option B * list A :=
  match nth_error st i with
  | Some x => let '(o, x') := f x in (Some o, store_set st i x')
  | None => (None, st)
  end.
End Store.
