(* C16 - model of the string codec behind the development-mode text file.
     writer : strconv.Quote without the outer quotes  (generator/generator.go: escapeQuotes, used by writeText,
              writeConstantAttribute, writeDocType; the result is appended to the pending literal by
              generator/rangewriter.go: WriteStringLiteral and emitted by closeLiteral)
     reader : strconv.Unquote on a double-quoted literal (runtime/watchmode.go: WriteString)
   Definitions only.  This file carries its own UTF-8 decoder/encoder (Go unicode/utf8). *)
From Coq.Strings Require Import Byte String.
From Coq Require Import List Arith NArith Bool.
Import ListNotations.
From V Require Import lib.Bytes.
Open Scope N_scope.

Definition inr (lo hi : N) (b : byte) : bool := (lo <=? bN b) && (bN b <=? hi).

(* ---- utf8.DecodeRuneInString: (rune, width); invalid or short => (0xFFFD, 1); empty => (0xFFFD, 0) ---- *)
Definition RuneError : N := 65533.
Definition cont (b : byte) : N := bN b - 128.   (* low six bits; only used after the 0x80..0xBF range check *)
Definition decode_rune (s : bytes) : N * nat :=
  match s with
  | [] => (RuneError, 0%nat)
  | b0 :: r =>
      let n0 := bN b0 in
      if n0 <? 128 then (n0, 1%nat)
      else if inr 194 223 b0 then
        match r with b1 :: _ => if inr 128 191 b1 then ((n0 - 192) * 64 + cont b1, 2%nat) else (RuneError, 1%nat) | _ => (RuneError, 1%nat) end
      else if inr 224 239 b0 then
        let lo := if n0 =? 224 then 160 else 128 in
        let hi := if n0 =? 237 then 159 else 191 in
        match r with
        | b1 :: b2 :: _ => if inr lo hi b1 && inr 128 191 b2 then ((n0 - 224) * 4096 + cont b1 * 64 + cont b2, 3%nat) else (RuneError, 1%nat)
        | _ => (RuneError, 1%nat) end
      else if inr 240 244 b0 then
        let lo := if n0 =? 240 then 144 else 128 in
        let hi := if n0 =? 244 then 143 else 191 in
        match r with
        | b1 :: b2 :: b3 :: _ => if inr lo hi b1 && inr 128 191 b2 && inr 128 191 b3
                                then ((n0 - 240) * 262144 + cont b1 * 4096 + cont b2 * 64 + cont b3, 4%nat) else (RuneError, 1%nat)
        | _ => (RuneError, 1%nat) end
      else (RuneError, 1%nat)
  end.

(* ---- utf8.AppendRune for a valid rune ---- *)
Definition encode_utf8 (cp : N) : bytes :=
  if cp <? 128 then [Nb cp]
  else if cp <? 2048 then [Nb (192 + cp / 64); Nb (128 + cp mod 64)]
  else if cp <? 65536 then [Nb (224 + cp / 4096); Nb (128 + (cp / 64) mod 64); Nb (128 + cp mod 64)]
  else [Nb (240 + cp / 262144); Nb (128 + (cp / 4096) mod 64); Nb (128 + (cp / 64) mod 64); Nb (128 + cp mod 64)].

(* ---- utf8.ValidString ---- *)
Fixpoint valid_utf8_fuel (fuel : nat) (s : bytes) : bool :=
  match fuel with O => true | S f =>
  match s with
  | [] => true
  | _ => let '(r, w) := decode_rune s in
         if (w =? 1)%nat && (r =? RuneError) then false else valid_utf8_fuel f (skipn w s)
  end end.
Definition valid_utf8 (s : bytes) : bool := valid_utf8_fuel (length s) s.

(* lowerhex[n] *)
Definition hex1 (n : N) : byte := Nb (if n <? 10 then 48 + n else 87 + n).
(* strconv unhex *)
Definition hexv (b : byte) : option N :=
  let n := bN b in
  if (48 <=? n) && (n <=? 57) then Some (n - 48)
  else if (97 <=? n) && (n <=? 102) then Some (n - 87)
  else if (65 <=? n) && (n <=? 70) then Some (n - 55) else None.

Definition hex2 (n : N) : bytes := [hex1 (n / 16); hex1 (n mod 16)].
Definition hex4 (n : N) : bytes := [hex1 (n / 4096); hex1 ((n / 256) mod 16); hex1 ((n / 16) mod 16); hex1 (n mod 16)].
Definition hex8 (n : N) : bytes := hex4 (n / 65536) ++ hex4 (n mod 65536).

Section Q.
Variable is_print : N -> bool.           (* strconv.IsPrint; the dumped table is gen/Tables16.v: go_is_print *)

(* strconv.appendEscapedRune with quote = double quote, ASCIIonly = graphicOnly = false *)
Definition quote_rune (r : N) : bytes :=
  if r =? 34 then [x5c; x22] else if r =? 92 then [x5c; x5c]
  else if is_print r then encode_utf8 r
  else if r =? 7 then [x5c; x61] else if r =? 8 then [x5c; x62] else if r =? 12 then [x5c; x66]
  else if r =? 10 then [x5c; x6e] else if r =? 13 then [x5c; x72] else if r =? 9 then [x5c; x74] else if r =? 11 then [x5c; x76]
  else if (r <? 32) || (r =? 127) then [x5c; x78] ++ hex2 r
  else if r <? 65536 then [x5c; x75] ++ hex4 r
  else [x5c; x55] ++ hex8 r.

(* strconv.appendQuotedWith without the two outer quote bytes (escapeQuotes strips them) *)
Fixpoint quote_fuel (fuel : nat) (s : bytes) : bytes :=
  match fuel with O => [] | S f =>
  match s with
  | [] => []
  | b :: _ => let '(r, w) := decode_rune s in
              if (w =? 1)%nat && (r =? RuneError) then [x5c; x78] ++ hex2 (bN b) ++ quote_fuel f (skipn 1 s)
              else quote_rune r ++ quote_fuel f (skipn w s)
  end end.
Definition quote (s : bytes) : bytes := quote_fuel (length s) s.
End Q.

Definition hexs (l : bytes) : option N :=
  fold_left (fun acc b => match acc, hexv b with Some a, Some h => Some (a * 16 + h) | _, _ => None end) l (Some 0).
Definition valid_rune (v : N) : bool := (v <? 55296) || ((57343 <? v) && (v <=? 1114111)).   (* utf8.ValidRune *)
Definition is_octal (b : byte) : bool := inr 48 55 b.

(* strconv.unquote, double-quoted form, the loop over UnquoteChar (the slow path).  The argument is the text
   between the two quote bytes; an unescaped quote inside it ends the literal early and leaves a remainder,
   which Unquote rejects; a raw newline is rejected. *)
Fixpoint unq (fuel : nat) (s : bytes) : option bytes :=
  match fuel with O => None | S f =>
  match s with
  | [] => Some []
  | c :: r =>
      if Byte.eqb c x22 then None
      else if Byte.eqb c x0a then None
      else if 128 <=? bN c then
        let '(rn, w) := decode_rune s in option_map (app (encode_utf8 rn)) (unq f (skipn w s))
      else if negb (Byte.eqb c x5c) then option_map (cons c) (unq f r)
      else match r with
           | [] => None
           | e :: r1 =>
               if Byte.eqb e x78 then match r1 with h1 :: h2 :: r2 => match hexs [h1; h2] with Some v => option_map (cons (Nb v)) (unq f r2) | None => None end | _ => None end
               else if Byte.eqb e x75 then match r1 with h1 :: h2 :: h3 :: h4 :: r2 =>
                      match hexs [h1; h2; h3; h4] with Some v => if valid_rune v then option_map (app (encode_utf8 v)) (unq f r2) else None | None => None end | _ => None end
               else if Byte.eqb e x55 then match r1 with h1 :: h2 :: h3 :: h4 :: h5 :: h6 :: h7 :: h8 :: r2 =>
                      match hexs [h1; h2; h3; h4; h5; h6; h7; h8] with Some v => if valid_rune v then option_map (app (encode_utf8 v)) (unq f r2) else None | None => None end | _ => None end
               else if Byte.eqb e x61 then option_map (cons x07) (unq f r1)
               else if Byte.eqb e x62 then option_map (cons x08) (unq f r1)
               else if Byte.eqb e x66 then option_map (cons x0c) (unq f r1)
               else if Byte.eqb e x6e then option_map (cons x0a) (unq f r1)
               else if Byte.eqb e x72 then option_map (cons x0d) (unq f r1)
               else if Byte.eqb e x74 then option_map (cons x09) (unq f r1)
               else if Byte.eqb e x76 then option_map (cons x0b) (unq f r1)
               else if Byte.eqb e x5c then option_map (cons x5c) (unq f r1)
               else if Byte.eqb e x22 then option_map (cons x22) (unq f r1)
               else if is_octal e then
                 match r1 with
                 | d1 :: d2 :: r2 =>
                     if is_octal d1 && is_octal d2 then
                       let v := (bN e - 48) * 64 + (bN d1 - 48) * 8 + (bN d2 - 48) in
                       if v <=? 255 then option_map (cons (Nb v)) (unq f r2) else None
                     else None
                 | _ => None end
               else None          (* backslash-apostrophe and every other byte: ErrSyntax *)
           end
  end end.

(* the part of the body before its first double quote (strconv.unquote: index(in[1:], quote)) *)
Fixpoint before_quote (s : bytes) : bytes :=
  match s with [] => [] | c :: r => if Byte.eqb c x22 then [] else c :: before_quote r end.
Definition no_byte (x : byte) (s : bytes) : bool := forallb (fun b => negb (Byte.eqb b x)) s.

(* strconv.Unquote on the double quote byte, then s, then the double quote byte:
   the fast path (no backslash, no newline, valid UTF-8 before the first quote) returns the text as it is,
   and is an error when that first quote is not the closing one; otherwise the escape loop runs. *)
Definition unquote (s : bytes) : option bytes :=
  let pre := before_quote s in
  if no_byte x5c pre && no_byte x0a pre && valid_utf8 pre then
    (if (length pre =? length s)%nat then Some s else None)
  else unq (S (length s)) s.

(* what the Go scanner needs of an interpreted string literal body: no raw newline, no unescaped double quote,
   no backslash left dangling at the end or standing before a newline *)
Fixpoint scan_ok (s : bytes) : bool :=
  match s with
  | [] => true
  | c :: r =>
      if Byte.eqb c x22 then false
      else if Byte.eqb c x0a then false
      else if Byte.eqb c x5c then match r with [] => false | e :: r1 => if Byte.eqb e x0a then false else scan_ok r1 end
      else scan_ok r
  end.

(* ---- how the generator builds a literal: WriteStringLiteral appends pieces until closeLiteral ----
   PQ s : escapeQuotes(s)   (text, constant attribute values after html.EscapeString, doctype)
   PF p : format-string text around it: angle brackets, names, the equals sign, spaces, the script/comment tags
   PE   : the two bytes backslash, double quote that the format strings use for attribute value delimiters *)
Inductive piece := PQ (s : bytes) | PF (p : bytes) | PE.

Definition plain_byte (b : byte) : bool :=
  (bN b <? 128) && negb (Byte.eqb b x22) && negb (Byte.eqb b x0a) && negb (Byte.eqb b x5c).
Definition piece_ok (p : piece) : bool := match p with PF t => forallb plain_byte t | _ => true end.

Section L.
Variable is_print : N -> bool.
Definition piece_text (p : piece) : bytes := match p with PQ s => quote is_print s | PF t => t | PE => [x5c; x22] end.
Definition piece_value (p : piece) : bytes := match p with PQ s => s | PF t => t | PE => [x22] end.
Definition lit_text (ps : list piece) : bytes := concat (map piece_text ps).      (* the literal as written in the Go file and in the text file *)
Definition lit_value (ps : list piece) : bytes := concat (map piece_value ps).    (* the bytes the template author wrote *)
End L.
