(* Model of `templ generate` (non-watch mode, whole-directory form):
     cmd/templ/generatecmd/cmd.go           Run: walk -> events -> semaphore-bounded goroutine per event -> error count
     cmd/templ/generatecmd/eventhandler.go  HandleEvent / generate / goFileIsUpToDate
     cmd/templ/generatecmd/watcher/watch.go WalkFiles
     internal/skipdir/skipdir.go            ShouldSkip
     cmd/templ/main.go                      generateCmd (flags -> Arguments, exit status)
   Definitions only; proofs are in proofs/WalkProof.v.

   The file system is a finite map (DESIGN section 10): a path below the root is the list of its directory
   components plus its base name; an entry is a regular file (contents, modification time) or a directory.
   A modification time is an INTEGER (Z): nanoseconds relative to the Unix epoch, negative before 1970, with no
   bound in either direction.  Go keeps a time.Time read from the file system as (seconds, nanoseconds) and
   time.Time.After compares the pairs exactly, so comparing the integers is what the code does for every time the
   file system can hold (sub-second differences included); nothing in the model or the theorems assumes a sign.
   Symbolic links, permissions, I/O errors other than "does not exist" are not modelled.
   `generate` is an oracle: parser.Parse + generator.Generate(WithFileName(rel path)) + format.Source of ONE
   file; [None] = any of the three failed. *)
From Coq.Strings Require Import Byte String.
From Coq Require Import List NArith ZArith Bool.
Import ListNotations.
From V Require Import lib.Bytes.

Notation path := (list bytes * bytes)%type.     (* (directory components below the root, base name) *)
Inductive entry := File (c : bytes) (mt : Z) | Dir.
Notation fs := (path -> option entry).
Notation listing := (list (path * entry)).

(* ---------- byte-string helpers ---------- *)
Fixpoint strip_prefix (p s : bytes) : option bytes :=
  match p, s with
  | [], _ => Some s
  | x :: p', y :: s' => if Byte.eqb x y then strip_prefix p' s' else None
  | _ :: _, [] => None
  end.
(* strings.HasSuffix / strings.TrimSuffix in one *)
Definition strip_suffix (suf s : bytes) : option bytes :=
  match strip_prefix (rev suf) (rev s) with Some r => Some (rev r) | None => None end.
Definition has_suffix (suf s : bytes) : bool :=
  match strip_suffix suf s with Some _ => true | None => false end.

Fixpoint comps_eqb (a b : list bytes) : bool :=
  match a, b with
  | [], [] => true
  | x :: a', y :: b' => bytes_eqb x y && comps_eqb a' b'
  | _, _ => false
  end.
Definition path_eqb (a b : path) : bool := comps_eqb (fst a) (fst b) && bytes_eqb (snd a) (snd b).
Definition mem (p : path) (l : list path) : bool := existsb (path_eqb p) l.

Definition sfx_gen : bytes := bs "_templ.go".
Definition sfx_templ : bytes := bs ".templ".
Definition sfx_go : bytes := bs ".go".

(* ---------- internal/skipdir/skipdir.go: ShouldSkip ----------
   ShouldSkip(path): `if path == "." {return false}`; `_, name := filepath.Split(path)`; vendor / node_modules;
   prefix "." or "_".  WalkFiles passes the path RELATIVE to the root of the walk (fs.WalkDir over os.DirFS(root)):
   "." for the root itself - never skipped - and "a/b/name" below it, so for every directory inside the tree the
   function is a function of the base name. *)
Definition should_skip_name (name : bytes) : bool :=
  bytes_eqb name (bs "vendor") || bytes_eqb name (bs "node_modules")
  || has_prefix (bs ".") name || has_prefix (bs "_") name.

(* default watch pattern (cmd.go: defaultWatchPattern = `(.+\.go$)|(.+\.templ$)`), matched against the absolute
   path: the `.+` always finds the '/' before the base name, so this is a suffix test on the base name *)
Definition matches_pattern (name : bytes) : bool := has_suffix sfx_go name || has_suffix sfx_templ name.

(* ---------- the tree as a finite map ---------- *)
Fixpoint lookup (l : listing) (p : path) : option entry :=
  match l with
  | [] => None
  | (q, e) :: r => if path_eqb p q then Some e else lookup r p
  end.
Definition upd (t : fs) (p : path) (v : option entry) : fs := fun q => if path_eqb q p then v else t q.

(* ---------- watcher/watch.go: WalkFiles ----------
   fs.WalkDir visits a directory, then its entries in byte-wise name order, depth first: that is the
   lexicographic order on component lists (a proper prefix first). *)
Fixpoint bytes_ltb (a b : bytes) : bool :=
  match a, b with
  | _, [] => false
  | [], _ :: _ => true
  | x :: a', y :: b' => if Byte.eqb x y then bytes_ltb a' b' else N.ltb (bN x) (bN y)
  end.
Fixpoint comps_ltb (a b : list bytes) : bool :=
  match a, b with
  | _, [] => false
  | [], _ :: _ => true
  | x :: a', y :: b' => if bytes_eqb x y then comps_ltb a' b' else bytes_ltb x y
  end.
Definition full (p : path) : list bytes := fst p ++ [snd p].
Definition path_ltb (a b : path) : bool := comps_ltb (full a) (full b).
Fixpoint insert (x : path * entry) (l : listing) : listing :=
  match l with
  | [] => [x]
  | y :: r => if path_ltb (fst y) (fst x) then y :: insert x r else x :: l
  end.
Fixpoint isort (l : listing) : listing := match l with [] => [] | x :: r => insert x (isort r) end.

Definition visible_dir (dir : list bytes) : bool := forallb (fun n => negb (should_skip_name n)) dir.
(* the callback: a directory that ShouldSkip is pruned (SkipDir); anything else - file or directory - whose
   absolute path matches the pattern is sent as a Create event *)
Definition emitted (pe : path * entry) : bool :=
  let '((dir, name), e) := pe in
  visible_dir dir && matches_pattern name
  && match e with Dir => negb (should_skip_name name) | File _ _ => true end.
(* WalkDir's first callback is the root itself, as ".": ShouldSkip(".") = false, whatever the root is called. *)
Definition walk (l : listing) : list path := map fst (filter emitted (isort l)).
(* the same, as a predicate on the map *)
Definition in_walk (t : fs) (p : path) : bool :=
  match t p with Some e => emitted (p, e) | None => false end.
(* REGRESSION VARIANT, not the current code: WalkFiles before commit 91f7c9a tested ShouldSkip on the ABSOLUTE path,
   so the "." exemption never applied and the root's own base name was tested too (SkipDir on the first callback
   ends the walk with a nil error and no event).  root = base name of the absolute root path. *)
Definition walk_root_tested (root : bytes) (l : listing) : list path :=
  if should_skip_name root then [] else walk l.

(* ---------- eventhandler.go ---------- *)
(* strings.TrimSuffix(name, "_templ.go") + ".templ"  and  strings.TrimSuffix(name, ".templ") + "_templ.go" *)
Definition source_of (q : path) : option path :=
  match strip_suffix sfx_gen (snd q) with Some st => Some (fst q, st ++ sfx_templ) | None => None end.
Definition target_of (p : path) : option path :=
  match strip_suffix sfx_templ (snd p) with Some st => Some (fst p, st ++ sfx_gen) | None => None end.

Inductive action := ANone | AWrite (q : path) (c : bytes) | ARemove (q : path).

Section Handlers.
Variable generate : path -> bytes -> option bytes.
Variable keep : bool.      (* -keep-orphaned-files *)
Variable lazy : bool.      (* -lazy *)
Variable now : Z.          (* modification time given to files written by this run: any integer *)

(* goFileIsUpToDate: os.Stat(go file) succeeds and its ModTime is After the .templ file's *)
Definition newer (g : option entry) (mt : Z) : bool :=
  match g with Some (File _ gmt) => Z.ltb mt gmt | _ => false end.

(* UpsertLastModTime: `previous, seen := fileNameToLastModTime[name]; if seen && !current.After(previous) {return
   current, false}`.  The map is empty when the process starts and each path gets one event, so every file is seen for
   the first time and is "updated" whatever its modification time: the function plays no part in a non-watch run.
   REGRESSION VARIANT, not the current code: before commit 103800e the test was `!current.After(previous)` with
   `previous` the zero time.Time for an unseen file (January 1, year 1, 00:00:00 UTC = -62135596800 s relative to the
   Unix epoch): a file dated at or before that instant counted as "not updated" and its handler returned without
   doing anything (no error) - see [effect_zero_compared] below. *)
Definition go_zero_time : Z := (-62135596800 * 1000000000)%Z.
Definition after_go_zero_time (e : entry) : bool :=
  match e with File _ mt => Z.ltb go_zero_time mt | Dir => true end.

(* HandleEvent for a Create event on p, split into what it reads (this function: the decision, from the tree)
   and what it writes ([apply_action]).  The second component is the number of errors sent to `errs`.
   - name ends in _templ.go: os.Stat(source); exists -> nothing; absent -> keep ? nothing : os.Remove(p).
     os.Remove of a directory that is not empty fails: a warning is logged, no error is counted, nothing changes
     (wf_tree: a directory called *_templ.go always keeps a file no handler removes)
   - UpsertLastModTime: os.Stat(p) fails -> nothing; otherwise "updated" (the map is empty at start and each path
     gets one event: the file is seen for the first time, its modification time is not looked at)
   - not .templ -> nothing
   - .templ: lazy && goFileIsUpToDate -> nothing; else generate: parse/generate/gofmt error -> 1 error, no write;
             ok -> write the sibling (UpsertHash: the hash map is empty in a non-watch run, so always written):
             os.WriteFile on a path that is a directory fails -> "failed to write target file": 1 error, no change.
     devMode is off: no _templ.txt file is read, written or removed.
   A directory called x.templ fails in parser.Parse (read error).
   goFileIsUpToDate on a directory target compares the directory's mtime, which the model does not have: wf_tree
   excludes directory targets under -lazy. *)
Definition is_dir (o : option entry) : bool := match o with Some Dir => true | _ => false end.
Definition effect (t : fs) (p : path) : action * nat :=
  match source_of p with
  | Some src =>
      match t src with
      | Some _ => (ANone, O)
      | None => if keep then (ANone, O) else if is_dir (t p) then (ANone, O) else (ARemove p, O)
      end
  | None =>
      match t p with
      | None => (ANone, O)
      | Some e =>
          match target_of p with
          | None => (ANone, O)
          | Some g =>
              match e with
              | Dir => (ANone, 1%nat)
              | File c mt =>
                  if lazy && newer (t g) mt then (ANone, O)
                  else match generate p c with
                       | Some code => if is_dir (t g) then (ANone, 1%nat) else (AWrite g code, O)
                       | None => (ANone, 1%nat)
                       end
              end
          end
      end
  end.

(* REGRESSION VARIANT (before 103800e): anything that is not a _templ.go name and is dated at or before Go's zero
   time is skipped; otherwise as [effect] *)
Definition effect_zero_compared (t : fs) (p : path) : action * nat :=
  match source_of p, t p with
  | None, Some e => if after_go_zero_time e then effect t p else (ANone, O)
  | _, _ => effect t p
  end.

Definition apply_action (a : action) (t : fs) : fs :=
  match a with
  | ANone => t
  | AWrite q c => upd t q (Some (File c now))
  | ARemove q => upd t q None
  end.

Record state := { tree : fs; errs : nat }.
Definition init (t : fs) : state := {| tree := t; errs := O |}.

(* one handler run to completion *)
Definition handle (st : state) (p : path) : state :=
  {| tree := apply_action (fst (effect (tree st) p)) (tree st); errs := snd (effect (tree st) p) + errs st |}.
(* handlers run one after the other in the order es *)
Definition run (st : state) (es : list path) : state := fold_left handle es st.
(* the same for the regression variant *)
Definition handle_zero_compared (st : state) (p : path) : state :=
  {| tree := apply_action (fst (effect_zero_compared (tree st) p)) (tree st);
     errs := snd (effect_zero_compared (tree st) p) + errs st |}.
Definition run_zero_compared (st : state) (es : list path) : state := fold_left handle_zero_compared es st.

(* cmd.go Run: events are taken from the channel in walk order; `sem` admits at most w handlers at a time;
   a started handler has made its reads, and finishes (its write, its error report) at any later moment.
   [pending]: not yet started; [inflight]: started, with the decision taken from the tree at that moment. *)
Record cfg := { ctree : fs; cerrs : nat; pending : list path; inflight : list (path * (action * nat)) }.
Inductive step (w : nat) : cfg -> cfg -> Prop :=
| step_start c p rest :
    pending c = p :: rest -> (length (inflight c) < w)%nat ->
    step w c {| ctree := ctree c; cerrs := cerrs c; pending := rest;
                inflight := (p, effect (ctree c) p) :: inflight c |}
| step_finish c pre p a k post :
    inflight c = pre ++ (p, (a, k)) :: post ->
    step w c {| ctree := apply_action a (ctree c); cerrs := k + cerrs c; pending := pending c;
                inflight := pre ++ post |}.
Inductive steps (w : nat) : cfg -> cfg -> Prop :=
| steps_refl c : steps w c c
| steps_step c c' c'' : steps w c c' -> step w c' c'' -> steps w c c''.
Definition start_cfg (t : fs) (es : list path) : cfg := {| ctree := t; cerrs := O; pending := es; inflight := [] |}.
Definition finished (c : cfg) : Prop := pending c = [] /\ inflight c = [].

(* main.go generateCmd: 1 when Run returned "generation completed with n errors", else 0 *)
Definition exit_fail (n : nat) : bool := negb (Nat.eqb n O).

(* The events of a run: everything the walk emits, each once, possibly also _templ.go files that a handler
   created while the walk was still going (their .templ source exists). *)
Definition late_gen (t : fs) (p : path) : Prop :=
  exists src, source_of p = Some src /\ t src <> None.
End Handlers.

(* ---------- well-formed input trees (decidable; the harness checks it on every generated tree) ---------- *)
Fixpoint nodupb (l : list path) : bool :=
  match l with [] => true | x :: r => negb (mem x r) && nodupb r end.
Definition valid_name (n : bytes) : bool :=
  negb (bytes_eqb n []) && negb (bytes_eqb n (bs ".")) && negb (bytes_eqb n (bs ".."))
  && forallb (fun b => negb (Byte.eqb b x2f) && negb (Byte.eqb b x00)) n.
Definition parent_ok (l : listing) (p : path) : bool :=
  match rev (fst p) with
  | [] => true
  | last :: rinit => match lookup l (rev rinit, last) with Some Dir => true | _ => false end
  end.
(* -lazy's documented precondition: a _templ.go newer than its .templ (outside skipped directories) is up to date;
   and (model limitation, see [effect]) the target of such a template is not a directory *)
Definition lazy_ok (generate : path -> bytes -> option bytes) (l : listing) (pe : path * entry) : bool :=
  match snd pe with
  | Dir => true
  | File c mt =>
      if negb (visible_dir (fst (fst pe))) then true else
      match target_of (fst pe) with
      | None => true
      | Some g =>
          match lookup l g with
          | Some (File gc gmt) =>
              if Z.ltb mt gmt then match generate (fst pe) c with Some code => bytes_eqb code gc | None => false end
              else true
          | Some Dir => false
          | None => true
          end
      end
  end.
(* a directory keeps a file that no handler ever removes: a direct child that is a file not called *_templ.go *)
Definition stable_child (l : listing) (p : path) : bool :=
  existsb (fun pe => comps_eqb (fst (fst pe)) (full p)
                     && match snd pe with File _ _ => true | Dir => false end
                     && match source_of (fst pe) with None => true | Some _ => false end) l.
(* a directory may not be called *.templ or *.go - except *_templ.go (an output path blocked by a directory),
   and then it must stay non-empty *)
Definition dir_name_ok (l : listing) (pe : path * entry) : bool :=
  match snd pe with
  | File _ _ => true
  | Dir => match source_of (fst pe) with
           | None => negb (matches_pattern (snd (fst pe)))
           | Some _ => stable_child l (fst pe)
           end
  end.
(* no condition on modification times: any integers *)
Definition wf_tree (generate : path -> bytes -> option bytes) (lazy : bool) (root : bytes) (l : listing) : bool :=
  nodupb (map fst l)
  && negb (matches_pattern root)
  && forallb (fun pe => forallb valid_name (full (fst pe)) && parent_ok l (fst pe)) l
  && forallb (dir_name_ok l) l
  && (negb lazy || forallb (lazy_ok generate l) l).
