(* Model of what generated templ code writes for the template language, with the Go expressions already
   evaluated (the environment is folded into the tree as oracle fields: string values, conditions, iteration
   bodies, the chosen switch case, the callee's body, the children block):
     static text, { string expressions }, elements and void elements, HTML comments, doctype,
     raw <style>/<script> elements with static content, script elements with {{ }} parts,
     if/else, for, switch, component calls and { children... };
     attributes: constant / boolean / dynamic / conditional-boolean / spread / style / if-else attribute lists.
   Mirrors /repo/generator/generator.go: writeElement (open tag, attributes, children, close tag; void
   elements: no children, no close tag), writeText, writeStringExpression (templ.EscapeString of the value),
   writeConstantAttribute / writeExpressionAttribute (name, then the escaped value between double quotes),
   writeBoolConstantAttribute, writeBoolExpressionAttribute, writeSpreadAttributes (templ.RenderAttributes),
   writeExpressionAttributeValueStyle (the result of SanitizeStyleAttributeValues, not escaped again),
   writeConditionalAttribute, writeComment, writeDocType, writeRawElement, writeScriptElement / writeScriptContents
   (static text as is; a Go part is the string returned by templruntime.ScriptContentInside/OutsideStringLiteral),
   writeIfExpression / writeForExpression / writeSwitchExpression (the nodes of the branch taken, per iteration),
   writeCallTemplateExpression / writeTemplElementExpression / writeChildrenExpression (the callee renders into
   the same buffer).  Whitespace nodes and trailing-space rules are static text of the tree (the harness builds
   the tree with them; property C02 is about those rules).
   Element and attribute names are written through html.EscapeString, as the generator does. *)
From Coq.Strings Require Import Byte String.
From Coq Require Import List NArith Bool.
Import ListNotations.
From V Require Import lib.Bytes model.Escape model.StyleAttr.

Inductive attr :=
| AConst (k v : bytes)                       (* name="constant"   (value re-escaped by the generator) *)
| ABool (k : bytes)                          (* name *)
| ADyn (k s : bytes)                         (* name={ expr }, expr evaluated to s (after URL / style / class typing) *)
| ABoolExpr (k : bytes) (b : bool)           (* name?={ expr } *)
| ASpread (m : list (bytes * aval))          (* { m... } *)
| AStyle (vs : list sval)                    (* style={ vs... }: templruntime.SanitizeStyleAttributeValues, written as returned *)
| ACond (c : bool) (th el : list attr).      (* if c { th } else { el }  inside a start tag, nested arbitrarily *)

(* one part of a script element's content *)
Inductive spart :=
| PStatic (v : bytes)                        (* JavaScript text of the template *)
| PDyn (d : bytes).                          (* {{ expr }}: the bytes ScriptContentInside/OutsideStringLiteral returned *)

Inductive tree :=
| TText (v : bytes)                          (* static text *)
| TStr (s : bytes)                           (* { expr } evaluated to s *)
| TElem (n : bytes) (a : list attr) (ch : list tree)
| TVoid (n : bytes) (a : list attr)
| TCmt (d : bytes)                           (* <!-- d --> *)
| TDoc (d : bytes)                           (* <!DOCTYPE d> *)
| TRaw (n : bytes) (a : list attr) (v : bytes)      (* raw element (style, script) with static content v *)
| TScript (a : list attr) (ps : list spart)  (* script element with static and {{ }} parts *)
| TIf (c : bool) (th el : list tree)         (* if / else if / else: c says which list is rendered *)
| TFor (its : list (list tree))              (* for: the body as evaluated in each iteration *)
| TSwitch (i : nat) (cs : list (list tree))  (* switch: case number i is taken (none when i is out of range) *)
| TCall (body : list tree)                   (* @component(...) or <component/>: what the callee renders *)
| TChildren (body : list tree).              (* { children... }: the block passed by the caller *)

(* the i-th list, through f; d when there is none *)
Definition pick {A B : Type} (f : list A -> B) (d : B) : nat -> list (list A) -> B :=
  fix pick (i : nat) (cs : list (list A)) {struct cs} : B :=
    match cs with
    | [] => d
    | c :: r => match i with O => f c | S i' => pick i' r end
    end.

Fixpoint render_attr_t (a : attr) : bytes :=
  match a with
  | AConst k v => attr_kv k v
  | ADyn k s => attr_kv k s
  | ABool k => attr_bool k
  | ABoolExpr k b => if b then attr_bool k else []
  | ASpread m => render_attrs m
  | AStyle vs => [x20] ++ bs "style" ++ [x3d; x22] ++ style_attr vs ++ [x22]
  | ACond c th el => flat_map render_attr_t (if c then th else el)
  end.

Definition part_bytes (p : spart) : bytes := match p with PStatic v => v | PDyn d => d end.

Fixpoint render (t : tree) : bytes :=
  match t with
  | TText v => v
  | TStr s => escape s
  | TElem n a ch => [x3c] ++ escape n ++ flat_map render_attr_t a ++ [x3e] ++ flat_map render ch ++ [x3c; x2f] ++ escape n ++ [x3e]
  | TVoid n a => [x3c] ++ escape n ++ flat_map render_attr_t a ++ [x3e]
  | TCmt d => bs "<!--" ++ d ++ bs "-->"
  | TDoc d => bs "<!doctype " ++ d ++ [x3e]
  | TRaw n a v => [x3c] ++ escape n ++ flat_map render_attr_t a ++ [x3e] ++ v ++ [x3c; x2f] ++ escape n ++ [x3e]
  | TScript a ps => bs "<script" ++ flat_map render_attr_t a ++ [x3e] ++ flat_map part_bytes ps ++ bs "</script>"
  | TIf c th el => flat_map render (if c then th else el)
  | TFor its => flat_map (flat_map render) its
  | TSwitch i cs => pick (flat_map render) [] i cs
  | TCall body => flat_map render body
  | TChildren body => flat_map render body
  end.
