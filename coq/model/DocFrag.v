(* Model of what generated templ code writes for a fragment of the template language, with the Go
   expressions already evaluated (the environment is folded into the tree):
     static text, { string expressions }, elements and void elements with constant / boolean / dynamic /
     conditional-boolean / spread attributes, arbitrarily nested.
   Mirrors /repo/generator/generator.go: writeElement (open tag, attributes, children, close tag; void
   elements: no children, no close tag), writeText, writeStringExpression (templ.EscapeString of the value),
   writeConstantAttribute / writeExpressionAttribute (name, then the escaped value between double quotes),
   writeBoolConstantAttribute, writeBoolExpressionAttribute, writeSpreadAttributes (templ.RenderAttributes),
   writeExpressionAttributeValueStyle (the result of SanitizeStyleAttributeValues, not escaped again).
   Element and attribute names are written through html.EscapeString, as the generator does. *)
From Coq.Strings Require Import Byte String.
From Coq Require Import List NArith Bool.
Import ListNotations.
From V Require Import lib.Bytes model.Escape model.StyleAttr.

Inductive attr :=
| AConst (k v : bytes)                       (* name="constant"   (value re-escaped by the generator) *)
| ABool (k : bytes)                          (* name *)
| ADyn (k s : bytes)                         (* name={ expr }, expr evaluated to s (after URL / style / class typing) *)
| ABoolExpr (k : bytes) (b : bool)           (* name?={ expr } *)
| ASpread (m : list (bytes * aval))          (* { m... } *)
| AStyle (vs : list sval).                   (* style={ vs... }: templruntime.SanitizeStyleAttributeValues, written as returned *)

Inductive tree :=
| TText (v : bytes)                          (* static text *)
| TStr (s : bytes)                           (* { expr } evaluated to s *)
| TElem (n : bytes) (a : list attr) (ch : list tree)
| TVoid (n : bytes) (a : list attr).

Definition render_attr_t (a : attr) : bytes :=
  match a with
  | AConst k v => attr_kv k v
  | ADyn k s => attr_kv k s
  | ABool k => attr_bool k
  | ABoolExpr k b => if b then attr_bool k else []
  | ASpread m => render_attrs m
  | AStyle vs => [x20] ++ bs "style" ++ [x3d; x22] ++ style_attr vs ++ [x22]
  end.

Fixpoint render (t : tree) : bytes :=
  match t with
  | TText v => v
  | TStr s => escape s
  | TElem n a ch => [x3c] ++ escape n ++ flat_map render_attr_t a ++ [x3e] ++ flat_map render ch ++ [x3c; x2f] ++ escape n ++ [x3e]
  | TVoid n a => [x3c] ++ escape n ++ flat_map render_attr_t a ++ [x3e]
  end.
