(* The handler of model/Sse.v behind the HTTP server it is served from, with time: a model of what
   net/http does to the connection of a long-lived response, as far as the live-reload stream is
   concerned.  Definitions only; proofs are in proofs/SseTransportProof.v.

   cmd/templ/generatecmd/cmd.go StartProxy serves proxy.Handler (and with it the events route) from
   a listener.  The only thing about that listener the broadcast depends on is whether it gives its
   connections a WRITE DEADLINE ([wdl]: http.Server.WriteTimeout, in clock ticks; None for
   http.ListenAndServe, which sets none).  net/http arms the deadline ONCE per request, when the
   request headers have been read ([opened]); a streamed response does not move it.  Past the
   deadline a write to the connection fails: the response's buffered writer still accepts the bytes
   (Fprintf returns no error), the flush fails silently, and the connection's context is cancelled;
   later writes return the error.  Nothing reaches the browser any more.

   The model's actions are those of Sse.v plus the passing of time.  What the transport adds:
     - [Act (Cancel c)] is the BROWSER going away ([left]); the server side cancelling the context
       after a failed write is not the browser's doing and does not set [left];
     - a write returns an error only if the browser has gone or the deadline has passed;
     - a write that returns without error has reached the browser ([bgot]) unless the deadline
       has passed. *)
From Coq Require Import List Arith Bool.
Import ListNotations.
From V Require Import model.Sse.

Record tconfig := { wdl : option nat }.

Record tstate := {
  base : state;                  (* the handler (model/Sse.v) *)
  now : nat;                     (* the clock *)
  opened : nat -> nat;           (* per client: when its request headers were read (write deadline = opened + wdl) *)
  writing : nat -> option nat;   (* per client, while it is inside a write: Some e = event e, None = a ping *)
  bgot : nat -> list nat;        (* per client: the events its BROWSER has read, oldest first *)
  left : nat -> bool             (* per client: the browser itself closed the stream *)
}.

Definition tinit : tstate :=
  {| base := init; now := 0; opened := fun _ => 0; writing := fun _ => None; bgot := fun _ => []; left := fun _ => false |}.

Inductive taction := Act (a : action) | Advance (dt : nat).

Definition expired (cfg : tconfig) (ts : tstate) (c : nat) : bool :=
  match wdl cfg with None => false | Some d => opened ts c + d <=? now ts end.

Definition setf {A : Type} (f : nat -> A) (c : nat) (v : A) : nat -> A := fun k => if k =? c then v else f k.

Definition with_base (ts : tstate) (s : state) : tstate :=
  {| base := s; now := now ts; opened := opened ts; writing := writing ts; bgot := bgot ts; left := left ts |}.

Definition tstep (cfg : tconfig) (ts : tstate) (ta : taction) : option tstate :=
  match ta with
  | Advance dt =>
      Some {| base := base ts; now := now ts + dt; opened := opened ts; writing := writing ts; bgot := bgot ts; left := left ts |}
  | Act a =>
      match a with
      | WriteOK c =>
          match step false (base ts) (WriteOK c) with
          | None => None
          | Some s1 =>
              if expired cfg ts c then
                (* bytes accepted by the buffered writer and lost; checkConnErrorWriter cancels the context *)
                match step false s1 (Cancel c) with
                | Some s2 => Some (with_base ts s2)
                | None => None
                end
              else
                Some {| base := s1; now := now ts; opened := opened ts; writing := writing ts;
                        bgot := match writing ts c with
                                | Some e => setf (bgot ts) c (bgot ts c ++ [e])
                                | None => bgot ts
                                end;
                        left := left ts |}
          end
      | WriteErr c =>
          if left ts c || expired cfg ts c then
            match step false (base ts) a with Some s1 => Some (with_base ts s1) | None => None end
          else None
      | Cancel c =>
          match step false (base ts) a with
          | Some s1 => Some {| base := s1; now := now ts; opened := opened ts; writing := writing ts; bgot := bgot ts;
                               left := setf (left ts) c true |}
          | None => None
          end
      | Subscribe =>
          match step false (base ts) a with
          | Some s1 => Some {| base := s1; now := now ts; opened := setf (opened ts) (next_id (base ts)) (now ts);
                               writing := writing ts; bgot := bgot ts; left := left ts |}
          | None => None
          end
      | Deliver c e =>
          match step false (base ts) a with
          | Some s1 => Some {| base := s1; now := now ts; opened := opened ts; writing := setf (writing ts) c (Some e);
                               bgot := bgot ts; left := left ts |}
          | None => None
          end
      | Tick c =>
          match step false (base ts) a with
          | Some s1 => Some {| base := s1; now := now ts; opened := opened ts; writing := setf (writing ts) c None;
                               bgot := bgot ts; left := left ts |}
          | None => None
          end
      | _ =>
          match step false (base ts) a with Some s1 => Some (with_base ts s1) | None => None end
      end
  end.

Fixpoint texec (cfg : tconfig) (ts : tstate) (tr : list taction) : option tstate :=
  match tr with
  | [] => Some ts
  | a :: r => match tstep cfg ts a with Some ts' => texec cfg ts' r | None => None end
  end.

Definition treachable (cfg : tconfig) (ts : tstate) : Prop := exists tr, texec cfg tinit tr = Some ts.

(* the handler-level schedule a timed schedule stands for *)
Definition base_actions (cfg : tconfig) (ts : tstate) (ta : taction) : list action :=
  match ta with
  | Advance _ => []
  | Act (WriteOK c) => if expired cfg ts c then [WriteOK c; Cancel c] else [WriteOK c]
  | Act a => [a]
  end.

(* (browser, event) pairs outstanding in the model: the event's Send iterated a registry that held the
   client, the browser has not left by itself, and it has not read the event *)
Definition unserved (ts : tstate) : list (nat * nat) :=
  flat_map (fun p => map (fun c => (c, fst p))
                         (filter (fun c => negb (left ts c) && negb (mem_nat (fst p) (bgot ts c))) (snd p)))
           (log (base ts)).

(* ---- observation monitor for browser-side histories ----
   The observations of Sse.v's monitor, plus the passing of time.  [ORelease c false] (a write
   returned an error) becomes [Act (WriteErr c)], which the transport admits only for a browser that
   has left or a connection past its write deadline. *)
Inductive tobs := TO (o : obs) | TAdv (dt : nat).

Definition texpand (ts : tstate) (o : tobs) : option (list taction) :=
  match o with
  | TAdv d => Some [Advance d]
  | TO o => match expand (base ts) o with Some l => Some (map Act l) | None => None end
  end.

Fixpoint tmonitor (cfg : tconfig) (ts : tstate) (i : nat) (h : list tobs) : tstate + nat :=
  match h with
  | [] => inl ts
  | o :: r =>
      match texpand ts o with
      | None => inr i
      | Some acts =>
          match texec cfg ts acts with
          | None => inr i
          | Some ts' => tmonitor cfg ts' (S i) r
          end
      end
  end.
