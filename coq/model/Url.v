(* Model of templ.URL (/repo/url.go). *)
From Coq.Strings Require Import Byte String.
From Coq Require Import List NArith Bool.
Import ListNotations.
From V Require Import lib.Bytes.
Open Scope N_scope.

(* strings.IndexRune(s, ':') on bytes: ':' is ASCII so the index is that of the first 0x3a byte
   (a 0x3a byte is never part of a multi-byte sequence in Go's decoder). *)
Fixpoint split_colon (s : bytes) : option (bytes * bytes) :=
  match s with
  | [] => None
  | b :: r => if Byte.eqb b x3a then Some ([], r)
              else match split_colon r with Some (p, q) => Some (b :: p, q) | None => None end
  end.
Definition has_slash (s : bytes) : bool := existsb (fun b => Byte.eqb b x2f) s.

(* strings.EqualFold(s, t) for an ASCII lower-case constant t: rune-wise; a rune of s matches the
   ASCII letter c iff it is c, its upper case, or (simple folding orbits) U+212A for k / U+017F for s. *)
Fixpoint fold_match (s t : bytes) : bool :=
  match t with
  | [] => match s with [] => true | _ => false end
  | c :: t' =>
      match s with
      | [] => false
      | b :: s' =>
          if Byte.eqb (lower b) c then fold_match s' t'
          else match c, s with
               | x6b, xe2 :: x84 :: xaa :: s'' => fold_match s'' t'   (* KELVIN SIGN ~ k *)
               | x73, xc5 :: xbf :: s'' => fold_match s'' t'          (* LONG S ~ s *)
               | _, _ => false
               end
      end
  end.
Definition allowed : list bytes := map bs ["http"; "https"; "mailto"; "tel"; "ftp"; "ftps"]%string.
Definition failed : bytes := bs "about:invalid#TemplFailedSanitizationURL".
Definition url (s : bytes) : bytes :=
  match split_colon s with
  | Some (p, _) => if has_slash p then s else if existsb (fold_match p) allowed then s else failed
  | None => s
  end.

(* generator.go, writeExpressionAttribute: the URL-typed attribute writer is chosen when
   (EqualFold(elem,"a") && EqualFold(attr,"href")) || (EqualFold(elem,"form") && EqualFold(attr,"action")) *)
Definition url_sink (elem attr : bytes) : bool :=
  (fold_match elem (bs "a") && fold_match attr (bs "href")) ||
  (fold_match elem (bs "form") && fold_match attr (bs "action")).
