(* Model of what Render does for components built from templ's combinators: /repo/runtime.go
   (ComponentFunc, Raw, InitializeContext, getContext, WithChildren, renderChildren), join.go (Join),
   flush.go (FlushComponent.Render), once.go (OnceHandle.Once), the code the generator emits for a template
   (ctx.Err() check, runtime.GetBuffer / ReleaseBuffer, InitializeContext, call sites returning the callee's
   error at once) and /repo/runtime/buffer.go.  Definitions only.

   [run d c st] = (the bytes that reached the component's io.Writer when Render returned, whether Render
   returned an error, the state of the templ context value afterwards).  Every combinator hands the error of
   the component it renders to its caller at once, so rendering stops at the first failure. *)
From Coq.Strings Require Import Byte String.
From Coq Require Import List NArith Bool.
Import ListNotations.
From V Require Import lib.Bytes spec.HandlerSpec spec.CompSpec model.Handler.
Open Scope N_scope.

(* [sw]: the variant of FlushComponent.Render that does not hand on its children's error (false = flush.go) *)
Fixpoint run_gen (sw : bool) (d : bool) (c : comp) (st : octx) : bytes * bool * octx :=
  match c with
  | CNop => ([], false, st)
  (* ComponentFunc: Write each chunk, return the error *)
  | CLeaf chs f => (concat chs, f, st)
  (* Raw: io.WriteString *)
  | CRaw b => (b, false, st)
  (* Join: for _, c := range components { if err = c.Render(ctx, w); err != nil { return err } } *)
  | CSeq a b =>
      let '(x1, f1, st1) := run_gen sw d a st in
      if f1 then (x1, true, st1) else
      let '(x2, f2, st2) := run_gen sw d b st1 in (x1 ++ x2, f2, st2)
  (* Flush().Render(WithChildren(ctx, c), w): if err = renderChildren(ctx, w); err != nil { return err }; then
     the writer's Flush, which moves buffered bytes on and does not change what is written *)
  | CFlush c =>
      let '(x, f, st') := run_gen sw d c (enter st) in (x, if sw then false else f, leave st st')
  (* Once with children: getHasBeenRendered -> nil; else setHasBeenRendered, renderChildren *)
  | COnce h c =>
      if seen h (enter st) then ([], false, st)
      else let '(x, f, st') := run_gen sw d c (mark h (enter st)) in (x, f, leave st st')
  (* Once of a handle made WithComponent: the value getContext creates for a context without one is dropped *)
  | COnceC h c =>
      if seen h st then ([], false, st) else run_gen sw d c (mark h st)
  (* generated template: if ctx.Err() != nil return it; GetBuffer; ctx = InitializeContext(ctx); body;
     deferred ReleaseBuffer flushes what the body wrote *)
  | CTempl c =>
      if d then ([], true, st)
      else let '(x, f, st') := run_gen sw d c (enter st) in (x, f, leave st st')
  (* the failing writer passes the first n bytes on and returns an error for the rest *)
  | CLimit n c =>
      let '(x, f, st') := run_gen sw d c st in
      (firstn (N.to_nat n) x, f || (n <? N.of_nat (length x)), st')
  end.
Definition run := run_gen false.

(* the component the handler is given: rendered with r.Context(), which carries no templ value *)
Definition comp_component (c : comp) : ctx_state -> outcome :=
  fun s => let '(x, f, _) := run (ctx_done s) c None in {| chunks := [x]; fails := f |}.
Definition comp_component_sw (c : comp) : ctx_state -> outcome :=
  fun s => let '(x, f, _) := run_gen true (ctx_done s) c None in {| chunks := [x]; fails := f |}.
