(* Model of how `templ generate` gets from the -path argument AS IT WAS SPELLED to the file name that the handler
   gives to the generator (generator.WithFileName) for one template of the tree:
     cmd/templ/generatecmd/cmd.go           Run: `if !path.IsAbs(Args.Path) { Args.Path = filepath.Abs(Args.Path) }`
                                            - an absolute argument is kept VERBATIM (trailing '/', "/./", "/x/../", "//")
     cmd/templ/generatecmd/eventhandler.go  NewFSEventHandler: the same test; h.dir = the stored string
     cmd/templ/generatecmd/watcher/watch.go WalkFiles: event name = filepath.Abs(filepath.Join(rootPath, rel))
     cmd/templ/generatecmd/eventhandler.go  generate: filepath.Abs(fileName); filepath.Rel(h.dir, abs); ToSlash;
                                            generator.WithFileName(rel)
     generator/generator.go                 WithFileName: an absolute name is reduced to its base name
   path/filepath on a '/'-separated system (Clean, Join, Abs, Rel) is modelled on the list of '/'-separated
   components of a string.  Every path handled here is absolute; the components of an absolute string "/a//b/" are
   ["";"a";"";"b";""] - empty components are dropped by Clean, so the leading one is harmless.
   Definitions only; proofs are in proofs/RootPathProof.v. *)
From Coq.Strings Require Import Byte String.
From Coq Require Import List NArith ZArith Bool.
Import ListNotations.
From V Require Import lib.Bytes model.Walk.

(* strings.Split(s, "/") and strings.Join(l, "/") *)
Fixpoint split_slash (cur : bytes) (s : bytes) : list bytes :=
  match s with
  | [] => [rev cur]
  | b :: r => if Byte.eqb b x2f then rev cur :: split_slash [] r else split_slash (b :: cur) r
  end.
Fixpoint join_slash (l : list bytes) : bytes :=
  match l with [] => [] | [x] => x | x :: r => x ++ x2f :: join_slash r end.
(* the root-relative slash path of a tree path: "views/admin/edit.templ" *)
Definition of_path (p : path) : bytes := join_slash (full p).

(* path.IsAbs / filepath.IsAbs *)
Definition is_abs (s : bytes) : bool := match s with b :: _ => Byte.eqb b x2f | [] => false end.

(* filepath.Clean of an ABSOLUTE path, on components; [st] = the cleaned components so far, last first.
   "" and "." are dropped, ".." removes the component before it ("/.." is "/"). *)
Definition dot : bytes := bs ".".
Definition dotdot : bytes := bs "..".
Fixpoint clean_abs (st : list bytes) (cs : list bytes) : list bytes :=
  match cs with
  | [] => rev st
  | c :: r =>
      if bytes_eqb c [] || bytes_eqb c dot then clean_abs st r
      else if bytes_eqb c dotdot then clean_abs (tl st) r
      else clean_abs (c :: st) r
  end.
Definition clean (cs : list bytes) : list bytes := clean_abs [] cs.

(* cmd.go Run / NewFSEventHandler: the root as the command stores it (components of the stored absolute string).
   arg = the -path argument, cwd = os.Getwd() (absolute).  filepath.Abs(arg) = Clean(cwd + "/" + arg). *)
Definition stored_root (arg cwd : bytes) : list bytes :=
  if is_abs arg then split_slash [] arg else clean (split_slash [] cwd ++ split_slash [] arg).

(* WalkFiles: filepath.Abs(filepath.Join(rootPath, rel)) for the root-relative name rel of a file of the tree *)
Definition event_name (root : list bytes) (p : path) : list bytes := clean (clean (root ++ full p)).

(* filepath.Rel(base, targ) for absolute paths: both are cleaned, the common leading components are cut, one ".."
   per remaining component of base, then the rest of targ; "." when nothing is left *)
Fixpoint rel_comps (b t : list bytes) : list bytes :=
  match b, t with
  | x :: b', y :: t' => if bytes_eqb x y then rel_comps b' t' else map (fun _ => dotdot) b ++ t
  | _, _ => map (fun _ => dotdot) b ++ t
  end.
Definition rel (base targ : list bytes) : list bytes :=
  match rel_comps (clean base) (clean targ) with [] => [dot] | r => r end.

(* generator.WithFileName: `if filepath.IsAbs(name) { _, name = filepath.Split(name) }` *)
Definition with_file_name (name : bytes) : bytes :=
  if is_abs name then last (split_slash [] name) [] else name.

(* eventhandler.go generate, for the event WalkFiles sent for p: the FileName the generator works with *)
Definition name_given (arg cwd : bytes) (p : path) : bytes :=
  let root := stored_root arg cwd in
  let abs_file := clean (event_name root p) in            (* filepath.Abs(fileName) *)
  with_file_name (join_slash (rel root abs_file)).        (* Rel, ToSlash, WithFileName *)

(* The generation of one file, given g0 : file name -> contents -> generated and formatted code:
   [gen_rel]     what the property means by "the generation of that file alone": the name is the root-relative slash path
   [gen_spelled] what a run started with the argument [arg] in the directory [cwd] computes *)
Definition gen_rel (g0 : bytes -> bytes -> option bytes) : path -> bytes -> option bytes :=
  fun p c => g0 (of_path p) c.
Definition gen_spelled (g0 : bytes -> bytes -> option bytes) (arg cwd : bytes) : path -> bytes -> option bytes :=
  fun p c => g0 (name_given arg cwd p) c.
