(* Model of the templ formatter: fmt_write = TemplateFile.Write and every node/attribute Write of parser/v2/types.go
   (gofmt results are oracle fields of the nodes that use them, supplied by the harness), and
   reparse = the layout flags the parser recomputes when it parses the printed text again. *)
From Coq.Strings Require Import Byte String.
From Coq Require Import List Arith NArith Bool Lia.
Import ListNotations.
From V Require Import lib.Bytes lib.Sexp.
Local Open Scope nat_scope.
Inductive trailing := SpNone | SpHoriz | SpVert.
Inductive attr :=
| ABoolConst (n : bytes) | AConst (n v : bytes) (sq : bool) (uc : bool) (* uc: oracle, html.UnescapeString v <> v *) | ABoolExpr (n v : bytes) | AExpr (n : bytes) (lines : list bytes)
| ASpread (v : bytes) | ACond (v : bytes) (th el : list attr).
Inductive spart := SJs (v : bytes) | SGo (v : bytes) (trail : bytes).
Inductive node :=
| NWs | NDoc (v : bytes) | NText (v : bytes) (t : trailing)
| NElem (name : bytes) (attrs : list attr) (iattrs : bool) (children : list node) (ichildren : bool) (t : trailing)
| NRaw (name : bytes) (attrs : list attr) (contents : bytes)
| NScript (attrs : list attr) (parts : list spart)
| NGoComment (c : bytes) (multi : bool) | NHtmlComment (c : bytes)
| NCallT (v : bytes) | NCall (src ref : list bytes) (children : list node) | NChildren
| NIf (v : bytes) (th : list node) (elifs : list (bytes * list node)) (el : list node)
| NSwitch (v : bytes) (cases : list (bytes * list node))
| NFor (v : bytes) (body : list node)
| NGoCode (src : bytes) (multi : bool) (t : trailing)
| NStr (v : bytes) (t : trailing).
Inductive cssprop := CConst (n v : bytes) | CExpr (n v : bytes).
Inductive fnode :=
| FGo (v : bytes) (fmt : option bytes)
| FTempl (sig : bytes) (children : list node)
| FCss (sig : bytes) (props : list cssprop)
| FScript (sig value : bytes).
Record file := { f_header : list fnode; f_pkg : bytes; f_nodes : list fnode }.

(* ---------- decoding ---------- *)
Definition db (x : sexp) : bytes := match x with Atom b => b | _ => [] end.
Definition dbl (x : sexp) : list bytes := match x with SList l => map db l | _ => [] end.
Definition beq (a b : bytes) : bool := bytes_eqb a b.
Definition is (t : bytes) (s : string) := beq t (bs s).
Definition dbool (x : sexp) := beq (db x) (bs "1").
Definition dtrail (x : sexp) : trailing := match db x with [x20] => SpHoriz | [x0a] => SpVert | _ => SpNone end.
Definition opt_list {A} (l : list (option A)) : option (list A) :=
  fold_right (fun x acc => match x, acc with Some a, Some r => Some (a :: r) | _, _ => None end) (Some []) l.
Fixpoint dattr (x : sexp) : option attr :=
  let dl := fix dl (l : list sexp) : option (list attr) :=
    match l with [] => Some [] | y :: r => match dattr y, dl r with Some a, Some b => Some (a :: b) | _, _ => None end end in
  match x with
  | SList [Atom t; n] => if is t "boolconst" then Some (ABoolConst (db n)) else if is t "spread" then Some (ASpread (db n)) else None
  | SList [Atom t; n; v] => if is t "boolexpr" then Some (ABoolExpr (db n) (db v)) else if is t "expr" then Some (AExpr (db n) (dbl v)) else None
  | SList [Atom t; n; v; q; uc] =>
      if is t "const" then Some (AConst (db n) (db v) (dbool q) (dbool uc))
      else if is t "cond" then
        match v, q with
        | SList a, SList b => match dl a, dl b with Some a', Some b' => Some (ACond (db n) a' b') | _, _ => None end
        | _, _ => None end
      else None
  | _ => None end.
Definition dattrs (x : sexp) := match x with SList l => opt_list (map dattr l) | _ => None end.
Definition dspart (x : sexp) : option spart :=
  match x with
  | SList [Atom t; v] => if is t "js" then Some (SJs (db v)) else None
  | SList [Atom t; v; tr] => if is t "go" then Some (SGo (db v) (db tr)) else None
  | _ => None end.
Fixpoint dnode (x : sexp) : option node :=
  let dl := fix dl (l : list sexp) : option (list node) :=
    match l with [] => Some [] | y :: r => match dnode y, dl r with Some a, Some b => Some (a :: b) | _, _ => None end end in
  let dls := fun x => match x with SList l => dl l | _ => None end in
  let dcases := fix dc (l : list sexp) : option (list (bytes * list node)) :=
    match l with
    | [] => Some []
    | SList [e; SList b] :: r => match dl b, dc r with Some b', Some r' => Some ((db e, b') :: r') | _, _ => None end
    | _ => None end in
  match x with
  | SList [Atom t] => if is t "children" then Some NChildren else if is t "ws" then Some NWs else None
  | SList [Atom t; a] => if is t "doctype" then Some (NDoc (db a)) else if is t "htmlcomment" then Some (NHtmlComment (db a))
                         else if is t "callt" then Some (NCallT (db a)) else None
  | SList [Atom t; a; b] =>
      if is t "text" then Some (NText (db a) (dtrail b))
      else if is t "str" then Some (NStr (db a) (dtrail b))
      else if is t "gocomment" then Some (NGoComment (db a) (dbool b))
      else if is t "for" then option_map (NFor (db a)) (dls b)
      else if is t "switch" then match b with SList l => option_map (NSwitch (db a)) (dcases l) | _ => None end
      else if is t "script" then match dattrs a, b with Some a', SList ps => option_map (NScript a') (opt_list (map dspart ps)) | _, _ => None end
      else None
  | SList [Atom t; a; b; c] =>
      if is t "raw" then option_map (fun a' => NRaw (db a) a' (db c)) (dattrs b)
      else if is t "call" then option_map (NCall (dbl a) (dbl b)) (dls c)
      else if is t "gocode" then Some (NGoCode (db a) (dbool b) (dtrail c))
      else None
  | SList [Atom t; a; SList b; SList c; SList d] =>
      if is t "if" then match dl b, dcases c, dl d with Some b', Some c', Some d' => Some (NIf (db a) b' c' d') | _, _, _ => None end else None
  | SList [Atom t; n; ats; ia; SList ch; ic; tr] =>
      if is t "elem" then match dattrs ats, dl ch with Some a', Some c' => Some (NElem (db n) a' (dbool ia) c' (dbool ic) (dtrail tr)) | _, _ => None end else None
  | _ => None
  end.
Definition dcss (x : sexp) : option cssprop :=
  match x with
  | SList [Atom t; n; v] => if is t "cconst" then Some (CConst (db n) (db v)) else if is t "cexpr" then Some (CExpr (db n) (db v)) else None
  | _ => None end.
Definition dfnode (x : sexp) : option fnode :=
  match x with
  | SList [Atom t; v; SList []] => if is t "go" then Some (FGo (db v) None) else None
  | SList [Atom t; v; SList [f]] => if is t "go" then Some (FGo (db v) (Some (db f))) else None
  | SList [Atom t; s; SList ch; _] => if is t "templ" then option_map (FTempl (db s)) (opt_list (map dnode ch)) else None
  | SList [Atom t; s; SList ps; _; _] => if is t "css" then option_map (FCss (db s)) (opt_list (map dcss ps)) else None
  | SList [Atom t; s; v; _; _; _] => if is t "scriptt" then Some (FScript (db s) (db v)) else None
  | _ => None end.
Definition dfile (x : sexp) : option file :=
  match x with
  | SList [SList hs; p; SList ns] =>
      match opt_list (map dfnode hs), opt_list (map dfnode ns) with
      | Some h, Some n => Some {| f_header := h; f_pkg := db p; f_nodes := n |} | _, _ => None end
  | _ => None end.

(* ---------- Write ---------- *)
Definition tabs (n : nat) : bytes := repeat x09 n.
Definition ind (lvl : nat) (s : bytes) : bytes := tabs lvl ++ s.
Definition nlb : bytes := [x0a].
Definition mem (n : bytes) (l : list string) : bool := existsb (fun s => beq n (bs s)) l.
Definition is_block_name (n : bytes) : bool :=
  mem n ["address";"article";"aside";"body";"blockquote";"canvas";"dd";"div";"dl";"dt";"fieldset";"figcaption";"figure";"footer";"form";"h1";"h2";"h3";"h4";"h5";"h6";"head";"header";"hr";"html";"li";"main";"meta";"nav";"noscript";"ol";"p";"pre";"script";"section";"table";"template";"tfoot";"turbo-stream";"ul";"video";"title";"style";"link";"td";"th";"tr";"br"]%string.
Definition is_void_name (n : bytes) : bool :=
  mem n ["area";"base";"br";"col";"command";"embed";"hr";"img";"input";"keygen";"link";"meta";"param";"source";"track";"wbr"]%string.
Definition fold_eq (a : bytes) (s : string) := beq (map lower a) (bs s).
Definition is_space (b : byte) : bool := match b with x20 | x09 | x0a | x0d | x0b | x0c => true | _ => false end.
Definition ws_only (s : bytes) : bool := forallb is_space s.
Definition is_ws (n : node) : bool := match n with NWs => true | _ => false end.
Definition trail_of (n : node) : option trailing :=
  match n with NText _ t | NElem _ _ _ _ _ t | NStr _ t | NGoCode _ _ t => Some t | _ => None end.
Definition is_block_node (n : node) : bool :=
  match n with NIf _ _ _ _ | NSwitch _ _ | NFor _ _ => true | NElem name _ _ _ ic _ => is_block_name name || ic | _ => false end.
Definition always_break (n : node) : bool := match n with NElem name _ _ _ _ _ => fold_eq name "br" || fold_eq name "hr" | _ => false end.
Definition trail_bytes (t : trailing) : bytes := match t with SpNone => [] | SpHoriz => [x20] | SpVert => nlb end.

Definition repl_byte (c : byte) (r : bytes) (s : bytes) : bytes := flat_map (fun b => if Byte.eqb b c then r else [b]) s.

Fixpoint write_attr (fuel lvl : nat) (a : attr) : bytes :=
  match fuel with O => [] | S f =>
  match a with
  | ABoolConst n => ind lvl n
  | AConst n v sq uc =>
      (* ConstantAttribute.String: the stored (unescaped) value is re-escaped so that it parses to the same value *)
      let q := if sq then [x27] else [x22] in
      let v1 := if uc then repl_byte x26 (bs "&amp;") v else v in
      let v2 := if sq then repl_byte x27 (bs "&#39;") v1 else repl_byte x22 (bs "&#34;") v1 in
      ind lvl (n ++ bs "=" ++ q ++ v2 ++ q)
  | ABoolExpr n v => ind lvl (n ++ bs "?={ " ++ v ++ bs " }")
  | AExpr n lines =>
      match lines with
      | [l] => ind lvl (n ++ bs "={ " ++ l ++ bs " }")
      | _ => ind lvl (n ++ bs "={" ++ nlb) ++ flat_map (fun l => ind lvl (l ++ nlb)) lines ++ ind lvl (bs "}")
      end
  | ASpread v => ind lvl (bs "{ " ++ v ++ bs "... }")
  | ACond v th el =>
      ind lvl (bs "if ") ++ v ++ bs " {" ++ nlb ++ flat_map (fun x => write_attr f (S lvl) x ++ nlb) th ++ ind lvl (bs "}") ++
      match el with [] => [] | _ => bs " else {" ++ nlb ++ flat_map (fun x => write_attr f (S lvl) x ++ nlb) el ++ ind lvl (bs "}") end
  end end.

Definition str_expr (v : bytes) : bytes := bs "{ " ++ (if ws_only v then [] else v) ++ bs " }".

Fixpoint write_node (fuel lvl : nat) (n : node) {struct fuel} : bytes :=
  match fuel with O => [] | S f =>
  let write_nodes := fix wn (start lvl : nat) (indent : bool) (l : list node) : bytes :=
    match l with
    | [] => []
    | c :: r =>
        if is_ws c then wn start lvl indent r else
        let tr0 := match trail_of c with Some t => t | None => SpVert end in
        let next_block := match r with x :: _ => is_block_node x | [] => false end in
        let is_last := match r with [] => true | _ => false end in
        let tr := if indent && (next_block || is_last || always_break c) then SpVert else tr0 in
        let lvl' := match tr with SpVert => start | _ => 0 end in
        write_node f lvl c ++ trail_bytes tr ++ wn start lvl' indent r
    end in
  let nodes_indented := fun l' l => write_nodes l' l' true l in
  match n with
  | NWs => []
  | NDoc v => ind lvl (bs "<!DOCTYPE " ++ v ++ bs ">")
  | NText v _ => ind lvl v
  | NStr v _ => ind lvl (str_expr v)
  | NGoComment c multi => if multi then ind lvl (bs "/*" ++ c ++ bs "*/") else ind lvl (bs "//" ++ c)
  | NHtmlComment c => ind lvl (bs "<!--" ++ c ++ bs "-->")
  | NCallT v => ind lvl (bs "@" ++ v)
  | NChildren => ind lvl (bs "{ children... }")
  | NGoCode src multi _ => if multi then ind lvl (bs "{{" ++ src ++ nlb) ++ ind lvl (bs "}}") else ind lvl (bs "{{ " ++ src ++ bs " }}")
  | NCall src ref ch =>
      (fix lines (i : nat) (s r : list bytes) : bytes :=
         match s with
         | [] => []
         | l :: s' =>
             (if i =? 0 then ind lvl (bs "@" ++ l)
              else nlb ++ (if beq l (hd [] r) then ind lvl l else l)) ++ lines (S i) s' (tl r)
         end) 0 src ref ++
      match ch with [] => [] | _ => bs " {" ++ nlb ++ nodes_indented (S lvl) ch ++ ind lvl (bs "}") end
  | NIf v th elifs el =>
      ind lvl (bs "if " ++ v ++ bs " {" ++ nlb) ++ nodes_indented (S lvl) th ++
      flat_map (fun '(cv, cb) => ind lvl (bs "} else if " ++ cv ++ bs " {" ++ nlb) ++ nodes_indented (S lvl) cb) elifs ++
      (match el with [] => [] | _ => ind lvl (bs "} else {" ++ nlb) ++ nodes_indented (S lvl) el end) ++ ind lvl (bs "}")
  | NSwitch v cases =>
      ind lvl (bs "switch " ++ v ++ bs " {" ++ nlb) ++
      flat_map (fun '(cv, cb) => ind (S lvl) (cv ++ nlb) ++ nodes_indented (S (S lvl)) cb) cases ++ ind lvl (bs "}")
  | NFor v b => ind lvl (bs "for " ++ v ++ bs " {" ++ nlb) ++ nodes_indented (S lvl) b ++ ind lvl (bs "}")
  | NRaw name attrs c => ind lvl (bs "<" ++ name) ++ flat_map (fun a => [x20] ++ write_attr 50 0 a) attrs ++ bs ">" ++ c ++ bs "</" ++ name ++ bs ">"
  | NScript attrs parts =>
      ind lvl (bs "<script") ++ flat_map (fun a => [x20] ++ write_attr 50 0 a) attrs ++ bs ">" ++
      flat_map (fun p => match p with SJs v => v | SGo v tr => bs "{{ " ++ (if ws_only v then [] else v) ++ bs " }}" ++ tr end) parts ++ bs "</script>"
  | NElem name attrs ia ch ic _ =>
      ind lvl (bs "<" ++ name) ++
      flat_map (fun a => if ia then nlb ++ write_attr 50 (S lvl) a else [x20] ++ write_attr 50 0 a) attrs ++
      (if ia then nlb else []) ++
      let cl := if ia then lvl else 0 in
      if existsb (fun c => negb (is_ws c)) ch then
        if ic then ind cl (bs ">" ++ nlb) ++ nodes_indented (S lvl) ch ++ ind lvl (bs "</" ++ name ++ bs ">")
        else ind cl (bs ">") ++ write_nodes 0 0 false ch ++ bs "</" ++ name ++ bs ">"
      else if is_void_name name then ind cl (bs "/>")
      else ind cl (bs "></" ++ name ++ bs ">")
  end end.

Fixpoint write_nodes_top (start lvl : nat) (l : list node) : bytes :=
  match l with
  | [] => []
  | c :: r =>
      if is_ws c then write_nodes_top start lvl r else
      let tr0 := match trail_of c with Some t => t | None => SpVert end in
      let next_block := match r with x :: _ => is_block_node x | [] => false end in
      let is_last := match r with [] => true | _ => false end in
      let tr := if next_block || is_last || always_break c then SpVert else tr0 in
      let lvl' := match tr with SpVert => start | _ => 0 end in
      write_node 200 lvl c ++ trail_bytes tr ++ write_nodes_top start lvl' r
  end.

Fixpoint last_line (s acc : bytes) : bytes := match s with [] => rev acc | b :: r => if Byte.eqb b x0a then last_line r [] else last_line r (b :: acc) end.
(* parser/v2/types.go endsWithComment: strings.HasPrefix(strings.TrimLeft(lastLine, " \t\r"), "//") - the comment may be
   indented in the text as read, or stand behind a carriage return; gofmt prints it at the start of the line
   (48881af, 0276e15) *)
Fixpoint trim_left_blanks (s : bytes) : bytes :=
  match s with b :: r => if Byte.eqb b x20 || Byte.eqb b x09 || Byte.eqb b x0d then trim_left_blanks r else s | [] => [] end.
Definition ends_with_comment (v : bytes) : bool := has_prefix (bs "//") (trim_left_blanks (last_line v [])).

Definition write_fnode (n : fnode) : bytes :=
  match n with
  | FGo v (Some data) => data
  | FGo v None => v
  | FTempl sig ch => bs "templ " ++ sig ++ bs " {" ++ nlb ++ write_nodes_top 1 1 ch ++ bs "}"
  | FCss sig props =>
      bs "css " ++ sig ++ bs " {" ++ nlb ++
      flat_map (fun p => match p with
        | CConst n v => ind 1 (n ++ bs ": " ++ v ++ bs ";" ++ nlb)
        | CExpr n v => ind 1 (n ++ bs ": ") ++ str_expr v ++ bs ";" ++ nlb end) props ++ bs "}"
  | FScript sig value => bs "script " ++ sig ++ bs " {" ++ nlb ++ value ++ bs "}"
  end.
Fixpoint write_fnodes (l : list fnode) : bytes :=
  match l with
  | [] => []
  | n :: r =>
      write_fnode n ++
      (match r with
       | [] => nlb
       | FTempl _ _ :: _ => match n with FGo v _ => if ends_with_comment v then nlb else [x0a; x0a] | _ => [x0a; x0a] end
       | _ => [x0a; x0a]
       end) ++ write_fnodes r
  end.
Definition fmt_write (f : file) : bytes :=
  flat_map write_fnode (f_header f) ++ f_pkg f ++ [x0a; x0a] ++ write_fnodes (f_nodes f).

(* ---------- reparse: the tree the parser builds from the printed text (layout flags only; Whitespace nodes dropped) ---------- *)
Definition has_nl (s : bytes) : bool := existsb (fun b => Byte.eqb b x0a) s.
Definition set_trailing (n : node) (t : trailing) : node :=
  match n with
  | NText v _ => NText v t
  | NElem a b c d e _ => NElem a b c d e t
  | NStr v _ => NStr v t
  | NGoCode s m _ => NGoCode s m t
  | _ => n end.

Fixpoint reparse_node (fuel lvl : nat) (n : node) {struct fuel} : node :=
  match fuel with O => n | S f =>
  let rp_nodes := fix rn (start lvl : nat) (indent : bool) (l : list node) : list node :=
    match l with
    | [] => []
    | c :: r =>
        if is_ws c then rn start lvl indent r else
        let tr0 := match trail_of c with Some t => t | None => SpVert end in
        let next_block := match r with x :: _ => is_block_node x | [] => false end in
        let is_last := match r with [] => true | _ => false end in
        let tr := if indent && (next_block || is_last || always_break c) then SpVert else tr0 in
        let lvl' := match tr with SpVert => start | _ => 0 end in
        set_trailing (reparse_node f lvl c) tr :: rn start lvl' indent r
    end in
  let nodes_indented := fun l' l => rp_nodes l' l' true l in
  match n with
  | NGoCode src multi t => NGoCode src (has_nl src) t
  | NCall src ref ch =>
      (* a block that holds only white space is still a block when parsed again *)
      NCall src ref (match nodes_indented (S lvl) ch with [] => (match ch with [] => [] | _ => [NWs] end) | l => l end)
  | NIf v th elifs el =>
      (* an else branch that holds only white space is still an else branch when parsed again *)
      NIf v (nodes_indented (S lvl) th) (map (fun '(cv, cb) => (cv, nodes_indented (S lvl) cb)) elifs)
          (match nodes_indented (S lvl) el with [] => (match el with [] => [] | _ => [NWs] end) | l => l end)
  | NSwitch v cases => NSwitch v (map (fun '(cv, cb) => (cv, nodes_indented (S (S lvl)) cb)) cases)
  | NFor v b => NFor v (nodes_indented (S lvl) b)
  | NElem name attrs ia ch ic t =>
      let printed_attrs := flat_map (fun a => if ia then nlb ++ write_attr 50 (S lvl) a else [x20] ++ write_attr 50 0 a) attrs in
      let ia' := has_nl printed_attrs in
      let has_children := existsb (fun c => negb (is_ws c)) ch in
      let ic' := if has_children then (if ic then true else has_nl (flat_map (fun c => write_node 200 0 c) ch) || existsb (fun c => negb (is_ws c) && match trail_of c with None => true | Some SpVert => true | _ => false end) ch) else false in
      let ch' := if has_children then (if ic then nodes_indented (S lvl) ch else rp_nodes 0 0 false ch) else [] in
      NElem name attrs ia' ch' ic' t
  | _ => n
  end end.

Fixpoint reparse_top (start lvl : nat) (l : list node) : list node :=
  match l with
  | [] => []
  | c :: r =>
      if is_ws c then reparse_top start lvl r else
      let tr0 := match trail_of c with Some t => t | None => SpVert end in
      let next_block := match r with x :: _ => is_block_node x | [] => false end in
      let is_last := match r with [] => true | _ => false end in
      let tr := if next_block || is_last || always_break c then SpVert else tr0 in
      let lvl' := match tr with SpVert => start | _ => 0 end in
      set_trailing (reparse_node 200 lvl c) tr :: reparse_top start lvl' r
  end.
Definition reparse_fnode (n : fnode) : fnode := match n with FTempl sig ch => FTempl sig (reparse_top 1 1 ch) | _ => n end.
Definition reparse (f : file) : file := {| f_header := f_header f; f_pkg := f_pkg f; f_nodes := map reparse_fnode (f_nodes f) |}.

