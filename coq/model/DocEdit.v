(* Model of /repo/cmd/templ/lspcmd/proxy/documentcontents.go (Document, DocumentContents.Apply) and of the
   document bookkeeping of Server.DidOpen / Server.DidChange in server.go.
   Document.Lines is a [list bytes]; every Go function below is a function from the old line array to the
   new one.  Definitions only - the proofs are in proofs/DocEditProof.v. *)
From Coq.Strings Require Import Byte String.
From Coq Require Import List NArith Arith Bool.
Import ListNotations.
From V Require Import lib.Bytes lib.Lsp.
Local Open Scope nat_scope.

Definition nl : byte := x0a.

(* strings.Split(s, "\n"): always at least one line *)
Fixpoint split_nl (s : bytes) : list bytes :=
  match s with
  | [] => [[]]
  | b :: r => if Byte.eqb b nl then [] :: split_nl r
              else match split_nl r with l :: ls => (b :: l) :: ls | [] => [[b]] end
  end.

(* strings.Join(lines, "\n") *)
Fixpoint join_nl (ls : list bytes) : bytes :=
  match ls with [] => [] | [l] => l | l :: r => l ++ nl :: join_nl r end.

(* NewDocument(log, s) and Document.Replace(with): Lines = strings.Split(s, "\n") *)
Definition new_document (s : bytes) : list bytes := split_nl s.
(* Document.String() *)
Definition doc_string (d : list bytes) : bytes := join_nl d.

(* d.Lines[i]; d.Lines[i] = l *)
Definition nth_line (d : list bytes) (i : nat) : bytes := nth i d [].
Definition set_line (d : list bytes) (i : nat) (l : bytes) : list bytes := firstn i d ++ l :: skipn (S i) d.

(* Document.normalize(r), one position at a time.  Go:
     if p.Line >= uint32(len(lens)) { p.Line = uint32(len(lens)-1); p.Character = uint32(lens[p.Line]) }
     if p.Character > uint32(lens[p.Line]) { p.Character = uint32(lens[p.Line]) }                      *)
Definition norm_pos (d : list bytes) (p : pos) : pos :=
  let n := length d in
  let p1 := if (N.of_nat n <=? line p)%N
            then {| line := N.of_nat (n - 1); char := N.of_nat (length (nth_line d (n - 1))) |}
            else p in
  let ll := N.of_nat (length (nth_line d (N.to_nat (line p1)))) in
  if (ll <? char p1)%N then {| line := line p1; char := ll |} else p1.
Definition normalize (d : list bytes) (r : range) : range :=
  {| start := norm_pos d (start r); stop := norm_pos d (stop r) |}.

(* Document.DeleteLines(i, j): append(d.Lines[:i], d.Lines[j:]...) *)
Definition delete_lines (d : list bytes) (i j : nat) : list bytes := firstn i d ++ skipn j d.
(* Document.InsertLines(i, withLines): append(d.Lines[:i], append(withLines, d.Lines[i:]...)...) *)
Definition insert_lines (d : list bytes) (i : nat) (w : list bytes) : list bytes := firstn i d ++ w ++ skipn i d.

(* Document.Delete(fromLine, fromCol, toLine, toCol); deleteTo = fromLine + (toLine - fromLine) = toLine *)
Definition doc_delete (d : list bytes) (fl fc el ec : nat) : list bytes :=
  let prefix := firstn fc (nth_line d fl) in
  let suffix := skipn ec (nth_line d el) in
  set_line (delete_lines d fl el) fl (prefix ++ suffix).

(* Document.Insert(line, col, lines); lines is strings.Split(..) hence never empty *)
Definition doc_insert (d : list bytes) (l c : nat) (w : list bytes) : list bytes :=
  let prefix := firstn c (nth_line d l) in
  let suffix := skipn c (nth_line d l) in
  match w with
  | [] => d
  | w0 :: wr =>
      let d1 := set_line d l (prefix ++ w0) in                                   (* lines[0] = prefix + lines[0]; d.Lines[line] = lines[0] *)
      let d2 := match wr with [] => d1 | _ => insert_lines d1 (S l) wr end in    (* if len(lines) > 1 { d.InsertLines(line+1, lines[1:]) } *)
      let k := l + length w - 1 in
      set_line d2 k (nth_line d2 k ++ suffix)                                    (* d.Lines[line+len(lines)-1] = lines[len(lines)-1] + suffix *)
  end.

(* Document.Overwrite(fromLine, fromCol, toLine, toCol, lines) *)
Definition doc_overwrite (d : list bytes) (fl fc el ec : nat) (w : list bytes) : list bytes :=
  let suffix := skipn ec (nth_line d el) in
  let d1 := doc_delete d fl fc el (length (nth_line d el)) in
  let w' := removelast w ++ [last w [] ++ suffix] in
  doc_insert d1 fl fc w'.

Definition is_empty (w : bytes) : bool := match w with [] => true | _ => false end.

(* r.End.Line == r.Start.Line && r.Start.Character == r.End.Character *)
Definition same_pos (r : range) : bool :=
  (line (stop r) =? line (start r))%N && (char (start r) =? char (stop r))%N.
(* Document.isInsert / isDelete / isOverwrite *)
Definition is_insert (r : range) (w : bytes) : bool := same_pos r && negb (is_empty w).
Definition is_delete (r : range) (w : bytes) : bool := negb (same_pos r) && is_empty w.
Definition is_overwrite (r : range) (w : bytes) : bool := negb (same_pos r) && negb (is_empty w).

(* Document.isWholeDocument(r) for r != nil, as of commit 9226857:
     if r.Start.Line != 0 || r.Start.Character != 0 { return false }
     l, c := d.Len();  return r.End.Line >= uint32(l-1) && r.End.Character == uint32(c)           *)
Definition is_whole_document (d : list bytes) (r : range) : bool :=
  if negb (line (start r) =? 0)%N || negb (char (start r) =? 0)%N then false
  else
    let l := length d in
    let c := length (nth_line d (l - 1)) in
    (N.of_nat (l - 1) <=? line (stop r))%N && (char (stop r) =? N.of_nat c)%N.

(* the predicate before commit 9226857 (kept so that a regression is recognisable):
     return r.End.Line == uint32(l) || r.End.Character == uint32(c)            after the same start test *)
Definition is_whole_document_old (d : list bytes) (r : range) : bool :=
  if negb (line (start r) =? 0)%N || negb (char (start r) =? 0)%N then false
  else
    let l := length d in
    let c := length (nth_line d (l - 1)) in
    (line (stop r) =? N.of_nat l)%N || (char (stop r) =? N.of_nat c)%N.

(* Document.Apply(r, with), parametric in the whole-document predicate *)
Definition apply_with (whole : list bytes -> range -> bool)
                      (d : list bytes) (r0 : option range) (w : bytes) : list bytes :=
  let wl := split_nl w in
  match r0 with
  | None => wl                                                   (* normalize(nil) returns; isWholeDocument(nil) = true *)
  | Some r0 =>
      let r := normalize d r0 in
      if whole d r then wl
      else
        let fl := N.to_nat (line (start r)) in let fc := N.to_nat (char (start r)) in
        let el := N.to_nat (line (stop r)) in let ec := N.to_nat (char (stop r)) in
        if is_insert r w then doc_insert d fl fc wl
        else if is_delete r w then doc_delete d fl fc el ec
        else if is_overwrite r w then doc_overwrite d fl fc el ec wl
        else d
  end.

Definition apply : list bytes -> option range -> bytes -> list bytes := apply_with is_whole_document.

(* DocumentContents.Apply(uri, changes): for _, change := range changes { d.Apply(change.Range, change.Text) } *)
Definition apply_change (d : list bytes) (c : change) : list bytes := apply d (crange c) (ctext c).
Definition apply_changes (d : list bytes) (cs : list change) : list bytes := fold_left apply_change cs d.

(* Server.DidOpen: TemplSource.Set(uri, NewDocument(text));  Server.DidChange: TemplSource.Apply(uri, changes) *)
Definition server_step (d : list bytes) (e : event) : list bytes :=
  match e with
  | Open s => new_document s
  | Change cs => apply_changes d cs
  end.
Definition server_doc (s0 : bytes) (es : list event) : list bytes := fold_left server_step es (new_document s0).
