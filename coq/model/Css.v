(* Model of /repo/safehtml/style.go (CSS property/value sanitiser), of templ.SanitizeCSS (/repo/runtime.go)
   and of the style-attribute dispatcher /repo/runtime/styleattribute.go.
   Definitions only.  Go strings are byte lists; the data tables (property -> sanitiser map, url( prefix and
   suffix lists, the innocuous constants) come from the live code through gen/Tables05.v. *)
From Coq.Strings Require Import Byte String.
From Coq Require Import List NArith Bool.
Import ListNotations.
From V Require Import lib.Bytes model.Url gen.Tables05.
Open Scope N_scope.

Definition in_range (lo hi : N) (b : byte) : bool := (lo <=? bN b) && (bN b <=? hi).
Definition m_alpha (b : byte) : bool := in_range 65 90 b || in_range 97 122 b.
Definition m_digit (b : byte) : bool := in_range 48 57 b.

(* ---------- generic string helpers (package strings) ---------- *)
(* strings.Split(s, ","): never empty *)
Fixpoint split_comma (s : bytes) : list bytes :=
  match s with
  | [] => [[]]
  | c :: r => if Byte.eqb c x2c then [] :: split_comma r
              else match split_comma r with
                   | h :: t => (c :: h) :: t
                   | [] => [[c]]
                   end
  end.
Definition has_suffix (p s : bytes) : bool := has_prefix (rev p) (rev s).
(* strings.TrimPrefix / strings.TrimSuffix *)
Definition trim_prefix (p s : bytes) : bytes := if has_prefix p s then skipn (length p) s else s.
Definition trim_suffix (p s : bytes) : bytes := if has_suffix p s then firstn (length s - length p) s else s.
(* strings.ContainsAny(s, chars) for an ASCII chars, as a byte predicate *)
Definition contains_any (f : byte -> bool) (s : bytes) : bool := existsb f s.

(* strings.Trim(u, cutset) with cutset = SP TAB LF CR FF: ASCII, so byte-wise on both ends *)
Definition cut_css_ws (b : byte) : bool :=
  Byte.eqb b x20 || Byte.eqb b x09 || Byte.eqb b x0a || Byte.eqb b x0d || Byte.eqb b x0c.
Definition trim_css (s : bytes) : bytes := rev (drop_while cut_css_ws (rev (drop_while cut_css_ws s))).

(* strings.TrimSpace = TrimFunc(s, unicode.IsSpace): strips whole white-space runes from both ends.
   A string starts (ends) with a white-space rune exactly when it has one of these encodings as a prefix
   (suffix): utf8.DecodeRune / DecodeLastRune return the rune only for its one valid encoding.
   unicode.IsSpace: \t \n \v \f \r SP U+0085 U+00A0 U+1680 U+2000..U+200A U+2028 U+2029 U+202F U+205F U+3000 *)
Definition space_runes : list bytes :=
  [[x09]; [x0a]; [x0b]; [x0c]; [x0d]; [x20]; [xc2; x85]; [xc2; xa0]; [xe1; x9a; x80];
   [xe2; x80; x80]; [xe2; x80; x81]; [xe2; x80; x82]; [xe2; x80; x83]; [xe2; x80; x84]; [xe2; x80; x85];
   [xe2; x80; x86]; [xe2; x80; x87]; [xe2; x80; x88]; [xe2; x80; x89]; [xe2; x80; x8a];
   [xe2; x80; xa8]; [xe2; x80; xa9]; [xe2; x80; xaf]; [xe2; x81; x9f]; [xe3; x80; x80]].
(* strip leading members of L while there are any (fuel: the length of the string) *)
Fixpoint strip_prefixes (L : list bytes) (fuel : nat) (s : bytes) : bytes :=
  match fuel with
  | O => s
  | S f => match find (fun w => has_prefix w s) L with
           | Some w => strip_prefixes L f (skipn (length w) s)
           | None => s
           end
  end.
Definition trim_space (s : bytes) : bytes :=
  let l := strip_prefixes space_runes (length s) s in
  rev (strip_prefixes (map (@rev byte) space_runes) (length l) (rev l)).

(* ---------- SanitizeCSSProperty: identifierPattern ^[-a-zA-Z]+$, then strings.ToLower ---------- *)
Definition ident_byte (b : byte) : bool := m_alpha b || Byte.eqb b x2d.
Definition ident_ok (p : bytes) : bool := match p with [] => false | _ => forallb ident_byte p end.
Definition sanitize_property (p : bytes) : bytes := if ident_ok p then map lower p else css_innocuous_name.

(* ---------- sanitizeRegular: ^(?:[*/]?(?:[0-9a-zA-Z+-.!#%_ \t]|$))*$  ("+-." is the range 0x2B..0x2E) ---------- *)
Definition safe_char (b : byte) : bool :=
  m_digit b || m_alpha b || in_range 43 46 b || Byte.eqb b x21 || Byte.eqb b x23 || Byte.eqb b x25
  || Byte.eqb b x5f || Byte.eqb b x20 || Byte.eqb b x09.
Definition star_slash (b : byte) : bool := Byte.eqb b x2a || Byte.eqb b x2f.
Fixpoint regular_ok (s : bytes) : bool :=
  match s with
  | [] => true
  | c :: r => if safe_char c then regular_ok r
              else if star_slash c then match r with [] => true | d :: r' => safe_char d && regular_ok r' end
              else false
  end.
Definition sanitize_regular (v : bytes) : bytes := if regular_ok v then v else css_innocuous_value.

(* ---------- sanitizeEnum: ^[a-zA-Z-]*$ ---------- *)
Definition sanitize_enum (v : bytes) : bytes := if forallb ident_byte v then v else css_innocuous_value.

(* ---------- sanitizeFontFamily ---------- *)
(* strings.ContainsAny(inner, cutset) with cutset = double quote, backslash, <, >, LF, CR, FF *)
Definition font_bad (b : byte) : bool :=
  Byte.eqb b x22 || Byte.eqb b x5c || Byte.eqb b x3c || Byte.eqb b x3e || Byte.eqb b x0a || Byte.eqb b x0d || Byte.eqb b x0c.
(* genericFontFamilyName ^[a-zA-Z][- a-zA-Z]+$ *)
Definition font_rest_byte (b : byte) : bool := m_alpha b || Byte.eqb b x2d || Byte.eqb b x20.
Definition generic_font (f : bytes) : bool :=
  match f with
  | c :: (_ :: _) as r => m_alpha c && forallb font_rest_byte r
  | _ => false
  end.
Definition font_item_ok (item : bytes) : bool :=
  let f := trim_space item in
  match f with
  | c :: r =>
      if Byte.eqb c x22 then
        (* len(f) >= 2 && HasSuffix(f, dquote) && !ContainsAny(f[1:len(f)-1], ...) *)
        match rev r with
        | d :: m => Byte.eqb d x22 && negb (contains_any font_bad (rev m))
        | [] => false
        end
      else generic_font f
  | [] => false
  end.
Definition sanitize_font_family (s : bytes) : bytes :=
  if forallb font_item_ok (split_comma s) then s else css_innocuous_value.

(* ---------- net/url, as far as urlIsSafe depends on it ---------- *)
(* url.Parse is an oracle [parse : bytes -> option bytes] (None = error, Some sc = URL.Scheme); what is
   assumed of it is stated in proofs/CssProof.v in terms of the two functions below and is checked
   against the real net/url by the harness.
   go_scheme: strings.Cut(rawURL, "#") then getScheme then strings.ToLower - the lower-cased run of
   [a-zA-Z][a-zA-Z0-9+-.]* that is followed by ':', or "" when there is none ('#' is not a scheme byte,
   so cutting the fragment first does not change the answer). *)
Definition scheme_byte (b : byte) : bool := m_alpha b || m_digit b || Byte.eqb b x2b || Byte.eqb b x2d || Byte.eqb b x2e.
Fixpoint go_scheme_rest (s : bytes) : option bytes :=
  match s with
  | [] => None
  | c :: r => if Byte.eqb c x3a then Some []
              else if scheme_byte c then option_map (cons (lower c)) (go_scheme_rest r) else None
  end.
Definition go_scheme (s : bytes) : bytes :=
  match s with
  | c :: r => if m_alpha c then match go_scheme_rest r with Some t => lower c :: t | None => [] end else []
  | [] => []
  end.
(* stringContainsCTLByte, which url.Parse applies to the part before the first '#' only *)
Definition ctl_byte (b : byte) : bool := (bN b <? 32) || (bN b =? 127).
Fixpoint pre_hash (s : bytes) : bytes :=
  match s with [] => [] | c :: r => if Byte.eqb c x23 then [] else c :: pre_hash r end.

Section WithParse.
Variable parse : bytes -> option bytes.

(* urlIsSafe *)
Definition url_is_safe (s : bytes) : bool :=
  match parse s with
  | None => false
  | Some sc =>
      match sc with
      | [] => true                                        (* !u.IsAbs() *)
      | _ => fold_match sc (bs "http") || fold_match sc (bs "https") || fold_match sc (bs "mailto")
      end
  end.

(* ---------- sanitizeBackgroundImage ---------- *)
Definition url_forms : list (bytes * bytes) := combine css_url_prefixes css_url_suffixes.
(* the loop over validURLPrefixes: first form whose prefix and suffix both match; body = TrimSuffix(TrimPrefix(u)) *)
Fixpoint find_form (forms : list (bytes * bytes)) (u : bytes) : option bytes :=
  match forms with
  | [] => None
  | (pre, suf) :: rest =>
      if has_prefix pre u && has_suffix suf u then Some (trim_suffix suf (trim_prefix pre u))
      else find_form rest u
  end.
(* strings.ContainsAny(u, cutset) with cutset = both quotes, ( ) backslash ; { } SP TAB LF CR FF *)
Definition url_bad (b : byte) : bool :=
  Byte.eqb b x22 || Byte.eqb b x27 || Byte.eqb b x28 || Byte.eqb b x29 || Byte.eqb b x5c || Byte.eqb b x3b
  || Byte.eqb b x7b || Byte.eqb b x7d || cut_css_ws b.
Definition bg_item_ok (item : bytes) : bool :=
  match find_form url_forms (trim_css item) with
  | None => false
  | Some body => negb (contains_any url_bad body) && url_is_safe body
  end.
Definition angle (b : byte) : bool := Byte.eqb b x3c || Byte.eqb b x3e.
Definition sanitize_background_image (v : bytes) : bytes :=
  if contains_any angle v then css_innocuous_value
  else if forallb bg_item_ok (split_comma v) then v else css_innocuous_value.

(* ---------- SanitizeCSSValue / SanitizeCSS ---------- *)
Fixpoint lookup (p : bytes) (t : list (bytes * N)) : option N :=
  match t with
  | [] => None
  | (k, v) :: r => if bytes_eqb k p then Some v else lookup p r
  end.
Definition apply_kind (k : N) (v : bytes) : bytes :=
  if k =? 0 then sanitize_regular v
  else if k =? 1 then sanitize_enum v
  else if k =? 2 then sanitize_font_family v
  else if k =? 3 then sanitize_background_image v
  else v.   (* a sanitiser the model does not know: excluded by the side-condition on css_table *)
Definition sanitize_value (p v : bytes) : bytes :=
  match lookup p css_table with
  | Some k => apply_kind k v
  | None => sanitize_regular v
  end.
Definition sanitize_css (p v : bytes) : bytes * bytes :=
  let p' := sanitize_property p in
  if bytes_eqb p' css_innocuous_name then (css_innocuous_name, css_innocuous_value)
  else (p', sanitize_value p' v).

(* ---------- templ.SanitizeCSS[T ~string] (/repo/runtime.go) ---------- *)
(* safe = the value's dynamic type is templ.SafeCSSProperty (trusted by type) *)
Definition templ_sanitize_css (safe : bool) (p v : bytes) : bytes :=
  if safe then sanitize_property p ++ [x3a] ++ v ++ [x3b]
  else let (p', v') := sanitize_css p v in p' ++ [x3a] ++ v' ++ [x3b].

(* ---------- runtime.SanitizeStyleAttributeValues (/repo/runtime/styleattribute.go) ---------- *)
(* html.EscapeString *)
Fixpoint html_esc (s : bytes) : bytes :=
  match s with
  | [] => []
  | c :: r =>
      (if Byte.eqb c x26 then bs "&amp;" else if Byte.eqb c x3c then bs "&lt;" else if Byte.eqb c x3e then bs "&gt;"
       else if Byte.eqb c x22 then bs "&#34;" else if Byte.eqb c x27 then bs "&#39;" else [c]) ++ html_esc r
  end.

(* the value forms the dispatcher distinguishes.  Maps are given as key-sorted association lists
   (slices.Sorted(maps.Keys(m))); a func value is given by what calling it returns. *)
Inductive sval :=
| VNil                                        (* nil: skipped at the top level; inside a slice or as a func result it is an unsupported value *)
| VErrVal                                     (* a value of type error: at the top level the call fails (getJoinedErrorsFromValues) *)
| VEmpty                                      (* "" as string or SafeCSS, KeyValue[string,bool] / KeyValue[SafeCSS,bool] with
                                                 a false value: nothing is written *)
| VText (t : bytes)                           (* developer-written declaration text (outside this property): a non-empty
                                                 string v with t = strings.TrimSpace(safehtml.SanitizeStyleValue(v)), a non-empty
                                                 SafeCSS v with t = v, or the key of a true KeyValue[...,bool] likewise *)
| VMap (m : list (bytes * bytes))             (* map[string]string *)
| VSafeMap (m : list (bytes * bytes))         (* map[string]templ.SafeCSSProperty *)
| VKV (k v : bytes)                           (* templ.KeyValue[string,string] *)
| VFunc (r : sval)                            (* func() T, or func() (T, error) returning a nil error *)
| VFuncErr                                    (* func() (T, error) returning a non-nil error *)
| VSlice (l : list sval)                      (* []T *)
| VOther.                                     (* any other type, including funcs of another signature (their error is dropped) *)

(* one emitted piece: a sanitised declaration, a declaration with a trusted value, or other text *)
Inductive piece :=
| PDecl (n v : bytes)
| PSafeDecl (n v : bytes)
| PText (t : bytes)
| PUnsupported.

Definition unsupported : bytes := bs "zTemplUnsupportedStyleAttributeValue:Invalid;".

Fixpoint sa_value (v : sval) : option (list piece) :=
  match v with
  | VNil => Some [PUnsupported]
  | VErrVal => Some [PUnsupported]
  | VEmpty => Some []
  | VText t => Some [PText t]
  | VMap m => Some (map (fun kv => let (n, x) := sanitize_css (fst kv) (snd kv) in PDecl n x) m)
  | VSafeMap m => Some (map (fun kv => PSafeDecl (sanitize_property (fst kv)) (snd kv)) m)
  | VKV k x => let (n, y) := sanitize_css k x in Some [PDecl n y]
  | VFunc r => sa_value r
  | VFuncErr => None
  | VSlice l =>
      (fix go (l : list sval) : option (list piece) :=
         match l with
         | [] => Some []
         | x :: r => match sa_value x with
                     | None => None
                     | Some a => match go r with Some b => Some (a ++ b) | None => None end
                     end
         end) l
  | VOther => Some [PUnsupported]
  end.
Fixpoint sa_values (l : list sval) : option (list piece) :=
  match l with
  | [] => Some []
  | x :: r =>
      match (match x with VNil => Some [] | VErrVal => None | _ => sa_value x end) with
      | None => None
      | Some a => match sa_values r with Some b => Some (a ++ b) | None => None end
      end
  end.
Definition render_piece (p : piece) : bytes :=
  match p with
  | PDecl n v => html_esc n ++ [x3a] ++ html_esc v ++ [x3b]
  | PSafeDecl n v => html_esc n ++ [x3a] ++ html_esc v ++ [x3b]
  | PText t => html_esc t ++ (if has_suffix [x3b] t then [] else [x3b])      (* processString / processSafeCSS *)
  | PUnsupported => unsupported
  end.
(* None = an error is returned (and no text) *)
Definition style_attr (l : list sval) : option bytes := option_map (fun ps => concat (map render_piece ps)) (sa_values l).

End WithParse.
