(* Model of parser/v2/sourcemap.go: SourceMap.Add and the two lookup tables. *)
From Coq.Strings Require Import Byte String.
From Coq Require Import List Arith NArith Bool Lia.
Import ListNotations.
From V Require Import lib.Bytes.
From V Require Import lib.Sexp model.Ast model.Gen.
Local Open Scope nat_scope.

(* ================= source map ================= *)
Definition rune_width (b : byte) : nat :=
  let n := Byte.to_nat b in if n <? 128 then 1 else if n <? 224 then 2 else if n <? 240 then 3 else 4.
Notation key := (N * N)%type.
Notation smap := (list (key * pos)).
Fixpoint put (k : key) (v : pos) (m : smap) : smap :=
  match m with
  | [] => [(k, v)]
  | (k', v') :: r => if (fst k =? fst k')%N && (snd k =? snd k')%N then (k, v) :: r
                     else if (fst k <? fst k')%N || ((fst k =? fst k')%N && (snd k <? snd k')%N) then (k, v) :: m
                     else (k', v') :: put k v r
  end.
(* one line of Add: entries at every rune start and one past the end *)
Fixpoint add_line (fuel : nat) (line : bytes) (sp tp : pos) (m : smap * smap) : smap * smap * pos * pos :=
  let '(si, sl, sc) := sp in let '(ti, tl, tc) := tp in
  let m1 := (put (sl, sc) tp (fst m), put (tl, tc) sp (snd m)) in
  match fuel with O => (m1, sp, tp) | S f =>
  match line with
  | [] => (m1, sp, tp)
  | b :: _ => let k := rune_width b in let kn := N.of_nat k in
              add_line f (skipn k line) (si + kn, sl, sc + kn)%N (ti + kn, tl, tc + kn)%N m1
  end end.
Fixpoint add_lines (lines : list bytes) (first : bool) (sp tp : pos) (m : smap * smap) : smap * smap :=
  match lines with
  | [] => m
  | l :: r =>
      let '(si, sl, sc) := sp in let '(ti, tl, tc) := tp in
      let sp0 := if first then sp else (si, sl, 0%N) in
      let tp0 := if first then tp else (ti, tl, 0%N) in
      let '(m1, (si', sl', _), (ti', tl', _)) := add_line (S (length l)) l sp0 tp0 m in
      add_lines r false (N.succ si', N.succ sl', 0%N) (N.succ ti', N.succ tl', 0%N) m1
  end.
Definition sm_add (e : expr) (tp : pos) (m : smap * smap) : smap * smap :=
  add_lines (split_on x0a (e_val e) []) true (e_fi e, e_fl e, e_fc e) tp m.
Definition sourcemap (adds_in_order : list (expr * pos)) : smap * smap :=
  fold_left (fun m '(e, p) => sm_add e p m) adds_in_order ([], []).
Definition show_entry (tag : string) (kv : key * pos) : bytes :=
  let '((l, c), (i, l2, c2)) := kv in
  bs tag ++ [x20] ++ dec l ++ [x20] ++ dec c ++ [x20] ++ dec i ++ [x20] ++ dec l2 ++ [x20] ++ dec c2 ++ nlb.
Definition generate_sm (fn : bytes) (f : file) : bytes :=
  let g := {| w := rw0; vid := 0; cvar := []; fname := fn; adds := [] |} in
  let g := gen_all f g in
  let '(s2t, t2s) := sourcemap (rev (adds g)) in
  flat_map (show_entry "S") s2t ++ flat_map (show_entry "T") t2s.


(* one pass: code, literals, dumped source map *)
Definition generate_all (fn : bytes) (f : file) : bytes * list bytes * bytes :=
  let g := {| w := rw0; vid := 0; cvar := []; fname := fn; adds := [] |} in
  let g := gen_all f g in
  let '(s2t, t2s) := sourcemap (rev (adds g)) in
  (concat (rev (out (w g))), rev (lits (w g)), flat_map (show_entry "S") s2t ++ flat_map (show_entry "T") t2s).
