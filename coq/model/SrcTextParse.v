(* model/SrcTextParse.v - what parser/v2 + the generator do with the content T of `<p>T</p>` (fragment of spec/SrcText.v).
   Mirrors: templateNodeParser tries its parsers in order at the start of the content; on the fragment none of docType ..
   stringExpression matches; whitespaceExpression (parse.OptionalWhitespace = zero or more of parse.RuneInRanges(unicode.White_Space))
   takes the leading run - a-h/parse's runeWhereParser looks at ONE BYTE and asks the predicate about rune(byte), so the run is
   made of the bytes 09..0D, 20, 85 (U+0085) and A0 (U+00A0) - and becomes a Whitespace node, which the generator leaves out
   (generator.go: writeElement renders stripWhitespace(children)); textParser then reads up to `<` (parse.StringUntil(tagTemplOrNewLine)) into Text.Value,
   which the generator writes as it stands (writeText: escapeQuotes = strconv.Quote, read back by the Go compiler).
   textParser refuses a Value that is white space only (isWhitespace ranges over the DECODED runes): excluded by the fragment
   (a visible ASCII character).  Definitions only. *)
From Coq.Strings Require Import Byte String.
From Coq Require Import List NArith Bool.
Import ListNotations.
From V Require Import lib.Bytes spec.SrcText.
Open Scope N_scope.

(* unicode.IsOneOf([White_Space], rune(b)) for a single byte b *)
Definition code_ws (b : byte) : bool :=
  ascii_ws b || Byte.eqb b x85 || Byte.eqb b xa0.

(* the fragment, as the parser sees it: its own leading run, then a starter *)
Definition in_frag (T : bytes) : bool :=
  forallb (fun b => negb (special b)) T &&
  (match snd (span code_ws T) with [] => false | b :: _ => starter b && negb (code_ws b) end) &&
  existsb visible_ascii T.

Inductive tnode := NWs (v : bytes) | NText (v : bytes).

Definition parse_content (T : bytes) : list tnode :=
  let '(w, r) := span code_ws T in
  (match w with [] => [] | _ => [NWs w] end) ++ (match r with [] => [] | _ => [NText r] end).

Definition render_node (n : tnode) : bytes := match n with NWs _ => [] | NText v => v end.

Definition text_code (T : bytes) : bytes := concat (map render_node (parse_content T)).
Definition doc_code (T : bytes) : bytes := p_open ++ text_code T ++ p_close.

(* the guard under which the two readings of "white space" cannot differ on T: the first byte that is not ASCII white space is
   neither 85 nor A0 *)
Definition no_byte_space_lead (T : bytes) : bool :=
  match snd (span ascii_ws T) with [] => true | b :: _ => negb (Byte.eqb b x85 || Byte.eqb b xa0) end.

(* ---- several lines (spec/SrcText.v: doc_spec_lines).  whitespaceExpression takes the line break after `<p>` and the leading run
   of L1; textParser reads a line up to the line break (tagTemplOrNewLine) and then takes parse.Whitespace - the line break and
   the leading run of the next line, bytes 85 / A0 included - as the text's trailing space: NewTrailingSpace sees the line break
   first and answers SpaceVertical, which the generator writes as one space when another node follows (writeWhitespaceTrailer)
   and not at all behind the last child of the element. *)
Definition lines_code (Ls : list bytes) : bytes := join_sp (map text_code Ls).
Definition doc_code_lines (Ls : list bytes) : bytes := p_open ++ lines_code Ls ++ p_close.

(* any static context (spec/SrcText.v: ctx_spec_lines): the children of an element and the body of a template are both parsed by
   templateNodeParser and written by writeNodes after white-space nodes at the edges were removed (writeElement:
   stripWhitespace; writeTemplate: stripLeadingAndTrailingWhitespace), so the lines are rendered alike in both. *)
Definition ctx_code_lines (pre post : bytes) (Ls : list bytes) : bytes := pre ++ lines_code Ls ++ post.
