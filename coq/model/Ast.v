(* Template AST: mirror of parser/v2/types.go, and its decoder from the wire format (harness/internal/astser). *)
From Coq.Strings Require Import Byte String.
From Coq Require Import List Arith NArith Bool Lia.
Import ListNotations.
From V Require Import lib.Bytes.
From V Require Import lib.Sexp.
Local Open Scope nat_scope.

(* ================= AST ================= *)
Inductive trailing := SpNone | SpHoriz | SpVert.
(* positions are N: byte index, line, column (column counts bytes) *)
Record expr := { e_val : bytes; e_fi : N; e_fl : N; e_fc : N; e_ti : N; e_tl : N; e_tc : N }.
Inductive attr :=
| ABoolConst (n : bytes) | AConst (n v : bytes) | ABoolExpr (n : bytes) (e : expr) | AExpr (n : bytes) (e : expr)
| ASpread (e : expr) | ACond (e : expr) (th el : list attr).
Inductive spart := SJs (v : bytes) | SGo (e : expr) (trail : bytes) (inside : bool).
Inductive node :=
| NWs (v : bytes) | NDoc (v : bytes) | NText (v : bytes) (t : trailing)
| NElem (name : bytes) (attrs : list attr) (children : list node) (t : trailing)
| NRaw (name : bytes) (attrs : list attr) (contents : bytes)
| NScript (attrs : list attr) (parts : list spart)
| NGoComment | NHtmlComment (c : bytes)
| NCallT (e : expr) | NCall (e : expr) (children : list node) | NChildren
| NIf (e : expr) (th : list node) (elifs : list (expr * list node)) (el : list node)
| NSwitch (e : expr) (cases : list (expr * list node))
| NFor (e : expr) (body : list node)
| NGoCode (e : expr)
| NStr (e : expr) (t : trailing).
Inductive cssprop := CConst (n v : bytes) | CExpr (n : bytes) (e : expr).
Inductive fnode :=
| FGo (e : expr) | FTempl (e : expr) (children : list node)
| FCss (e : expr) (name : bytes) (props : list cssprop)
| FScript (name params : expr) (value : bytes) (fn : bytes).   (* fn = functionName(name, body): sha256 oracle supplied by the harness *)
Record file := { f_header : list expr; f_pkg : expr; f_nodes : list fnode }.

(* ================= decoding ================= *)
Fixpoint N_of_dec (acc : N) (s : bytes) : N :=
  match s with [] => acc | b :: r => match sdigit b with Some d => N_of_dec (acc * 10 + N.of_nat d)%N r | None => acc end end.
Definition dn (x : sexp) : N := match x with Atom b => N_of_dec 0%N b | _ => 0%N end.
Definition db (x : sexp) : bytes := match x with Atom b => b | _ => [] end.
Definition e0 := {| e_val := []; e_fi := 0%N; e_fl := 0%N; e_fc := 0%N; e_ti := 0%N; e_tl := 0%N; e_tc := 0%N |}.
Definition dexpr (x : sexp) : expr :=
  match x with
  | SList [v; a; b; c; d; e; f] => {| e_val := db v; e_fi := dn a; e_fl := dn b; e_fc := dn c; e_ti := dn d; e_tl := dn e; e_tc := dn f |}
  | _ => e0 end.
Definition dtrail (x : sexp) : trailing := match db x with [x20] => SpHoriz | [x0a] => SpVert | _ => SpNone end.
Definition beq (a b : bytes) : bool := if list_eq_dec Byte.byte_eq_dec a b then true else false.
Definition is (t : bytes) (s : string) := beq t (bs s).
Definition opt_list {A} (l : list (option A)) : option (list A) :=
  fold_right (fun x acc => match x, acc with Some a, Some r => Some (a :: r) | _, _ => None end) (Some []) l.
Fixpoint dattr (x : sexp) : option attr :=
  let dl := fix dl (l : list sexp) : option (list attr) :=
    match l with [] => Some [] | y :: r => match dattr y, dl r with Some a, Some b => Some (a :: b) | _, _ => None end end in
  match x with
  | SList [Atom t; n] => if is t "boolconst" then Some (ABoolConst (db n)) else if is t "spread" then Some (ASpread (dexpr n)) else None
  | SList [Atom t; n; v] => if is t "const" then Some (AConst (db n) (db v))
                            else if is t "expr" then Some (AExpr (db n) (dexpr v))
                            else if is t "boolexpr" then Some (ABoolExpr (db n) (dexpr v)) else None
  | SList [Atom t; e; SList a; SList b] => if is t "cond" then match dl a, dl b with Some a', Some b' => Some (ACond (dexpr e) a' b') | _, _ => None end else None
  | _ => None
  end.
Definition dattrs (l : list sexp) := opt_list (map dattr l).
Definition dspart (x : sexp) : option spart :=
  match x with
  | SList [Atom t; v] => if is t "js" then Some (SJs (db v)) else None
  | SList [Atom t; e; tr; i] => if is t "go" then Some (SGo (dexpr e) (db tr) (beq (db i) (bs "1"))) else None
  | _ => None end.
Fixpoint dnode (x : sexp) : option node :=
  let dl := fix dl (l : list sexp) : option (list node) :=
    match l with [] => Some [] | y :: r => match dnode y, dl r with Some a, Some b => Some (a :: b) | _, _ => None end end in
  let dcases := fix dc (l : list sexp) : option (list (expr * list node)) :=
    match l with
    | [] => Some []
    | SList [e; SList b] :: r => match dl b, dc r with Some b', Some r' => Some ((dexpr e, b') :: r') | _, _ => None end
    | _ => None end in
  match x with
  | SList [Atom t] => if is t "children" then Some NChildren else if is t "gocomment" then Some NGoComment else None
  | SList [Atom t; a] => if is t "ws" then Some (NWs (db a)) else if is t "doctype" then Some (NDoc (db a))
                         else if is t "htmlcomment" then Some (NHtmlComment (db a)) else if is t "callt" then Some (NCallT (dexpr a))
                         else if is t "gocode" then Some (NGoCode (dexpr a)) else None
  | SList [Atom t; a; b] =>
      if is t "text" then Some (NText (db a) (dtrail b))
      else if is t "str" then Some (NStr (dexpr a) (dtrail b))
      else if is t "for" then match b with SList l => option_map (NFor (dexpr a)) (dl l) | _ => None end
      else if is t "call" then match b with SList l => option_map (NCall (dexpr a)) (dl l) | _ => None end
      else if is t "switch" then match b with SList l => option_map (NSwitch (dexpr a)) (dcases l) | _ => None end
      else if is t "script" then match a, b with SList ats, SList ps => match dattrs ats, opt_list (map dspart ps) with Some a', Some p' => Some (NScript a' p') | _, _ => None end | _, _ => None end
      else None
  | SList [Atom t; n; SList ats; c] =>
      if is t "raw" then option_map (fun a' => NRaw (db n) a' (db c)) (dattrs ats) else None
  | SList [Atom t; a; SList b; SList c; SList d] =>
      if is t "if" then match dl b, dcases c, dl d with Some b', Some c', Some d' => Some (NIf (dexpr a) b' c' d') | _, _, _ => None end
      else if is t "elem" then None else None
  | SList [Atom t; n; SList ats; SList ch; tr; _] =>
      if is t "elem" then match dattrs ats, dl ch with Some a', Some c' => Some (NElem (db n) a' c' (dtrail tr)) | _, _ => None end else None
  | _ => None
  end.
Definition dcss (x : sexp) : option cssprop :=
  match x with
  | SList [Atom t; n; v] => if is t "cconst" then Some (CConst (db n) (db v)) else if is t "cexpr" then Some (CExpr (db n) (dexpr v)) else None
  | _ => None end.
Definition dfnode (x : sexp) : option fnode :=
  match x with
  | SList [Atom t; e] => if is t "go" then Some (FGo (dexpr e)) else None
  | SList [Atom t; e; SList ch] => if is t "templ" then option_map (FTempl (dexpr e)) (opt_list (map dnode ch)) else None
  | SList [Atom t; e; n; SList ps] => if is t "css" then option_map (FCss (dexpr e) (db n)) (opt_list (map dcss ps)) else None
  | SList [Atom t; n; p; v; fn] => if is t "scriptt" then Some (FScript (dexpr n) (dexpr p) (db v) (db fn)) else None
  | _ => None end.
Definition dfile (x : sexp) : option file :=
  match x with
  | SList [SList hs; p; SList ns] => option_map (fun l => {| f_header := map dexpr hs; f_pkg := dexpr p; f_nodes := l |}) (opt_list (map dfnode ns))
  | _ => None end.

