(* Model of cmd/templ/generatecmd/sse/server.go (Handler.Send, Handler.ServeHTTP) as a small-step
   interleaving transition system.  Definitions only; proofs are in proofs/SseProof.v.

   Threads of the Go program and what represents them here
     - one goroutine per ServeHTTP call ("client" c)           : cl s c  (program counter + flags)
     - one goroutine per Send call ("sender" of event e)       : e in waiting / holder / returned
     - one goroutine per (client, event) started by Send       : (c, e) in pending
   Shared objects
     - Handler.m           : [holder s]  (only a Send call holds it across several steps; the two critical
                             sections of ServeHTTP are straight-line non-blocking code - make, map insert /
                             map delete, close - and are single atomic steps enabled when the mutex is free)
     - Handler.requests    : [registered s] (keys)
     - client.events       : unbuffered channel: rendezvous [Deliver c e]; [ev_closed]
     - client.done         : [done_closed]
   A schedule is a list of actions; [step] returns None when the action is not enabled in the state.
   Events are identified by the sequence number of the Send call that carries them (the payload is
   copied unchanged by the channel operation). *)
From Coq Require Import List Arith Bool.
Import ListNotations.

(* program counter of a ServeHTTP goroutine *)
Inductive pc :=
| PNone      (* no such call yet *)
| PLoop      (* registered, blocked in  select { timer.C, events, ctx.Done } *)
| PBusy      (* inside fmt.Fprintf(w, ...) / Flush : a slow reader keeps the goroutine here *)
| PExiting   (* left the loop (ctx done seen, or write error): about to run the deferred function *)
| PGone.     (* deferred function has run: unregistered, channel closed *)

Definition pc_eqb (a b : pc) : bool :=
  match a, b with
  | PNone, PNone | PLoop, PLoop | PBusy, PBusy | PExiting, PExiting | PGone, PGone => true
  | _, _ => false
  end.

Record client := {
  cpc : pc;
  cancelled : bool;       (* r.Context() is done *)
  ev_closed : bool;       (* client.events has been closed *)
  done_closed : bool;     (* client.done has been closed *)
  got : list nat          (* events received from client.events, oldest first *)
}.

Definition no_client : client :=
  {| cpc := PNone; cancelled := false; ev_closed := false; done_closed := false; got := [] |}.

Record state := {
  cl : nat -> client;                 (* ServeHTTP goroutines by id (the value of Handler.counter) *)
  registered : list nat;              (* keys of Handler.requests *)
  pending : list (nat * nat);         (* delivery goroutines blocked in their select: (client, event) *)
  waiting : list nat;                 (* Send calls blocked in s.m.Lock() *)
  holder : option (nat * list nat);   (* the Send call inside the critical section: its event and the
                                         map entries the range loop has still to visit *)
  returned : list nat;                (* Send calls that have returned *)
  log : list (nat * list nat);        (* ghost: for each Send, the registry it iterated (its snapshot) *)
  panicked : bool;                    (* a goroutine panicked: the process is dead *)
  next_id : nat;
  next_ev : nat
}.

Definition init : state :=
  {| cl := fun _ => no_client; registered := []; pending := []; waiting := []; holder := None;
     returned := []; log := []; panicked := false; next_id := 1; next_ev := 1 |}.

Inductive action :=
| Subscribe                (* ServeHTTP: counter++, lock, make channels, requests[id] = client, unlock *)
| SendCall                 (* a call of Send begins (blocks in Lock) *)
| SendLock (e : nat)       (* Send e acquires the mutex; the range loop will visit the current registry *)
| SendSpawn                (* one iteration of the range loop: go func(f client){ select ... }(f) *)
| SendUnlock               (* loop finished: deferred Unlock, Send returns *)
| Deliver (c e : nat)      (* delivery goroutine's  f.events <- ev  meets client c's  <-events *)
| Drop (c e : nat)         (* delivery goroutine takes  <-f.done  and ends *)
| Tick (c : nat)           (* client c's timer fires: it writes a ping *)
| WriteOK (c : nat)        (* Fprintf + Flush return without error: back to the select *)
| WriteErr (c : nat)       (* Fprintf returns an error: http.Error; return *)
| Cancel (c : nat)         (* the request context of client c is cancelled (browser went away) *)
| SeeDone (c : nat)        (* client c's select takes  <-r.Context().Done() : break loop *)
| Exit (c : nat).          (* deferred function: lock, delete(requests,id), close(...), unlock *)

Definition pair_eqb (p q : nat * nat) : bool := (fst p =? fst q) && (snd p =? snd q).
Fixpoint remove_one (p : nat * nat) (l : list (nat * nat)) : list (nat * nat) :=
  match l with [] => [] | q :: r => if pair_eqb p q then r else q :: remove_one p r end.
Definition mem_pair (p : nat * nat) (l : list (nat * nat)) : bool := existsb (pair_eqb p) l.
Definition mem_nat (n : nat) (l : list nat) : bool := existsb (Nat.eqb n) l.
Definition remove_nat (n : nat) (l : list nat) : list nat := filter (fun k => negb (k =? n)) l.

Definition upd (f : nat -> client) (c : nat) (v : client) : nat -> client :=
  fun k => if k =? c then v else f k.

Definition set_pc (x : client) (p : pc) : client :=
  {| cpc := p; cancelled := cancelled x; ev_closed := ev_closed x; done_closed := done_closed x; got := got x |}.

(* state update helpers: every field not mentioned is unchanged *)
Definition with_cl (s : state) (f : nat -> client) : state :=
  {| cl := f; registered := registered s; pending := pending s; waiting := waiting s; holder := holder s;
     returned := returned s; log := log s; panicked := panicked s; next_id := next_id s; next_ev := next_ev s |}.
Definition with_pending (s : state) (p : list (nat * nat)) : state :=
  {| cl := cl s; registered := registered s; pending := p; waiting := waiting s; holder := holder s;
     returned := returned s; log := log s; panicked := panicked s; next_id := next_id s; next_ev := next_ev s |}.
Definition with_panic (s : state) : state :=
  {| cl := cl s; registered := registered s; pending := pending s; waiting := waiting s; holder := holder s;
     returned := returned s; log := log s; panicked := true; next_id := next_id s; next_ev := next_ev s |}.

Section Sem.
(* old = true : the code before commit a1fd190 (no done channel: the deferred function closes
   client.events and a delivery goroutine can only send).  old = false : the code as it is. *)
Variable old : bool.

Definition step (s : state) (a : action) : option state :=
  if panicked s then None else
  match a with
  | Subscribe =>
      match holder s with Some _ => None | None =>
        let c := next_id s in
        Some {| cl := upd (cl s) c {| cpc := PLoop; cancelled := false; ev_closed := false; done_closed := false; got := [] |};
                registered := c :: registered s; pending := pending s; waiting := waiting s; holder := None;
                returned := returned s; log := log s; panicked := false; next_id := S c; next_ev := next_ev s |}
      end
  | SendCall =>
      let e := next_ev s in
      Some {| cl := cl s; registered := registered s; pending := pending s; waiting := waiting s ++ [e];
              holder := holder s; returned := returned s; log := log s; panicked := false;
              next_id := next_id s; next_ev := S e |}
  | SendLock e =>
      match holder s with Some _ => None | None =>
        if mem_nat e (waiting s) then
          Some {| cl := cl s; registered := registered s; pending := pending s;
                  waiting := remove_nat e (waiting s); holder := Some (e, registered s);
                  returned := returned s; log := log s ++ [(e, registered s)]; panicked := false;
                  next_id := next_id s; next_ev := next_ev s |}
        else None
      end
  | SendSpawn =>
      match holder s with
      | Some (e, c :: todo) =>
          Some {| cl := cl s; registered := registered s; pending := pending s ++ [(c, e)];
                  waiting := waiting s; holder := Some (e, todo); returned := returned s; log := log s;
                  panicked := false; next_id := next_id s; next_ev := next_ev s |}
      | _ => None
      end
  | SendUnlock =>
      match holder s with
      | Some (e, []) =>
          Some {| cl := cl s; registered := registered s; pending := pending s; waiting := waiting s;
                  holder := None; returned := returned s ++ [e]; log := log s; panicked := false;
                  next_id := next_id s; next_ev := next_ev s |}
      | _ => None
      end
  | Deliver c e =>
      if mem_pair (c, e) (pending s) then
        let x := cl s c in
        if ev_closed x then
          (* send on closed channel *)
          Some (with_panic (with_pending s (remove_one (c, e) (pending s))))
        else match cpc x with
        | PLoop =>
            Some (with_pending
                    (with_cl s (upd (cl s) c {| cpc := PBusy; cancelled := cancelled x; ev_closed := ev_closed x;
                                                done_closed := done_closed x; got := got x ++ [e] |}))
                    (remove_one (c, e) (pending s)))
        | _ => None      (* nobody is receiving: the goroutine stays blocked *)
        end
      else None
  | Drop c e =>
      if old then None      (* the old delivery goroutine had no done case *)
      else if mem_pair (c, e) (pending s) && done_closed (cl s c) then
        Some (with_pending s (remove_one (c, e) (pending s)))
      else None
  | Tick c =>
      match cpc (cl s c) with
      | PLoop => Some (with_cl s (upd (cl s) c (set_pc (cl s c) PBusy)))
      | _ => None
      end
  | WriteOK c =>
      match cpc (cl s c) with
      | PBusy => Some (with_cl s (upd (cl s) c (set_pc (cl s c) PLoop)))
      | _ => None
      end
  | WriteErr c =>
      match cpc (cl s c) with
      | PBusy => Some (with_cl s (upd (cl s) c (set_pc (cl s c) PExiting)))
      | _ => None
      end
  | Cancel c =>
      let x := cl s c in
      match cpc x with
      | PNone => None
      | _ => Some (with_cl s (upd (cl s) c {| cpc := cpc x; cancelled := true; ev_closed := ev_closed x;
                                              done_closed := done_closed x; got := got x |}))
      end
  | SeeDone c =>
      match cpc (cl s c) with
      | PLoop => if cancelled (cl s c) then Some (with_cl s (upd (cl s) c (set_pc (cl s c) PExiting))) else None
      | _ => None
      end
  | Exit c =>
      match holder s with Some _ => None | None =>
        let x := cl s c in
        match cpc x with
        | PExiting =>
            if (if old then ev_closed x else done_closed x) then
              (* close of closed channel *)
              Some (with_panic s)
            else
              Some {| cl := upd (cl s) c {| cpc := PGone; cancelled := cancelled x;
                                           ev_closed := if old then true else ev_closed x;
                                           done_closed := if old then done_closed x else true;
                                           got := got x |};
                      registered := remove_nat c (registered s); pending := pending s; waiting := waiting s;
                      holder := None; returned := returned s; log := log s; panicked := false;
                      next_id := next_id s; next_ev := next_ev s |}
        | _ => None
        end
      end
  end.

Fixpoint exec (s : state) (tr : list action) : option state :=
  match tr with
  | [] => Some s
  | a :: r => match step s a with Some s' => exec s' r | None => None end
  end.

Definition reachable (s : state) : Prop := exists tr, exec init tr = Some s.
End Sem.

(* ---- vocabulary of the theorems ---- *)
Definition gone (s : state) (c : nat) : Prop := cpc (cl s c) = PGone.
Definition connected (s : state) (c : nat) : Prop :=
  cpc (cl s c) = PLoop \/ cpc (cl s c) = PBusy \/ cpc (cl s c) = PExiting.
Definition delivered (s : state) (c e : nat) : Prop := In e (got (cl s c)).
(* steps the critical section of the Send call holding the mutex has still to take *)
Definition hold_work (s : state) : nat :=
  match holder s with None => 0 | Some (_, todo) => S (length todo) end.
(* the next step of the Send call that holds the mutex *)
Definition holder_action (s : state) : option action :=
  match holder s with
  | None => None
  | Some (_, []) => Some SendUnlock
  | Some (_, _ :: _) => Some SendSpawn
  end.
Definition is_send_action (a : action) : bool :=
  match a with SendCall | SendLock _ | SendSpawn | SendUnlock => true | _ => false end.
(* the client goroutine an action belongs to, if any *)
Definition client_of (a : action) : option nat :=
  match a with
  | Tick c | WriteOK c | WriteErr c | Cancel c | SeeDone c | Exit c => Some c
  | Deliver c _ => Some c
  | _ => None
  end.

(* the client whose state an action reads or changes, if any *)
Definition touches (a : action) : option nat :=
  match a with
  | Deliver c _ | Drop c _ | Tick c | WriteOK c | WriteErr c | Cancel c | SeeDone c | Exit c => Some c
  | _ => None
  end.

(* ---- stalled clients and the handler at rest ----
   A client is STALLED when its goroutine sits inside the response write (PBusy) and the write does
   not return: the browser neither reads nor disconnects.  It is still connected and registered -
   unlike a client that left (PGone), whose done channel lets its deliveries end.
   Actions are split by who takes them:
     environment : Subscribe (a new request), SendCall (the watcher calls Send), Tick (the timer),
                   WriteOK / WriteErr (the network lets the write return), Cancel (the browser goes away)
     handler     : everything the goroutines of sse.Handler do on their own. *)
Definition stalledb (s : state) (c : nat) : bool := pc_eqb (cpc (cl s c)) PBusy.
Definition handler_step (a : action) : bool :=
  match a with
  | SendLock _ | SendSpawn | SendUnlock | Deliver _ _ | Drop _ _ | SeeDone _ | Exit _ => true
  | Subscribe | SendCall | Tick _ | WriteOK _ | WriteErr _ | Cancel _ => false
  end.
(* deliveries still pending for a client that is NOT stalled in a write: nothing but the handler
   itself stands between them and their end (receive, or the client's leaving) *)
Definition held_up (s : state) : list (nat * nat) :=
  filter (fun q => negb (stalledb s (fst q))) (pending s).
(* a client goroutine with a step of its own to take: leave the loop after a cancel, run the deferred function *)
Definition client_restless (x : client) : bool :=
  match cpc x with PExiting => true | PLoop => cancelled x | _ => false end.
(* the handler is at rest: no Send call in progress, every pending delivery waits for a stalled
   client, no client goroutine has a step of its own left.  By [stable_iff_handler_at_rest] this is
   exactly "no handler step is enabled". *)
Definition stableb (s : state) : bool :=
  match holder s, waiting s, held_up s with
  | None, [], [] => negb (existsb (fun c => client_restless (cl s c)) (seq 0 (next_id s)))
  | _, _, _ => false
  end.

(* an upper bound on the number of steps the handler's goroutines can take without the environment
   moving: one per pending delivery, two per iteration of the Send loop in progress, 2|registry|+4 per
   Send call waiting for the mutex, two per client in its select (leave the loop, deferred function),
   one per client about to run its deferred function *)
Definition count_pc (p : pc) (f : nat -> client) (n : nat) : nat :=
  length (filter (fun k => pc_eqb (cpc (f k)) p) (seq 0 n)).
Definition rest_bound (s : state) : nat :=
  length (pending s) + 2 * hold_work s + length (waiting s) * (2 * length (registered s) + 4)
  + 2 * count_pc PLoop (cl s) (next_id s) + count_pc PExiting (cl s) (next_id s).

(* ---- observation monitor (acceptor) used by the correspondence harness ----
   The harness records what it can see of the real handler, in real-time order:
     OSub c            ServeHTTP called for the c-th client (the harness subscribes one client at a time)
     OWrite c e        client c's goroutine called ResponseWriter.Write with event e (0 = ping)
     ORelease c ok     the (harness-gated) Write returned, without / with an error
     OCancel c         the harness cancelled client c's request context
     OExited c         ServeHTTP returned for client c
     OSend e           the harness called Send for event e (and it returned: OSendEnd)
     ORegCount n       len(Handler.requests) read through the verif hook at a quiescent point
     OSettled          the harness has given the handler time to act and saw it come to rest, while
                       every writer it keeps stalled stayed stalled (no model action; [audit] judges the
                       state reached here with [stableb])
   [expand] turns one observation into the model actions that must have happened since the
   previous one; [monitor] executes them, so an accepted history is a model execution. *)
Inductive obs :=
| OSub (c : nat) | OWrite (c e : nat) | ORelease (c : nat) (ok : bool) | OCancel (c : nat)
| OExited (c : nat) | OSend (e : nat) | OSendEnd (e : nat) | ORegCount (n : nat) | OSettled.

Definition pending_of (c : nat) (p : list (nat * nat)) : list nat :=
  map snd (filter (fun q => fst q =? c) p).

Definition expand (s : state) (o : obs) : option (list action) :=
  match o with
  | OSub c => if next_id s =? c then Some [Subscribe] else None
  | OWrite c 0 => Some [Tick c]
  | OWrite c e => Some [Deliver c e]
  | ORelease c true => Some [WriteOK c]
  | ORelease c false => Some [WriteErr c]
  | OCancel c => Some [Cancel c]
  | OExited c =>
      Some ((match cpc (cl s c) with PLoop => [SeeDone c] | _ => [] end)
            ++ [Exit c] ++ map (Drop c) (pending_of c (pending s)))
  | OSend e =>
      if next_ev s =? e then
        Some ([SendCall; SendLock e] ++ map (fun _ => SendSpawn) (registered s) ++ [SendUnlock])
      else None
  | OSendEnd e => if mem_nat e (returned s) then Some [] else None
  | ORegCount n => if length (registered s) =? n then Some [] else None
  | OSettled => Some []
  end.

(* result: the state reached, or the index of the first observation the model cannot follow *)
Fixpoint monitor (s : state) (i : nat) (h : list obs) : state + nat :=
  match h with
  | [] => inl s
  | o :: r =>
      match expand s o with
      | None => inr i
      | Some acts =>
          match exec false s acts with
          | None => inr i
          | Some s' => monitor s' (S i) r
          end
      end
  end.

(* the states the accepted history passes through at its OSettled observations, with their index:
   the harness evaluates [stableb] / [held_up] on each of them *)
Fixpoint audit (s : state) (i : nat) (h : list obs) : list (nat * state) :=
  match h with
  | [] => []
  | o :: r =>
      match expand s o with
      | None => []
      | Some acts =>
          match exec false s acts with
          | None => []
          | Some s' =>
              match o with OSettled => [(i, s')] | _ => [] end ++ audit s' (S i) r
          end
      end
  end.

(* quiescence: nothing in flight.  By [quiescent_all_delivered] every event then reached every
   client of its snapshot that has not left. *)
Definition quiescentb (s : state) : bool :=
  match pending s, holder s, waiting s with [], None, [] => true | _, _, _ => false end.
