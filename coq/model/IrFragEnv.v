(* The oracles of model/IrFrag.v instantiated from the environments of spec/Denote.v (the probe environment wire): what the
   harness runs (extract/X02.v: frag_exec, frag_denote) and what proofs/IrFragDenoteProof.v relates to Denote.render_node. *)
From Coq.Strings Require Import Byte String.
From Coq Require Import List Arith NArith Bool.
Import ListNotations.
From V Require Import lib.Bytes lib.Sexp model.Ast model.Url model.Gen spec.Denote spec.ScriptOnce model.IrFrag model.IrFragPrint.
Local Open Scope nat_scope.

Definition fr_str (ev : Denote.env) (e : expr) : option bytes :=
  match Denote.lookup ev (e_val e) with Some (VStr s) => Some s | Some VErr => None | _ => Some (bs "?unknown-expression?") end.
Definition fr_bool (ev : Denote.env) (e : expr) : bool :=
  match Denote.lookup ev (e_val e) with Some (VBool b) => b | _ => false end.
Definition fr_for (ev : Denote.env) (e : expr) : list Denote.env :=
  match Denote.lookup ev (e_val e) with Some (VIter its) => map (fun b => b ++ ev) its | _ => [] end.
Definition fr_sw (ev : Denote.env) (e : expr) : nat :=
  match Denote.lookup ev (Denote.pre "switch:" (e_val e) ++ bs "@" ++ dec (e_fi e)) with Some (VIdx i) => i | _ => 5000 end.
Definition fr_class (ev : Denote.env) (e : expr) : bytes :=
  match Denote.lookup ev (Denote.pre "class:" (e_val e)) with Some (VStr s) => s | _ => bs "?unknown-class?" end.
Definition fr_look (ev : Denote.env) (p : string) (e : expr) : option value := Denote.lookup ev (Denote.pre p (e_val e)).
Definition fr_url (ev : Denote.env) (e : expr) : bytes :=
  match Denote.lookup ev (e_val e) with Some (VStr s) => s | _ => bs "?unknown-url?" end.
Definition fr_style (ev : Denote.env) (e : expr) : option bytes :=
  match fr_look ev "style:" e with Some (VStr s) => Some s | Some VErr => None | _ => Some (bs "?unknown-style?") end.
Definition fr_script_call (ev : Denote.env) (e : expr) : bytes :=
  match fr_look ev "script-call:" e with Some (VStr s) => s | _ => bs "?unknown-script?" end.
Definition fr_spread (ev : Denote.env) (e : expr) : bytes :=
  match fr_look ev "spread:" e with Some (VStr s) => s | _ => bs "?unknown-spread?" end.
Definition fr_js (ev : Denote.env) (inside : bool) (e : expr) : option bytes :=
  match fr_look ev (if inside then "js-in:" else "js-out:") e with Some (VStr s) => Some s | Some VErr => None | _ => Some (bs "?unknown-js?") end.
Definition fr_comp (e : expr) : ckind :=
  match Denote.comp_of (e_val e) with
  | CTempl n => KTempl n
  | CWrap o c => KWrap o c
  | CIgnore => KOpaque (bs "(i)")
  | CRaw s => KOpaque s
  | CNop => KNop
  | _ => KUnknown end.
Definition fr_known (names : list bytes) (x : bytes) : bool :=
  match Denote.comp_of x with
  | CTempl n => existsb (Ast.beq n) names
  | CWrap _ _ | CIgnore | CRaw _ | CNop => true
  | _ => false end.
Definition fr_call_env (ev : Denote.env) (e : expr) : Denote.env := Denote.restrict ev.
(* the ComponentScript value of an on* expression: Name and Function from the environment (an expression without entries is a
   script whose Function is empty, for which the runtime writes nothing) *)
Definition fr_script_item (ev : Denote.env) (e : expr) : sitem :=
  (match fr_look ev "script-name:" e with Some (VStr s) => s | _ => e_val e end,
   match fr_look ev "script-fn:" e with Some (VStr s) => s | _ => [] end).
(* templ.RenderScriptItems(ctx, buf, es...): which definitions it writes depends on what the render context has already written;
   the renderers write the item list in-band and spec/ScriptOnce.v's resolve_doc turns the finished document into bytes *)
Definition fr_script_defs (ev : Denote.env) (es : list expr) : bytes := enc_hoist (map (fr_script_item ev) es).
(* definitions written by RenderCSSItems: the probe vocabulary uses plain class items, for which the runtime writes nothing
   (what it writes otherwise is C12's subject) *)
Definition fr_orc : oracles Denote.env :=
  Oracles Denote.env Gen.hesc fr_str fr_bool fr_for fr_sw fr_class (fun _ _ => []) fr_url fr_style fr_script_call fr_script_defs
          fr_spread fr_js fr_comp fr_call_env.
(* the document of a finished render: pending script definitions resolved against the (fresh) render context *)
Definition resolve_res (r : res) : res := let '(o, t, p) := r in (resolve_doc o, t, p).
