(* Model of templ's HTTP handler (/repo/handler.go), of the pooled byte buffer it renders into
   (/repo/runtime.go: GetBuffer, ReleaseBuffer) and of the part of net/http's ResponseWriter it uses.
   Definitions only. *)
From Coq.Strings Require Import Byte String.
From Coq Require Import List NArith Bool.
Import ListNotations.
From V Require Import lib.Bytes spec.HandlerSpec.
Open Scope N_scope.

(* ---------- http.Header (one value per key: only Set and Del are used) ---------- *)
Fixpoint bytes_cmp (a b : bytes) : comparison :=
  match a, b with
  | [], [] => Eq
  | [], _ :: _ => Lt
  | _ :: _, [] => Gt
  | x :: a', y :: b' => match N.compare (bN x) (bN y) with Eq => bytes_cmp a' b' | c => c end
  end.
(* Header.Set on the canonical (sorted) representation *)
Fixpoint hset (k v : bytes) (h : headers) : headers :=
  match h with
  | [] => [(k, v)]
  | (k', v') :: t => match bytes_cmp k k' with
                     | Lt => (k, v) :: h
                     | Eq => (k, v) :: t
                     | Gt => (k', v') :: hset k v t
                     end
  end.
(* Header.Del *)
Fixpoint hdel (k : bytes) (h : headers) : headers :=
  match h with
  | [] => []
  | (k', v') :: t => if bytes_eqb k k' then hdel k t else (k', v') :: hdel k t
  end.

(* ---------- http.ResponseWriter (net/http server response, httptest.ResponseRecorder) ----------
   [live]: the map w.Header() returns; [sent]: status code and the snapshot of the header map taken
   by the first WriteHeader (later changes of the live map do not reach the client); [out]: body bytes.
   Scope: final status codes (200..999); Content-Type present at the first write (no sniffing). *)
Record rw := { live : headers; sent : option (N * headers); out : bytes }.
Definition fresh : rw := {| live := []; sent := None; out := [] |}.
Definition set_header (k v : bytes) (w : rw) : rw := {| live := hset k v (live w); sent := sent w; out := out w |}.
Definition del_header (k : bytes) (w : rw) : rw := {| live := hdel k (live w); sent := sent w; out := out w |}.
(* WriteHeader: the first call wins *)
Definition write_header (code : N) (w : rw) : rw :=
  match sent w with
  | Some _ => w
  | None => {| live := live w; sent := Some (code, live w); out := out w |}
  end.
(* Write: implies WriteHeader(200) *)
Definition write (p : bytes) (w : rw) : rw :=
  let w := write_header 200 w in {| live := live w; sent := sent w; out := out w ++ p |}.
(* http.Error (go1.23): Del Content-Length, Set Content-Type and X-Content-Type-Options, WriteHeader(code), Fprintln *)
Definition http_error (msg : bytes) (code : N) (w : rw) : rw :=
  let w := del_header (bs "Content-Length") w in
  let w := set_header h_ctype text_plain w in
  let w := set_header h_nosniff nosniff w in
  write (msg ++ [x0a]) (write_header code w).
(* what the client receives once the handler has returned: a handler that never wrote gets an implicit 200 *)
Definition observe (w : rw) : resp :=
  match sent w with
  | Some (c, h) => {| r_status := c; r_hdr := h; r_body := out w |}
  | None => {| r_status := 200; r_hdr := live w; r_body := out w |}
  end.

(* ---------- *http.Request, as far as a handler can look at it ----------
   handler.go uses the request for two things only: r.Context() is handed to Component.Render, and r
   itself to the configured error handler (ErrorHandler(r, err).ServeHTTP(w, r)).  Everything else -
   method, protocol version, target, header fields, body - is carried here so that the theorems
   quantify over it. *)
Inductive ctx_state :=
| CtxLive                (* no deadline, not cancelled *)
| CtxDeadlineAhead       (* a deadline that has not passed *)
| CtxCanceled            (* already cancelled when the handler is entered: ctx.Err() = context.Canceled *)
| CtxDeadlineExceeded.   (* deadline already passed: ctx.Err() = context.DeadlineExceeded *)
Definition ctx_done (s : ctx_state) : bool :=
  match s with CtxCanceled | CtxDeadlineExceeded => true | _ => false end.
Record request := {
  q_method : bytes;              (* r.Method, as sent: GET, HEAD, POST, PUT, OPTIONS, PURGE ... *)
  q_major : N; q_minor : N;      (* r.ProtoMajor, r.ProtoMinor *)
  q_target : bytes;              (* request target after the path the handler is mounted on (query string) *)
  q_hdr : headers;               (* r.Header *)
  q_body : bytes;                (* r.Body *)
  q_ctx : ctx_state              (* r.Context() *)
}.
Definition q_proto (q : request) : bytes := bs "HTTP/" ++ dec (q_major q) ++ [x2e] ++ dec (q_minor q).
Definition is_head (q : request) : bool := bytes_eqb (q_method q) (bs "HEAD").
(* what the client of the request receives of a response the server's ResponseWriter was given:
   net/http sends no body in reply to HEAD (the recorder keeps it) *)
Definition client_view (q : request) (r : resp) : resp := if is_head q then no_body r else r.

(* An error handler described by the calls it makes on the writer (used to run concrete handlers;
   the theorems quantify over arbitrary functions request -> rw -> rw). *)
Inductive eh_op :=
| OSet (k v : bytes)           (* w.Header().Set(k, v) *)
| ODel (k : bytes)             (* w.Header().Del(k) *)
| OWriteHeader (code : N)      (* w.WriteHeader(code) *)
| OWrite (p : bytes)           (* w.Write(p) *)
| OError (msg : bytes) (code : N) (* http.Error(w, msg, code) *)
| OEcho (k : bytes).           (* w.Header().Set(k, r.Method + " " + r.URL.RawQuery + " " + r.Proto): looks at the request *)
Definition echo (q : request) : bytes := q_method q ++ [x20] ++ q_target q ++ [x20] ++ q_proto q.
Definition run_op (q : request) (w : rw) (o : eh_op) : rw :=
  match o with
  | OEcho k => set_header k (echo q) w
  | OSet k v => set_header k v w
  | ODel k => del_header k w
  | OWriteHeader c => write_header c w
  | OWrite p => write p w
  | OError m c => http_error m c w
  end.
Definition run_ops (ops : list eh_op) (q : request) (w : rw) : rw := fold_left (run_op q) ops w.

(* ---------- handler.go ---------- *)
(* ComponentHandler: Status (0 = unset), ContentType, ErrorHandler (what the handler it returns does to
   the writer, given the request), StreamResponse *)
Record cfg := { c_status : N; c_ctype : bytes; c_errh : option (request -> rw -> rw); c_stream : bool }.
(* Component.Render as the handler sees it: the chunks it writes to its io.Writer, then whether it
   returns an error *)
Record outcome := { chunks : list bytes; fails : bool }.
(* a component: what Render does given the context it is called with (all it learns of the request) *)
Notation component := (ctx_state -> outcome).
(* concrete components: [aware] ones consult ctx.Err() before writing anything and return it *)
Definition comp_of (aware : bool) (o : outcome) : component :=
  fun s => if aware && ctx_done s then {| chunks := []; fails := true |} else o.
Definition document (o : outcome) : bytes := concat (chunks o).

(* bytes.Buffer.Write appends *)
Definition render_into (buf : bytes) (o : outcome) : bytes := fold_left (fun b ch => b ++ ch) (chunks o) buf.

Definition with_status (c : cfg) (w : rw) : rw := if c_status c =? 0 then w else write_header (c_status c) w.

(* ServeHTTPBuffered with the buffer GetBuffer returned holding [buf]: the final buffer content
   (before ReleaseBuffer) and the writer *)
Definition serve_buffered_on (buf : bytes) (q : request) (c : cfg) (k : component) : bytes * rw :=
  let o := k (q_ctx q) in
  let buf' := render_into buf o in
  if fails o then
    match c_errh c with
    | Some h => (buf', h q (set_header h_ctype (c_ctype c) fresh))
    | None => (buf', http_error err_msg 500 fresh)
    end
  else
    let w := set_header h_ctype (c_ctype c) fresh in
    let w := with_status c w in
    (buf', write buf' w).
(* a buffer from the pool is empty (see the pool below) *)
Definition serve_buffered (q : request) (c : cfg) (k : component) : rw := snd (serve_buffered_on [] q c k).

(* ServeHTTPStreamed *)
Definition serve_streamed (q : request) (c : cfg) (k : component) : rw :=
  let o := k (q_ctx q) in
  let w := set_header h_ctype (c_ctype c) fresh in
  let w := with_status c w in
  let w := fold_left (fun w ch => write ch w) (chunks o) w in
  if fails o then
    match c_errh c with
    | Some h => h q (set_header h_ctype (c_ctype c) w)
    | None => http_error err_msg 500 w
    end
  else w.

(* ServeHTTP *)
Definition serve (q : request) (c : cfg) (k : component) : rw :=
  if c_stream c then serve_streamed q c k else serve_buffered q c k.

(* the error handler on its own: run, for the same request, on a fresh writer with only the configured Content-Type set *)
Definition eh_alone (q : request) (c : cfg) : option resp :=
  match c_errh c with Some h => Some (observe (h q (set_header h_ctype (c_ctype c) fresh))) | None => None end.

(* ---------- runtime.go: bufferPool, GetBuffer, ReleaseBuffer ---------- *)
(* the pool holds buffers, each with the bytes it currently contains *)
Notation pool := (list bytes).
Fixpoint remove_nth {A} (n : nat) (l : list A) : list A :=
  match l, n with
  | [], _ => []
  | _ :: t, O => t
  | x :: t, S n' => x :: remove_nth n' t
  end.
(* sync.Pool.Get: some pooled buffer (which one is the pool's choice, [pick]) or a new empty one *)
Definition get_buffer (pick : nat) (p : pool) : bytes * pool :=
  match nth_error p pick with
  | Some b => (b, remove_nth pick p)
  | None => ([], p)
  end.
(* ReleaseBuffer: b.Reset(); bufferPool.Put(b) *)
Definition release_buffer (b : bytes) (p : pool) : pool := [] :: p.
(* the variant without Reset, for the witness that the reset is what the property rests on *)
Definition release_buffer_noreset (b : bytes) (p : pool) : pool := b :: p.

(* one buffered request against the pool *)
Definition serve_pooled (rel : bytes -> pool -> pool) (p : pool) (pick : nat) (q : request) (c : cfg) (k : component) : pool * rw :=
  let '(buf, p1) := get_buffer pick p in
  let '(buf', w) := serve_buffered_on buf q c k in
  (rel buf' p1, w).
(* a history of requests served one after the other *)
Fixpoint serve_seq (rel : bytes -> pool -> pool) (p : pool) (reqs : list (nat * request * cfg * component)) : pool * list rw :=
  match reqs with
  | [] => (p, [])
  | (pick, q, c, k) :: t =>
      let '(p1, w) := serve_pooled rel p pick q c k in
      let '(p2, ws) := serve_seq rel p1 t in
      (p2, w :: ws)
  end.

(* ---------- pool discipline: which buffer (by identity) each in-flight render holds ----------
   Renders may overlap: a request takes a buffer when it starts (GetBuffer) and gives it back when
   ServeHTTPBuffered returns (the single deferred ReleaseBuffer).  [p_free]: buffers in the pool;
   [p_held]: buffers held by in-flight requests; [p_next]: the next never-used identity (sync.Pool.New). *)
Record pstate := { p_free : list nat; p_held : list nat; p_next : nat }.
Definition pinit : pstate := {| p_free := []; p_held := []; p_next := O |}.
Inductive pev :=
| EGet (pick : nat)     (* a request starts: GetBuffer, the pool choosing which free buffer (or a new one) *)
| ERel (i : nat)        (* the i-th in-flight request returns: ReleaseBuffer, once *)
| ERelTwice (i : nat).  (* a request that releases its buffer twice (not what handler.go does; for the witness) *)
Definition pstep (s : pstate) (e : pev) : pstate :=
  match e with
  | EGet pick =>
      match nth_error (p_free s) pick with
      | Some b => {| p_free := remove_nth pick (p_free s); p_held := b :: p_held s; p_next := p_next s |}
      | None => {| p_free := p_free s; p_held := p_next s :: p_held s; p_next := S (p_next s) |}
      end
  | ERel i =>
      match nth_error (p_held s) i with
      | Some b => {| p_free := b :: p_free s; p_held := remove_nth i (p_held s); p_next := p_next s |}
      | None => s
      end
  | ERelTwice i =>
      match nth_error (p_held s) i with
      | Some b => {| p_free := b :: b :: p_free s; p_held := remove_nth i (p_held s); p_next := p_next s |}
      | None => s
      end
  end.
Definition prun (tr : list pev) : pstate := fold_left pstep tr pinit.
Definition single_release (e : pev) : bool := match e with ERelTwice _ => false | _ => true end.
