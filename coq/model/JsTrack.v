(* MODEL side of C03, script level: executable Gallina mirror of the quote tracker of parser/v2/scriptparser.go
   (scriptElementParser.Parse, the loop after the start tag) and of how generator/generator.go (writeScriptContents)
   turns its verdict into a choice of escaper.  Definitions only (no proofs).

   The parser's input is abstracted to the symbols of spec.JsScript: a byte of script text, or SH i for a whole Go
   expression {{ ... }} (goCodeInJavaScript; its trailing white space is consumed with it).  Runes are read as bytes:
   every byte the loop looks at (quotes, backslash, "/", "*", "<", "{", LF) is ASCII and never part of a longer rune.
   Only ASCII white space is skipped after an expression / a block comment (parse.Whitespace also takes U+0085, U+00A0,
   U+1680, U+2000..U+200A, U+2028/9, U+202F, U+205F, U+3000 - not modelled).

     KChar d top ws   reading characters.  d = stringLiteralDelimiter; top = control is at the head of the outer loop
                      (just after a Go expression or a comment), where "</" ends the element whatever d is;
                      ws = trailing white space is still being consumed (parse.Whitespace / OptionalWhitespace).
                      Comments are tried only when d is jsQuoteNone (since 3c0a15d), and breakForHTML is subject to the same test.
     KEsc d           a backslash was read: jsBackslashEscape takes the next rune with it, whatever it is - of a line
                      continuation written backslash CR LF it takes the CR; the LF is then an ordinary character
     KLineOpen/KLine  inside jsSingleLineComment (ends after LF - parse.NewLine - or at the end of input)
     KBlockOpen/KBlock inside jsMultiLineComment (ends after "*/" and optional white space)
     KEnd             the element's contents are over ("</script>" or any "</")
   Line terminators (LF, CR, U+2028/9) are ordinary characters in KChar: no line end changes the delimiter, so a literal
   that is not closed on its line (not JavaScript) keeps the quote open for the text that follows, and a template saved
   with CR LF line endings gets the verdicts of the LF file (proofs/JsLinesProof.v tracker_crlf).  Only LF ends KLine.   *)
From Coq.Strings Require Import Byte String.
From Coq Require Import List NArith Bool.
Import ListNotations.
From V Require Import lib.Bytes lib.Utf8 spec.JsLex spec.JsScript model.JsEsc.

Inductive tst :=
| KChar (d : option quote) (top ws : bool)
| KEsc (d : option quote)
| KLineOpen (d : option quote) | KLine (d : option quote)          (* d: the delimiter when the comment began (None since 3c0a15d) *)
| KBlockOpen (d : option quote) | KBlock (d : option quote) (star : bool)
| KEnd.

(* FHole inside: NewScriptContentsGo(code, stringLiteralDelimiter != jsQuoteNone);
   FSwallowed: the text of the expression was consumed as script text (after a backslash, inside a comment);
   FEnd n: the contents ended after n symbols *)
Inductive fev := FHole (inside : bool) | FSwallowed | FEnd (n : nat).

Definition is_ws (c : byte) : bool := inr 9 13 c || Byte.eqb c x20.
Definition is_none (d : option quote) : bool := match d with None => true | Some _ => false end.
Definition quote_eqb (a b : quote) : bool :=
  match a, b with QSingle, QSingle | QDouble, QDouble | QBacktick, QBacktick => true | _, _ => false end.
(* "if c is one of the three quote characters: start or exit a string literal" *)
Definition toggle (d : option quote) (c : byte) : option quote :=
  match quote_of c with
  | None => d
  | Some q => match d with None => Some q | Some q0 => if quote_eqb q0 q then None else d end
  end.
Definition slash_slash : bytes := [x2f; x2f].
Definition slash_star : bytes := [x2f; x2a].

(* legacy = true gives the loop as it was before 3c0a15d: the comment parsers were tried at the head of the outer loop
   whatever the delimiter was (kept to state the regression, see props/C03.v) *)
Definition tstep_gen (legacy : bool) (k : tst) (s : list sym) (n : nat) : tst * list fev :=
  match s with
  | [] => (k, [])
  | x :: r =>
      match k with
      | KEnd => (KEnd, [])
      | KChar d top ws =>
          if ws && (match x with SB c => is_ws c | SH _ => false end) then (KChar d top true, [])
          else if (top || is_none d) && sb_prefix lt_slash s then (KEnd, [FEnd n])       (* jsEndTag / endTagStart; breakForHTML *)
          else match x with
               | SH _ => (KChar d true true, [FHole (negb (is_none d))])                 (* goCodeInJavaScript *)
               | SB c =>
                   if (is_none d || (legacy && top)) && sb_prefix slash_slash s then (KLineOpen d, [])
                   else if (is_none d || (legacy && top)) && sb_prefix slash_star s then (KBlockOpen d, [])
                   else if Byte.eqb c x5c then (KEsc d, [])       (* at the very end of input the backslash stands alone: unobservable *)
                   else (KChar (toggle d c) false false, [])
               end
      | KEsc d => (KChar d false false, match x with SH _ => [FSwallowed] | SB _ => [] end)
      | KLineOpen d => (KLine d, [])
      | KLine d =>
          match x with
          | SH _ => (KLine d, [FSwallowed])
          | SB c => if Byte.eqb c x0a then (KChar d true false, []) else (KLine d, [])
          end
      | KBlockOpen d => (KBlock d false, [])
      | KBlock d star =>
          match x with
          | SH _ => (KBlock d false, [FSwallowed])
          | SB c => if star && Byte.eqb c x2f then (KChar d true true, []) else (KBlock d (Byte.eqb c x2a), [])
          end
      end
  end.

Fixpoint trun_gen (legacy : bool) (k : tst) (s : list sym) (n : nat) : list fev :=
  match s with
  | [] => []
  | x :: r => let '(k', evs) := tstep_gen legacy k (x :: r) n in evs ++ trun_gen legacy k' r (S n)
  end.
Definition tstep := tstep_gen false.
Definition trun := trun_gen false.

Definition end_tag : bytes := [x3c; x2f; x73; x63; x72; x69; x70; x74; x3e].   (* "</script>" *)

(* the parser's verdicts for a script element's contents, from the byte after the start tag *)
Definition track (s : list sym) : list fev := trun (KChar None true false) s 0.
Definition track_legacy (s : list sym) : list fev := trun_gen true (KChar None true false) s 0.

(* the InsideStringLiteral flags of the Go expressions the parser recognises, in order, up to the end of the contents *)
Fixpoint flags (l : list fev) : list bool :=
  match l with
  | [] => []
  | FHole b :: r => b :: flags r
  | FSwallowed :: r => flags r
  | FEnd _ :: _ => []
  end.

(* a verdict on a template, restated for the same template saved with CR LF line endings (spec.JsScript.crlf): the
   contents end at the image of the same symbol *)
Definition crlf_end (full : list sym) (e : fev) : fev :=
  match e with FEnd m => FEnd (length (crlf (firstn m full))) | _ => e end.

(* generator.writeScriptContents + the runtime: each expression goes through the escaper the flag selects; an
   expression the parser did not recognise is not rendered here (the model is only used where there is none) *)
Fixpoint render (fl : list bool) (vals : list bytes) (s : list sym) : bytes :=
  match s with
  | [] => []
  | SB b :: r => b :: render fl vals r
  | SH i :: r =>
      match fl with
      | inside :: fl' =>
          (if inside then script_content_inside (JStr (nth i vals [])) else script_content_outside (JStr (nth i vals [])))
          ++ render fl' vals r
      | [] => render [] vals r
      end
  end.
