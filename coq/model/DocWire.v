(* Model of the path from the wire to the document copy:
     lsp/protocol/server.go serverDispatch  (MethodTextDocumentDidOpen / DidChange / DidClose: decode the
       params with encoding/json into a fresh zero value, call the Server method), and
     cmd/templ/lspcmd/proxy/server.go Server.DidOpen / DidChange / DidClose with
     cmd/templ/lspcmd/proxy/documentcontents.go DocumentContents (Set / Apply / Delete on uriToContents).
   Definitions only. *)
From Coq.Strings Require Import Byte String.
From Coq Require Import List NArith.
Import ListNotations.
From V Require Import lib.Bytes lib.Lsp lib.LspWire model.DocEdit.

(* json.Decoder.Decode into a zero TextDocumentContentChangeEvent:
     Range *Range `json:"range,omitempty"`  - stays nil when the member is absent or null, else points to the decoded range;
     RangeLength uint32                     - decoded, never read by the proxy;
     Text string.
   The decoded change is a function of this element alone (the params value is fresh for every notification). *)
Definition decode_change (w : wchange) : change :=
  {| crange := match wrange w with Present r => Some r | Absent | Null => None end; ctext := wtext w |}.

(* DocumentContents.uriToContents : map[string]*Document *)
Notation contents := (bytes -> option (list bytes)).
Definition no_contents : contents := fun _ => None.

Definition server_note (m : contents) (n : note) : contents :=
  match n with
  (* Server.DidOpen: TemplSource.Set(uri, NewDocument(text)) *)
  | DidOpen u s => let d := new_document s in fun k => if bytes_eqb k u then Some d else m k
  (* Server.DidChange: TemplSource.Apply(uri, changes) - "document not found" leaves the map as it is *)
  | DidChange u cs =>
      match m u with
      | Some d => let d' := apply_changes d (map decode_change cs) in fun k => if bytes_eqb k u then Some d' else m k
      | None => m
      end
  (* Server.DidClose: TemplSource.Delete(uri) *)
  | DidClose u => fun k => if bytes_eqb k u then None else m k
  end.

Definition server_contents (ns : list note) : contents := fold_left server_note ns no_contents.

(* Variant kept for refutation only (proofs/DocWireProof.v reused_slot_refuted, harness self-test): decoding into
   the slot a previous notification left behind - encoding/json leaves members that are absent from the JSON
   untouched, so an element without "range" inherits the slot's old range. *)
Definition decode_into (slot : option change) (w : wchange) : change :=
  {| crange := match wrange w with
               | Present r => Some r
               | Null => None
               | Absent => match slot with Some c => crange c | None => None end
               end;
     ctext := wtext w |}.
