(* Model of generator/generator.go + generator/rangewriter.go: emitted Go text, literals, and the (expression, target position) list passed to SourceMap.Add. *)
From Coq.Strings Require Import Byte String.
From Coq Require Import List Arith NArith Bool Lia.
Import ListNotations.
From V Require model.Quote.
From V Require Import lib.Bytes.
From V Require Import lib.Sexp model.Ast model.Url.
Local Open Scope nat_scope.

(* ================= RangeWriter ================= *)
Notation pos := (N * N * N)%type.   (* index, line, col *)
Fixpoint advance (p : pos) (s : bytes) : pos :=
  match s with [] => p | b :: r => let '(i, l, c) := p in advance (if Byte.eqb b x0a then (N.succ i, N.succ l, 0%N) else (N.succ i, l, N.succ c)) r end.
Record rw := { out : list bytes; inlit : bool; builder : list bytes; index : nat; lits : list bytes; cur : pos }.
Definition rw0 : rw := {| out := []; inlit := false; builder := []; index := 0; lits := []; cur := (0%N, 0%N, 0%N) |}.
Definition tabs (n : nat) : bytes := repeat x09 n.
Fixpoint dec_aux (fuel n : nat) (acc : bytes) : bytes :=
  match fuel with O => acc | S f =>
    let d := match Byte.of_nat (48 + n mod 10) with Some b => b | None => x30 end in
    if n <? 10 then d :: acc else dec_aux f (n / 10) (d :: acc) end.
Definition decn (n : nat) : bytes := dec_aux (S n) n [].
Definition raw (s : bytes) (w : rw) : rw := {| out := s :: out w; inlit := inlit w; builder := builder w; index := index w; lits := lits w; cur := advance (cur w) s |}.
Definition P := "templ_7745c5c3_"%string.
Definition nlb : bytes := [x0a].
Definition err_handler_text (lvl : nat) : bytes :=
  tabs lvl ++ bs ("if " ++ P ++ "Err != nil {") ++ nlb ++ tabs (S lvl) ++ bs ("return " ++ P ++ "Err") ++ nlb ++ tabs lvl ++ bs "}" ++ nlb.
Definition close_literal (lvl : nat) (w : rw) : rw :=
  let lit := concat (rev (builder w)) in
  let i := S (index w) in
  let line := tabs lvl ++ bs (P ++ "Err = templruntime.WriteString(" ++ P ++ "Buffer, ") ++ decn i ++ bs ", """ ++ lit ++ bs """)" ++ nlb in
  raw (err_handler_text lvl) (raw line {| out := out w; inlit := false; builder := []; index := i; lits := lit :: lits w; cur := cur w |}).
Definition wi_ (lvl : nat) (s : bytes) (w : rw) : rw :=
  let w := if inlit w then close_literal lvl w else w in raw s (raw (tabs lvl) w).
Definition wr_ (s : bytes) (w : rw) : rw := let w := if inlit w then close_literal 0 w else w in raw s w.
Definition wl_ (s : bytes) (w : rw) : rw := {| out := out w; inlit := true; builder := s :: builder w; index := index w; lits := lits w; cur := cur w |}.

(* ================= generator state ================= *)
Record gst := { w : rw; vid : nat; cvar : bytes; fname : bytes; adds : list (expr * pos) }.
Definition M := gst -> gst.
Definition upd (f : rw -> rw) : M := fun g => {| w := f (w g); vid := vid g; cvar := cvar g; fname := fname g; adds := adds g |}.
Definition set_vid (v : nat) (g : gst) : gst := {| w := w g; vid := v; cvar := cvar g; fname := fname g; adds := adds g |}.
Definition set_cvar (c : bytes) (g : gst) : gst := {| w := w g; vid := vid g; cvar := c; fname := fname g; adds := adds g |}.
Definition add_map (e : expr) (p : pos) (g : gst) : gst := {| w := w g; vid := vid g; cvar := cvar g; fname := fname g; adds := (e, p) :: adds g |}.
Definition seq (a b : M) : M := fun g => b (a g).
Notation "a ;; b" := (seq a b) (at level 61, right associativity).
Definition skip : M := fun g => g.
Definition wi (lvl : nat) (s : bytes) : M := upd (wi_ lvl s).
Definition wis (lvl : nat) (s : string) : M := wi lvl (bs s).
Definition wr (s : bytes) : M := upd (wr_ s).
Definition wrs (s : string) : M := wr (bs s).
Definition wl (s : bytes) : M := upd (wl_ s).
Definition wls (s : string) : M := wl (bs s).
Definition nl : M := wr nlb.
(* Write(e.Value) + sourceMap.Add(e, range): the range starts after a pending literal has been closed *)
Definition wre (e : expr) : M := fun g =>
  let g1 := upd (fun w => if inlit w then close_literal 0 w else w) g in
  add_map e (cur (w g1)) (wr (e_val e) g1).
(* WriteIndent(level, s) where the returned range (of s, after the tabs) is mapped to e *)
Definition wie (lvl : nat) (e : expr) (s : bytes) : M := fun g =>
  let g1 := upd (fun w => raw (tabs lvl) (if inlit w then close_literal lvl w else w)) g in
  add_map e (cur (w g1)) (upd (raw s) g1).
(* writeExpressionAttributeValueDefault: a synthetic expression (zero range) is written but not added to the source map *)
Definition zero_range (e : expr) : bool :=
  (e_fi e =? 0)%N && (e_fl e =? 0)%N && (e_fc e =? 0)%N && (e_ti e =? 0)%N && (e_tl e =? 0)%N && (e_tc e =? 0)%N.
Definition wre_nz (e : expr) : M := if zero_range e then wr (e_val e) else wre e.
(* writePackage: Write(s) with s = Package.Expression.Value + "\n\n", mapped with the position before the write;
   the expression is not added to the source map when its range is zero (a file without a package clause) *)
Definition wpk (e : expr) (s : bytes) : M := fun g =>
  if zero_range e then wr s g else add_map e (cur (w g)) (wr s g).
Definition with_var (k : bytes -> M) : M := fun g =>
  let v := S (vid g) in k (bs (P ++ "Var") ++ decn v) (set_vid v g).
Definition seqs (l : list M) : M := fold_right seq skip l.

(* ================= string helpers ================= *)
Definition hesc1 (b : byte) : bytes :=
  match b with x26 => bs "&amp;" | x27 => bs "&#39;" | x3c => bs "&lt;" | x3e => bs "&gt;" | x22 => bs "&#34;" | _ => [b] end.
Definition hesc (s : bytes) := flat_map hesc1 s.
Definition hexd (n : nat) : byte := match Byte.of_nat (if n <? 10 then 48 + n else 87 + n) with Some b => b | None => x30 end.
(* strconv.Quote without the outer quotes; non-ASCII bytes are passed through (IsPrint is an oracle in the full model) *)
Definition qesc1 (b : byte) : bytes :=
  match b with
  | x22 => bs "\""" | x5c => bs "\\" | x07 => bs "\a" | x08 => bs "\b" | x0c => bs "\f" | x0a => bs "\n" | x0d => bs "\r" | x09 => bs "\t" | x0b => bs "\v"
  | _ => let n := Byte.to_nat b in if (n <? 32) || (n =? 127) then bs "\x" ++ [hexd (n / 16); hexd (n mod 16)] else [b]
  end.
Definition qesc (s : bytes) := flat_map qesc1 s.
(* createGoString *)
Fixpoint split_bt (s acc : bytes) : list bytes :=
  match s with [] => [rev acc] | b :: r => if Byte.eqb b x60 then rev acc :: split_bt r [] else split_bt r (b :: acc) end.
Fixpoint join_with (sep : bytes) (l : list bytes) : bytes :=
  match l with [] => [] | [x] => x | x :: r => x ++ sep ++ join_with sep r end.
(* text that is not valid UTF-8 cannot be spelled by a raw string (RangeWriter would re-encode every ill-formed byte as U+FFFD):
   createGoString returns strconv.Quote(s) for it - model/Quote.v, where IsPrint, an oracle, is taken to hold of every non-ASCII
   code point (as qesc does) *)
Definition gs_is_print (r : N) : bool := if (r <? 128)%N then (32 <=? r)%N && (r <? 127)%N else true.
Definition go_string (s : bytes) : bytes :=
  if Quote.valid_utf8 s then [x60] ++ join_with (bs "` + ""`"" + `") (split_bt s []) ++ [x60]
  else [x22] ++ Quote.quote gs_is_print s ++ [x22].
Definition is_space (b : byte) : bool := match b with x20 | x09 | x0a | x0d | x0b | x0c => true | _ => false end.
Definition all_ws (s : bytes) : bool := forallb is_space s.

Definition err_handler (lvl : nat) : M :=
  wis lvl ("if " ++ P ++ "Err != nil {") ;; nl ;; wis (S lvl) ("return " ++ P ++ "Err") ;; nl ;; wis lvl "}" ;; nl.
Definition expr_err_handler (lvl : nat) (e : expr) : M := fun g =>
  (wis lvl ("if " ++ P ++ "Err != nil {") ;; nl ;;
   wi (S lvl) (bs "return" ++ [x09] ++ bs ("templ.Error{Err: " ++ P ++ "Err, FileName: ") ++ go_string (fname g)
               ++ bs ", Line: " ++ dec (N.succ (e_tl e)) ++ bs ", Col: " ++ dec (e_tc e) ++ bs "}") ;; nl ;;
   wis lvl "}" ;; nl) g.

(* ================= tables ================= *)
Definition mem (n : bytes) (l : list string) : bool := existsb (fun s => beq n (bs s)) l.
Definition is_block_name (n : bytes) : bool :=
  mem n ["address";"article";"aside";"body";"blockquote";"canvas";"dd";"div";"dl";"dt";"fieldset";"figcaption";"figure";"footer";"form";"h1";"h2";"h3";"h4";"h5";"h6";"head";"header";"hr";"html";"li";"main";"meta";"nav";"noscript";"ol";"p";"pre";"script";"section";"table";"template";"tfoot";"turbo-stream";"ul";"video";"title";"style";"link";"td";"th";"tr";"br"]%string.
Definition is_void_name (n : bytes) : bool :=
  mem n ["area";"base";"br";"col";"command";"embed";"hr";"img";"input";"keygen";"link";"meta";"param";"source";"track";"wbr"]%string.
Definition is_script_attr (n : bytes) : bool := has_prefix (bs "on") n || has_prefix (bs "hx-on:") n.

(* ================= attributes ================= *)
Definition plain_write (lvl : nat) (vn : bytes) : M :=
  wi lvl (bs ("_, " ++ P ++ "Err = " ++ P ++ "Buffer.WriteString(templ.EscapeString(") ++ vn ++ bs "))") ;; nl ;; err_handler lvl.

Definition attr_value (lvl : nat) (elem n : bytes) (e : expr) : M :=
  if url_sink elem n then
    with_var (fun vn => wi lvl (bs "var " ++ vn ++ bs " templ.SafeURL = ") ;; wre e ;; nl ;;
      wi lvl (bs ("_, " ++ P ++ "Err = " ++ P ++ "Buffer.WriteString(templ.EscapeString(string(") ++ vn ++ bs ")))") ;; nl ;; err_handler lvl)
  else if is_script_attr n then
    with_var (fun vn => wi lvl (bs "var " ++ vn ++ bs " templ.ComponentScript = ") ;; wre e ;; nl ;;
      wi lvl (bs ("_, " ++ P ++ "Err = " ++ P ++ "Buffer.WriteString(") ++ vn ++ bs ".Call)") ;; nl ;; err_handler lvl)
  else if beq n (bs "style") then
    with_var (fun vn => wi lvl (bs "var " ++ vn ++ bs " string") ;; nl ;;
      wi lvl (vn ++ bs (", " ++ P ++ "Err = templruntime.SanitizeStyleAttributeValues(")) ;; wre e ;; wrs ")" ;; nl ;;
      expr_err_handler lvl e ;;
      (* the runtime function returns an HTML-escaped string: written as is *)
      wi lvl (bs ("_, " ++ P ++ "Err = " ++ P ++ "Buffer.WriteString(") ++ vn ++ bs ")") ;; nl ;; err_handler lvl)
  else
    with_var (fun vn => wi lvl (bs "var " ++ vn ++ bs " string") ;; nl ;;
      wi lvl (vn ++ bs (", " ++ P ++ "Err = templ.JoinStringErrs(")) ;; wre_nz e ;; wrs ")" ;; nl ;;
      expr_err_handler lvl e ;; plain_write lvl vn).

Fixpoint write_attrs (fuel lvl : nat) (elem : bytes) (l : list attr) : M :=
  match fuel with O => skip | S f =>
  seqs (map (fun a =>
    match a with
    | ABoolConst n => wl ([x20] ++ hesc n)
    | AConst n v => wl ([x20] ++ hesc n ++ bs "=\""" ++ qesc (hesc v) ++ bs "\""")
    | ABoolExpr n e => wis lvl "if " ;; wre e ;; wrs " {" ;; nl ;; wl ([x20] ++ hesc n) ;; wis lvl "}" ;; nl
    | AExpr n e => wl ([x20] ++ hesc n ++ bs "=") ;; wls "\""" ;; attr_value lvl elem n e ;; wls "\"""
    | ASpread e => wis lvl (P ++ "Err = templ.RenderAttributes(ctx, " ++ P ++ "Buffer, ") ;; wre e ;; wrs ")" ;; nl ;; err_handler lvl
    | ACond e th el =>
        wis lvl "if " ;; wre e ;; wrs " {" ;; nl ;; write_attrs f (S lvl) elem th ;;
        (match el with [] => skip | _ => wis lvl "} else {" ;; nl ;; write_attrs f (S lvl) elem el end) ;;
        wis lvl "}" ;; nl
    end) l)
  end.

(* writeAttributesCSS: emits the hoisted class lists and returns the rewritten attributes *)
Fixpoint css_attrs (fuel lvl : nat) (l : list attr) (g : gst) : list attr * gst :=
  match fuel with O => (l, g) | S f =>
  match l with
  | [] => ([], g)
  | a :: r =>
      let '(a', g) :=
        match a with
        | AExpr n e =>
            if beq (hesc n) (bs "class") then
              let v := S (vid g) in let vn := bs (P ++ "Var") ++ decn v in
              let g := set_vid v g in
              let g := (wi lvl (bs "var " ++ vn ++ bs " = []any{") ;; wre e ;; wrs "}" ;; nl ;;
                        wi lvl (bs (P ++ "Err = templ.RenderCSSItems(ctx, " ++ P ++ "Buffer, ") ++ vn ++ bs "...)") ;; nl ;; err_handler lvl) g in
              (AExpr n {| e_val := bs "templ.CSSClasses(" ++ vn ++ bs ").String()"; e_fi := 0%N; e_fl := 0%N; e_fc := 0%N; e_ti := 0%N; e_tl := 0%N; e_tc := 0%N |}, g)
            else (a, g)
        | ACond e th el => let '(th', g) := css_attrs f lvl th g in let '(el', g) := css_attrs f lvl el g in (ACond e th' el', g)
        | _ => (a, g)
        end in
      let '(r', g) := css_attrs f lvl r g in (a' :: r', g)
  end end.

Fixpoint attr_scripts (fuel : nat) (a : attr) : list bytes :=
  match fuel with O => [] | S f =>
  match a with
  | ACond _ th el => flat_map (attr_scripts f) th ++ flat_map (attr_scripts f) el
  | AExpr n e => if is_script_attr (hesc n) then [e_val e] else []
  | _ => []
  end end.
Definition element_script (lvl : nat) (l : list attr) : M :=
  match flat_map (attr_scripts 50) l with
  | [] => skip
  | ss => wi lvl (bs (P ++ "Err = templ.RenderScriptItems(ctx, " ++ P ++ "Buffer, ") ++ join_with (bs ", ") ss ++ bs ")") ;; nl ;; err_handler lvl
  end.

(* ================= nodes ================= *)
Definition inline_or_text (n : option node) : bool :=
  match n with
  | Some (NIf _ _ _ _) | Some (NSwitch _ _) | Some (NFor _ _) | Some (NText _ _) | Some (NStr _ _) => true
  | Some (NElem name _ _ _) => negb (is_block_name name)
  | _ => false end.
Definition is_ws (n : node) : bool := match n with NWs _ => true | _ => false end.
Definition strip_ws (l : list node) := filter (fun n => negb (is_ws n)) l.
Fixpoint strip_lead (l : list node) := match l with n :: r => if is_ws n then strip_lead r else l | [] => [] end.
Definition strip_lt (l : list node) := rev (strip_lead (rev (strip_lead l))).
Definition trail_of (n : node) : option trailing := match n with NText _ t | NElem _ _ _ t | NStr _ t => Some t | _ => None end.

Definition string_expr (lvl : nat) (e : expr) : M :=
  if all_ws (e_val e) then skip else
  with_var (fun vn => wi lvl (bs "var " ++ vn ++ bs " string") ;; nl ;;
    wi lvl (vn ++ bs (", " ++ P ++ "Err = templ.JoinStringErrs(")) ;; wre e ;; wrs ")" ;; nl ;;
    expr_err_handler lvl e ;; plain_write lvl vn).
Definition text (v : bytes) : M := wl (qesc v).
Definition call_plain (lvl : nat) (e : expr) : M :=
  wis lvl (P ++ "Err = ") ;; wre e ;; wrs (".Render(ctx, " ++ P ++ "Buffer)") ;; nl ;; err_handler lvl.

Definition templ_buffer (lvl : nat) : M :=
  wis lvl (P ++ "Buffer, " ++ P ++ "IsBuffer := templruntime.GetBuffer(" ++ P ++ "W)") ;; nl ;;
  wis lvl ("if !" ++ P ++ "IsBuffer {") ;; nl ;;
  wis (1 + lvl) "defer func() {" ;; nl ;;
  wis (2 + lvl) (P ++ "BufErr := templruntime.ReleaseBuffer(" ++ P ++ "Buffer)") ;; nl ;;
  wis (2 + lvl) ("if " ++ P ++ "Err == nil {") ;; nl ;;
  wis (3 + lvl) (P ++ "Err = " ++ P ++ "BufErr") ;; nl ;;
  wis (2 + lvl) "}" ;; nl ;; wis (1 + lvl) "}()" ;; nl ;; wis lvl "}" ;; nl.

Definition script_part (lvl : nat) (p : spart) : M :=
  match p with
  | SJs v => match v with [] => skip | _ => text v end
  | SGo e tr inside =>
      with_var (fun vn =>
        wi lvl (vn ++ bs (", " ++ P ++ "Err := ") ++ bs (if inside then "templruntime.ScriptContentInsideStringLiteral" else "templruntime.ScriptContentOutsideStringLiteral") ++ bs "(") ;;
        wre e ;; wrs ")" ;; nl ;; expr_err_handler lvl e ;;
        wi lvl (bs ("_, " ++ P ++ "Err = " ++ P ++ "Buffer.WriteString(") ++ vn ++ bs ")") ;; nl ;; err_handler lvl ;;
        match tr with [] => skip | _ => text tr end)
  end.

Fixpoint write_node (fuel lvl : nat) (n : node) (next : option node) {struct fuel} : M :=
  match fuel with O => skip | S f =>
  let nodes_at := fun lvl' => fix wn (l : list node) (next : option node) : M :=
    match l with
    | [] => skip
    | c :: r => write_node f lvl' c (match r with x :: _ => Some x | [] => next end) ;; wn r next
    end in
  let body :=
    match n with
    | NWs v => match v with [] => skip | _ => wl [x20] end
    | NDoc v => wl (bs "<!doctype " ++ qesc v ++ bs ">")
    | NText v _ => text v
    | NStr e _ => string_expr lvl e
    | NGoComment => skip
    | NHtmlComment c => wls "<!--" ;; text c ;; wls "-->"
    | NChildren => fun g => (wi lvl (bs (P ++ "Err = ") ++ cvar g ++ bs (".Render(ctx, " ++ P ++ "Buffer)")) ;; nl ;; err_handler lvl) g
    | NCallT e => call_plain lvl e
    | NCall e [] => call_plain lvl e
    | NCall e ch =>
        with_var (fun cn =>
          wi lvl (cn ++ bs (" := templruntime.GeneratedTemplate(func(" ++ P ++ "Input templruntime.GeneratedComponentInput) (" ++ P ++ "Err error) {")) ;; nl ;;
          wis (S lvl) (P ++ "W, ctx := " ++ P ++ "Input.Writer, " ++ P ++ "Input.Context") ;; nl ;;
          templ_buffer (S lvl) ;;
          wis (S lvl) "ctx = templ.InitializeContext(ctx)" ;; nl ;;
          nodes_at (S lvl) (strip_lt ch) None ;;
          wis (S lvl) "return nil" ;; nl ;; wis lvl "})" ;; nl ;;
          wis lvl (P ++ "Err = ") ;; wre e ;; wr (bs ".Render(templ.WithChildren(ctx, " ++ cn ++ bs ("), " ++ P ++ "Buffer)")) ;; nl ;; err_handler lvl ;;
          wis lvl "ctx = templ.ClearChildren(ctx)" ;; nl)
    | NGoCode e => if all_ws (e_val e) then skip else wie lvl e (e_val e ++ nlb)
    | NElem name attrs ch _ =>
        (match attrs with
         | [] => wl (bs "<" ++ hesc name ++ bs ">")
         | _ => fun g => let '(attrs', g) := css_attrs 50 lvl attrs g in
                         (element_script lvl attrs' ;; wl (bs "<" ++ hesc name) ;; write_attrs 50 lvl name attrs' ;; wls ">") g
         end) ;;
        (if is_void_name name && match ch with [] => true | _ => false end then skip
         else nodes_at lvl (strip_ws ch) None ;; wl (bs "</" ++ hesc name ++ bs ">"))
    | NRaw name attrs c =>
        (match attrs with
         | [] => wl (bs "<" ++ hesc name ++ bs ">")
         | _ => element_script lvl attrs ;; wl (bs "<" ++ hesc name) ;; write_attrs 50 lvl name attrs ;; wls ">"
         end) ;; text c ;; wl (bs "</" ++ hesc name ++ bs ">")
    | NScript attrs parts =>
        (match attrs with
         | [] => wls "<script>"
         | _ => element_script lvl attrs ;; wls "<script" ;; write_attrs 50 lvl (bs "script") attrs ;; wls ">"
         end) ;; seqs (map (script_part lvl) parts) ;; wls "</script>"
    | NIf e th elifs el =>
        wis lvl "if " ;; wre e ;; wrs " {" ;; nl ;; nodes_at (S lvl) (strip_lt th) next ;;
        seqs (map (fun '(ce, cb) => wis lvl "} else if " ;; wre ce ;; wrs " {" ;; nl ;; nodes_at (S lvl) (strip_lt cb) next) elifs) ;;
        (match el with [] => skip | _ => wis lvl "} else {" ;; nl ;; nodes_at (S lvl) (strip_lt el) next end) ;;
        wis lvl "}" ;; nl
    | NSwitch e cases =>
        wis lvl "switch " ;; wre e ;; wrs " {" ;; nl ;;
        seqs (map (fun '(ce, cb) => wie lvl ce (e_val ce) ;; nodes_at (S lvl) (strip_lt cb) next) cases) ;;
        wis lvl "}" ;; nl
    | NFor e b => wis lvl "for " ;; wre e ;; wrs " {" ;; nl ;; nodes_at (S lvl) (strip_lt b) next ;; wis lvl "}" ;; nl
    end in
  match n with
  | NGoComment => skip
  | _ => body ;;
         match trail_of n with
         | Some SpNone | None => skip
         | Some _ => if inline_or_text (Some n) && inline_or_text next then wl [x20] else skip
         end
  end end.

Fixpoint write_nodes (fuel lvl : nat) (l : list node) (next : option node) : M :=
  match l with [] => skip | c :: r => write_node fuel lvl c (match r with x :: _ => Some x | [] => next end) ;; write_nodes fuel lvl r next end.

(* ================= top level ================= *)
Definition write_template (last : bool) (e : expr) (ch : list node) : M :=
  wrs "func " ;; wre e ;; wrs " templ.Component {" ;; nl ;;
  wis 1 ("return templruntime.GeneratedTemplate(func(" ++ P ++ "Input templruntime.GeneratedComponentInput) (" ++ P ++ "Err error) {") ;; nl ;;
  wis 2 (P ++ "W, ctx := " ++ P ++ "Input.Writer, " ++ P ++ "Input.Context") ;; nl ;;
  wis 2 ("if " ++ P ++ "CtxErr := ctx.Err(); " ++ P ++ "CtxErr != nil {") ;; nl ;;
  wis 3 ("return " ++ P ++ "CtxErr") ;; wis 2 "}" ;; nl ;;
  templ_buffer 2 ;;
  wis 2 "ctx = templ.InitializeContext(ctx)" ;; nl ;;
  with_var (fun cv => fun g =>
    (wi 2 (cv ++ bs " := templ.GetChildren(ctx)") ;; nl ;; wi 2 (bs "if " ++ cv ++ bs " == nil {") ;; nl ;;
     wi 3 (cv ++ bs " = templ.NopComponent") ;; nl ;; wis 2 "}" ;; nl ;; wis 2 "ctx = templ.ClearChildren(ctx)" ;; nl ;;
     write_nodes 100 2 (strip_ws ch) None)
    (set_cvar cv g)) ;;
  wis 2 "return nil" ;; nl ;; wis 1 "})" ;; nl ;; wis 0 "}" ;; nl ;; (if last then skip else nl).

Fixpoint last_line (s acc : bytes) : bytes := match s with [] => rev acc | b :: r => if Byte.eqb b x0a then last_line r [] else last_line r (b :: acc) end.
Definition ends_with_comment (v : bytes) : bool := has_prefix (bs "//") (last_line v []).
Definition go_block (e : expr) : M :=
  wre e ;; (if ends_with_comment (e_val e) then wi 0 nlb else wi 0 [x0a; x0a]).

(* stripTypes *)
Fixpoint split_on (c : byte) (s acc : bytes) : list bytes :=
  match s with [] => [rev acc] | b :: r => if Byte.eqb b c then rev acc :: split_on c r [] else split_on c r (b :: acc) end.
Definition trim_l (s : bytes) : bytes := (fix go s := match s with b :: r => if is_space b then go r else s | [] => [] end) s.
Definition trim (s : bytes) : bytes := rev (trim_l (rev (trim_l s))).
Definition strip_types (params : bytes) : bytes :=
  join_with (bs ", ") (map (fun p => trim (hd [] (split_on x20 (trim p) []))) (split_on x2c params [])).

Definition write_css (e : expr) (name : bytes) (props : list cssprop) : M :=
  wrs "func " ;; wre e ;; wrs " templ.CSSClass {" ;; nl ;;
  wis 1 (P ++ "CSSBuilder := templruntime.GetBuilder()") ;; nl ;;
  seqs (map (fun p => match p with
    | CConst n v => wi 1 (bs (P ++ "CSSBuilder.WriteString(") ++ go_string (n ++ bs ":" ++ v ++ bs ";") ++ bs ")") ;; nl
    | CExpr n ex => wi 1 (bs (P ++ "CSSBuilder.WriteString(string(templ.SanitizeCSS(`") ++ n ++ bs "`, ") ;; wre ex ;; wrs ")))" ;; nl
    end) props) ;;
  wi 1 (bs (P ++ "CSSID := templ.CSSID(`") ++ name ++ bs ("`, " ++ P ++ "CSSBuilder.String())")) ;; nl ;;
  wis 1 "return templ.ComponentCSSClass{" ;; nl ;;
  wis 2 ("ID: " ++ P ++ "CSSID,") ;; nl ;;
  wis 2 ("Class: templ.SafeCSS(`.` + " ++ P ++ "CSSID + `{` + " ++ P ++ "CSSBuilder.String() + `}`),") ;; nl ;;
  wis 1 "}" ;; nl ;; wis 0 "}" ;; wr [x0a; x0a].

Definition write_script (name params : expr) (value fn : bytes) : M :=
  let gofn := go_string fn in
  let st := strip_types (e_val params) in
  wrs "func " ;; wre name ;; wrs "(" ;; wre params ;; wrs ") templ.ComponentScript {" ;; nl ;;
  wis 1 "return templ.ComponentScript{" ;; nl ;;
  wi 2 (bs "Name: " ++ gofn ++ bs ",") ;; nl ;;
  wi 2 (bs "Function: " ++ go_string (bs "function " ++ fn ++ bs "(" ++ st ++ bs "){" ++ trim_l value ++ bs "}") ++ bs ",") ;; nl ;;
  wi 2 (bs "Call: templ.SafeScript(" ++ gofn ++ bs ", " ++ st ++ bs "),") ;; nl ;;
  wi 2 (bs "CallInline: templ.SafeScriptInline(" ++ gofn ++ bs ", " ++ st ++ bs "),") ;; nl ;;
  wis 1 "}" ;; nl ;; wis 0 "}" ;; wr [x0a; x0a].

Fixpoint write_fnodes (l : list fnode) : M :=
  match l with
  | [] => skip
  | n :: r =>
      (match n with
       | FGo e => go_block e
       | FTempl e ch => write_template (match r with [] => true | _ => false end) e ch
       | FCss e name props => write_css e name props
       | FScript name params value fn => write_script name params value fn
       end) ;; write_fnodes r
  end.

Definition gen_all (f : file) : M := (wrs "// Code generated by templ - DO NOT EDIT." ;; wr [x0a; x0a] ;;
            seqs (map go_block (f_header f)) ;;
            wpk (f_pkg f) (e_val (f_pkg f) ++ [x0a; x0a]) ;;
            wrs "//lint:file-ignore SA4006 This context is only used if a nested component is present." ;; wr [x0a; x0a] ;;
            wrs "import ""github.com/a-h/templ""" ;; nl ;;
            wrs "import templruntime ""github.com/a-h/templ/runtime""" ;; nl ;; nl ;;
            write_fnodes (f_nodes f) ;;
            wrs "var _ = templruntime.GeneratedTemplate").


Definition generate (fn : bytes) (f : file) : bytes * list bytes :=
  let g := {| w := rw0; vid := 0; cvar := []; fname := fn; adds := [] |} in
  let g := gen_all f g in
  (concat (rev (out (w g))), rev (lits (w g))).

