(* Model of templruntime.SanitizeStyleAttributeValues (/repo/runtime/styleattribute.go) - the value the
   generated code writes between the quotes of  style={ ... }  WITHOUT a further templ.EscapeString
   (generator.go writeExpressionAttributeValueStyle, since commit b502e9e).  The attribute-safety of that sink
   therefore rests on the html.EscapeString call on every path of this function, which is what is modelled.
   The CSS sanitisers (safehtml.SanitizeStyleValue / SanitizeCSS / SanitizeCSSProperty, strings.TrimSpace) are
   not modelled here (C05): their RESULTS are fields of the value, supplied by the harness from the live code,
   so every theorem about [style_attr] holds for any sanitiser whatsoever.
   Error paths (an error value among the arguments, a func returning a non-nil error or having a wrong
   signature) write nothing and abort the render: not part of this model. *)
From Coq.Strings Require Import Byte String.
From Coq Require Import List NArith Bool.
Import ListNotations.
From V Require Import lib.Bytes model.Escape.

Inductive sval :=
| SString (z : bytes) (empty : bool)       (* string v: empty = (v == ""), z = TrimSpace(SanitizeStyleValue(v)) *)
| SSafeCSS (v : bytes)                     (* templ.SafeCSS *)
| SMapSS (m : list (bytes * bytes))        (* map[string]string: SanitizeCSS(name, value) per entry, in sorted-key order *)
| SMapSP (m : list (bytes * bytes))        (* map[string]SafeCSSProperty: (SanitizeCSSProperty(name), value), sorted-key order *)
| SKVss (n v : bytes)                      (* KeyValue[string,string] after SanitizeCSS *)
| SKVsb (z : bytes) (empty : bool) (b : bool)   (* KeyValue[string,bool] *)
| SKVcb (v : bytes) (b : bool)             (* KeyValue[SafeCSS,bool] *)
| SFunc (r : sval)                         (* func() T or func() (T, error) returning a nil error: by its result *)
| SSlice (l : list sval)                   (* any slice, element-wise *)
| SNil                                     (* untyped nil: skipped at top level, unsupported when nested *)
| SOther.                                  (* any other type *)

Definition unsupported : bytes := bs "zTemplUnsupportedStyleAttributeValue:Invalid;".
Definition ends_with_semi (s : bytes) : bool := match rev s with c :: _ => Byte.eqb c x3b | [] => false end.
(* processString / processSafeCSS *)
Definition process_string (z : bytes) (empty : bool) : bytes :=
  if empty then [] else escape z ++ (if ends_with_semi z then [] else [x3b]).
Definition process_safecss (v : bytes) : bytes :=
  match v with [] => [] | _ => escape v ++ (if ends_with_semi v then [] else [x3b]) end.
(* processStringKV and one entry of processStringMap / processSafeCSSPropertyMap *)
Definition decl (n v : bytes) : bytes := escape n ++ [x3a] ++ escape v ++ [x3b].

Fixpoint style_val (v : sval) : bytes :=
  match v with
  | SString z e => process_string z e
  | SSafeCSS v => process_safecss v
  | SMapSS m | SMapSP m => flat_map (fun p => decl (fst p) (snd p)) m
  | SKVss n v => decl n v
  | SKVsb z e b => if b then process_string z e else []
  | SKVcb v b => if b then process_safecss v else []
  | SFunc r => style_val r
  | SSlice l => flat_map style_val l
  | SNil | SOther => unsupported
  end.
(* SanitizeStyleAttributeValues(values...) *)
Definition style_attr (vs : list sval) : bytes :=
  flat_map (fun v => match v with SNil => [] | _ => style_val v end) vs.
