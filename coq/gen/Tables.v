(* REGENERATED on every run by `vcheck tables` from /repo's working tree (build tag verif exports). Do not edit. *)
From Coq.Strings Require Import Byte String.
From Coq Require Import List NArith.
Import ListNotations.
From V Require Import lib.Bytes.
Open Scope N_scope.

