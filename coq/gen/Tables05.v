(* REGENERATED on every run by `build/vcheck_Cnn tables` from /repo's working tree (build tag verif exports). Do not edit. *)
From Coq.Strings Require Import Byte String.
From Coq Require Import List NArith.
Import ListNotations.
From V Require Import lib.Bytes.
Open Scope N_scope.

(* ---- C05 css sanitiser tables ---- *)
(* cssPropertyNameToValueSanitizer: property name -> sanitiser kind
   0 sanitizeRegular, 1 sanitizeEnum, 2 sanitizeFontFamily, 3 sanitizeBackgroundImage, 9 a function unknown to the model *)
Definition css_table : list (bytes * N) := [
  ([x62;x61;x63;x6b;x67;x72;x6f;x75;x6e;x64;x2d;x63;x6f;x6c;x6f;x72], 0); (* background-color -> regular *)
  ([x62;x61;x63;x6b;x67;x72;x6f;x75;x6e;x64;x2d;x69;x6d;x61;x67;x65], 3); (* background-image -> background-image *)
  ([x62;x61;x63;x6b;x67;x72;x6f;x75;x6e;x64;x2d;x70;x6f;x73;x69;x74;x69;x6f;x6e], 0); (* background-position -> regular *)
  ([x62;x61;x63;x6b;x67;x72;x6f;x75;x6e;x64;x2d;x72;x65;x70;x65;x61;x74], 0); (* background-repeat -> regular *)
  ([x62;x61;x63;x6b;x67;x72;x6f;x75;x6e;x64;x2d;x73;x69;x7a;x65], 0); (* background-size -> regular *)
  ([x62;x6f;x74;x74;x6f;x6d], 0); (* bottom -> regular *)
  ([x63;x6f;x6c;x6f;x72], 0); (* color -> regular *)
  ([x64;x69;x73;x70;x6c;x61;x79], 1); (* display -> enum *)
  ([x66;x6f;x6e;x74;x2d;x66;x61;x6d;x69;x6c;x79], 2); (* font-family -> font-family *)
  ([x66;x6f;x6e;x74;x2d;x77;x65;x69;x67;x68;x74], 0); (* font-weight -> regular *)
  ([x68;x65;x69;x67;x68;x74], 0); (* height -> regular *)
  ([x6c;x65;x66;x74], 0); (* left -> regular *)
  ([x70;x61;x64;x64;x69;x6e;x67], 0); (* padding -> regular *)
  ([x72;x69;x67;x68;x74], 0); (* right -> regular *)
  ([x74;x6f;x70], 0); (* top -> regular *)
  ([x77;x69;x64;x74;x68], 0); (* width -> regular *)
  ([x7a;x2d;x69;x6e;x64;x65;x78], 0) (* z-index -> regular *)
].
Definition css_pat_identifier : bytes := [x5e;x5b;x2d;x61;x2d;x7a;x41;x2d;x5a;x5d;x2b;x24].
Definition css_pat_regular : bytes := [x5e;x28;x3f;x3a;x5b;x2a;x2f;x5d;x3f;x28;x3f;x3a;x5b;x30;x2d;x39;x61;x2d;x7a;x41;x2d;x5a;x2b;x2d;x2e;x21;x23;x25;x5f;x20;x5c;x74;x5d;x7c;x24;x29;x29;x2a;x24].
Definition css_pat_enum : bytes := [x5e;x5b;x61;x2d;x7a;x41;x2d;x5a;x2d;x5d;x2a;x24].
Definition css_pat_generic_font : bytes := [x5e;x5b;x61;x2d;x7a;x41;x2d;x5a;x5d;x5b;x2d;x20;x61;x2d;x7a;x41;x2d;x5a;x5d;x2b;x24].
Definition css_url_prefixes : list bytes := [[x75;x72;x6c;x28;x22]; [x75;x72;x6c;x28;x27]; [x75;x72;x6c;x28]].
Definition css_url_suffixes : list bytes := [[x22;x29]; [x27;x29]; [x29]].
Definition css_innocuous_name : bytes := [x7a;x54;x65;x6d;x70;x6c;x55;x6e;x73;x61;x66;x65;x43;x53;x53;x50;x72;x6f;x70;x65;x72;x74;x79;x4e;x61;x6d;x65].
Definition css_innocuous_value : bytes := [x7a;x54;x65;x6d;x70;x6c;x55;x6e;x73;x61;x66;x65;x43;x53;x53;x50;x72;x6f;x70;x65;x72;x74;x79;x56;x61;x6c;x75;x65].

