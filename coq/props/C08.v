(* C08 - formatting never changes what a template renders.
   Statements over the executable formatter model (model/Fmt.v): reparse = the tree the parser rebuilds from the text
   printed by fmt_write; both are tied to the real formatter by the harness on every run.  What a format/parse round trip
   can change is (1) layout flags, white-space nodes and trailing-space marks - nothing else (C08_reparse_only_changes_layout)
   - and (2) through the trailing-space marks, the generator's inter-node space decisions: preserved under a decidable
   guard, refuted without it.  This file holds statements only; each is closed by [exact]. *)
From Coq.Strings Require Import Byte String.
From Coq Require Import List Arith Bool.
Import ListNotations.
From V Require Import lib.Bytes model.Fmt model.FmtReasons spec.FmtSpec proofs.FmtProof proofs.FmtSemProof.

Definition mk (ch : list node) : file := {| f_header := []; f_pkg := bs "package p"; f_nodes := [FTempl (bs "t()") ch] |}.

(* ---------- a format/parse round trip changes layout only ---------- *)
(* For every file: after erasing IndentAttrs/IndentChildren/GoCode-multiline flags, white-space nodes and trailing-space
   marks, the re-parsed tree equals the original: element names, attributes and their values, texts, expressions, order
   and nesting are untouched. *)
Theorem C08_reparse_only_changes_layout : forall f : file, erase_layout (reparse f) = erase_layout f.
Proof. exact reparse_only_changes_layout. Qed.
Print Assumptions C08_reparse_only_changes_layout.

(* non-vacuity: reparse does change the tree (so the statement is not an identity), erase_layout keeps content apart
   (two files that differ in one text stay different), and it is the identity on a tree without layout marks *)
Definition c08_a := mk [NElem (bs "div") [AConst (bs "id") (bs "x") false false] false [NCallT (bs "foo()"); NWs; NText (bs "a") SpHoriz] false SpVert].
Definition c08_b := mk [NElem (bs "div") [AConst (bs "id") (bs "x") false false] false [NCallT (bs "foo()"); NWs; NText (bs "b") SpHoriz] false SpVert].
Example C08_ex_layout : reparse c08_a <> c08_a /\ erase_layout (reparse c08_a) = erase_layout c08_a
  /\ erase_layout c08_a <> erase_layout c08_b
  /\ erase_layout c08_a = mk [NElem (bs "div") [AConst (bs "id") (bs "x") false false] false [NCallT (bs "foo()"); NText (bs "a") SpNone] false SpNone].
Proof. repeat split; vm_compute; try reflexivity; intro H; inversion H. Qed.

(* ---------- the generator's space rule ---------- *)
(* gen_spaces lists, in document order, whether the generated code writes a space after each node (generator.go: the
   node's TrailingSpace is not None and both it and its follower are inline-or-text).  For every file without a tight
   block follower the list is the same before and after a format/parse round trip. *)
Theorem C08_space_rule_partial : forall f : file, trailing_semantics_preserved f = true -> gen_spaces (reparse f) = gen_spaces f.
Proof. exact space_rule_partial. Qed.
Print Assumptions C08_space_rule_partial.

(* the guard is exact: for every file whose templates nest at most 200 deep (the model's fuel), the space decisions
   survive the round trip if and only if there is no tight block follower - each one adds exactly one space *)
Theorem C08_space_rule_exact : forall f : file, shallow f = true ->
  (gen_spaces (reparse f) = gen_spaces f <-> trailing_semantics_preserved f = true).
Proof. exact space_rule_exact. Qed.
Print Assumptions C08_space_rule_exact.

(* non-vacuity: the guard holds on a tree with inline runs, if/else, br, {{ }}, a call block; four spaces are emitted *)
Definition c08_ok := mk [NElem (bs "div") [AConst (bs "id") (bs "x") false false; AExpr (bs "class") [bs "c"]] false
   [NText (bs "Hello,") SpHoriz; NElem (bs "b") [] false [NStr (bs "name") SpNone] false SpHoriz; NText (bs "and") SpHoriz; NElem (bs "i") [] false [NText (bs "you") SpNone] false SpVert;
    NIf (bs "ok") [NElem (bs "span") [] false [NText (bs "yes") SpNone] false SpVert] [] [NCallT (bs "no()")];
    NElem (bs "br") [] false [] false SpVert; NGoCode (bs "x := 1") false SpVert] true SpVert; NCall [bs "wrap()"] [bs "wrap()"] [NChildren]].
Example C08_ex_guard : trailing_semantics_preserved c08_ok = true
  /\ gen_spaces c08_ok = [false; true; true; false; true; true; false; false; false; false; false; false; false; false; false].
Proof. split; vm_compute; reflexivity. Qed.

(* refutation without the guard (known defect): <p><b>a</b>if c { x }</p> - <b> has no trailing space; the formatter puts
   the if on its own line (isBlockNode), the parser reads <b>a</b> back with TrailingSpace = Vertical, and the generator,
   for which if/for/switch are inline (isInlineOrText), now writes a space: <b>a</b>x becomes <b>a</b> x.  The printed
   layout itself is a fixed point (no C09 cause). *)
Definition c08_tight_if := mk [NElem (bs "p") [] false [NElem (bs "b") [] false [NText (bs "a") SpNone] false SpNone; NIf (bs "c") [NText (bs "x") SpVert] [] []] true SpVert].
Lemma C08_witness_tight_if :
  fmt_write c08_tight_if = (bs "package p

templ t() {
	<p>
		<b>a</b>
		if c {
			x
		}
	</p>
}
") /\
  unstable_reasons c08_tight_if = [] /\ trailing_semantics_preserved c08_tight_if = false /\
  gen_spaces c08_tight_if = [false; false; false; false; false] /\
  gen_spaces (reparse c08_tight_if) = [false; true; false; false; false].
Proof. repeat split; vm_compute; reflexivity. Qed.

(* same with a multi-line inline element as follower: <p><b>a</b><span>(line break) x (line break)</span></p> *)
Definition c08_tight_ml := mk [NElem (bs "p") [] false [NElem (bs "b") [] false [NText (bs "a") SpNone] false SpNone; NElem (bs "span") [] false [NText (bs "x") SpVert] true SpVert] true SpVert].
Lemma C08_witness_tight_multiline_inline :
  fmt_write c08_tight_ml = (bs "package p

templ t() {
	<p>
		<b>a</b>
		<span>
			x
		</span>
	</p>
}
") /\
  trailing_semantics_preserved c08_tight_ml = false /\
  gen_spaces c08_tight_ml = [false; false; false; false; false] /\
  gen_spaces (reparse c08_tight_ml) = [false; true; false; false; false].
Proof. repeat split; vm_compute; reflexivity. Qed.

Theorem C08_space_rule_refuted : exists f : file, unstable_reasons f = [] /\ gen_spaces (reparse f) <> gen_spaces f.
Proof. exists c08_tight_if. split; [vm_compute; reflexivity|vm_compute; discriminate]. Qed.
Print Assumptions C08_space_rule_refuted.
