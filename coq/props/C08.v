(* C08 - formatting never changes what a template renders. *)
From Coq.Strings Require Import Byte String.
From Coq Require Import List Arith.
From V Require Import lib.Bytes.
