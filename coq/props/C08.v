(* C08 - formatting never changes what a template renders.
   Statements over the executable formatter model (model/Fmt.v): reparse = the tree the parser rebuilds from the text
   printed by fmt_write; both are tied to the real formatter by the harness on every run.  What a format/parse round trip
   can change is (1) layout flags, white-space nodes and trailing-space marks - nothing else (C08_reparse_only_changes_layout)
   - and (2) through the trailing-space marks, the generator's inter-node space decisions: preserved under a decidable
   guard, refuted without it; (3) at the level of the RENDERED DOCUMENT (second half of this file): the re-parsed file,
   mapped into the generator's AST, renders the same bytes as the original under decidable guards, and differently
   without them.  This file holds statements only; each is closed by [exact]. *)
From Coq.Strings Require Import Byte String.
From Coq Require Import List Arith Bool.
Import ListNotations.
From V Require Import lib.Bytes model.Fmt model.FmtReasons spec.FmtSpec proofs.FmtProof proofs.FmtSemProof.
From V Require model.Ast.
From V Require Import spec.Denote spec.FmtEmbed proofs.DenoteCanonProof proofs.FmtRenderProof.

Definition mk (ch : list node) : file := {| f_header := []; f_pkg := bs "package p"; f_nodes := [FTempl (bs "t()") ch] |}.

(* ---------- a format/parse round trip changes layout only ---------- *)
(* For every file: after erasing IndentAttrs/IndentChildren/GoCode-multiline flags, white-space nodes and trailing-space
   marks, the re-parsed tree equals the original: element names, attributes and their values, texts, expressions, order
   and nesting are untouched. *)
Theorem C08_reparse_only_changes_layout : forall f : file, erase_layout (reparse f) = erase_layout f.
Proof. exact reparse_only_changes_layout. Qed.
Print Assumptions C08_reparse_only_changes_layout.

(* non-vacuity: reparse does change the tree (so the statement is not an identity), erase_layout keeps content apart
   (two files that differ in one text stay different), and it is the identity on a tree without layout marks *)
Definition c08_a := mk [NElem (bs "div") [AConst (bs "id") (bs "x") false false] false [NCallT (bs "foo()"); NWs; NText (bs "a") SpHoriz] false SpVert].
Definition c08_b := mk [NElem (bs "div") [AConst (bs "id") (bs "x") false false] false [NCallT (bs "foo()"); NWs; NText (bs "b") SpHoriz] false SpVert].
Example C08_ex_layout : reparse c08_a <> c08_a /\ erase_layout (reparse c08_a) = erase_layout c08_a
  /\ erase_layout c08_a <> erase_layout c08_b
  /\ erase_layout c08_a = mk [NElem (bs "div") [AConst (bs "id") (bs "x") false false] false [NCallT (bs "foo()"); NText (bs "a") SpNone] false SpNone].
Proof. repeat split; vm_compute; try reflexivity; intro H; inversion H. Qed.

(* ---------- the generator's space rule ---------- *)
(* gen_spaces lists, in document order, whether the generated code writes a space after each node (generator.go: the
   node's TrailingSpace is not None and both it and its follower are inline-or-text).  For every file without a tight
   block follower the list is the same before and after a format/parse round trip. *)
Theorem C08_space_rule_partial : forall f : file, trailing_semantics_preserved f = true -> gen_spaces (reparse f) = gen_spaces f.
Proof. exact space_rule_partial. Qed.
Print Assumptions C08_space_rule_partial.

(* the guard is exact: for every file whose templates nest at most 200 deep (the model's fuel), the space decisions
   survive the round trip if and only if there is no tight block follower - each one adds exactly one space *)
Theorem C08_space_rule_exact : forall f : file, shallow f = true ->
  (gen_spaces (reparse f) = gen_spaces f <-> trailing_semantics_preserved f = true).
Proof. exact space_rule_exact. Qed.
Print Assumptions C08_space_rule_exact.

(* non-vacuity: the guard holds on a tree with inline runs, if/else, br, {{ }}, a call block; four spaces are emitted *)
Definition c08_ok := mk [NElem (bs "div") [AConst (bs "id") (bs "x") false false; AExpr (bs "class") [bs "c"]] false
   [NText (bs "Hello,") SpHoriz; NElem (bs "b") [] false [NStr (bs "name") SpNone] false SpHoriz; NText (bs "and") SpHoriz; NElem (bs "i") [] false [NText (bs "you") SpNone] false SpVert;
    NIf (bs "ok") [NElem (bs "span") [] false [NText (bs "yes") SpNone] false SpVert] [] [NCallT (bs "no()")];
    NElem (bs "br") [] false [] false SpVert; NGoCode (bs "x := 1") false SpVert] true SpVert; NCall [bs "wrap()"] [bs "wrap()"] [NChildren]].
Example C08_ex_guard : trailing_semantics_preserved c08_ok = true
  /\ gen_spaces c08_ok = [false; true; true; false; true; true; false; false; false; false; false; false; false; false; false].
Proof. split; vm_compute; reflexivity. Qed.

(* refutation without the guard (known defect): <p><b>a</b>if c { x }</p> - <b> has no trailing space; the formatter puts
   the if on its own line (isBlockNode), the parser reads <b>a</b> back with TrailingSpace = Vertical, and the generator,
   for which if/for/switch are inline (isInlineOrText), now writes a space: <b>a</b>x becomes <b>a</b> x.  The printed
   layout itself is a fixed point (no C09 cause). *)
Definition c08_tight_if := mk [NElem (bs "p") [] false [NElem (bs "b") [] false [NText (bs "a") SpNone] false SpNone; NIf (bs "c") [NText (bs "x") SpVert] [] []] true SpVert].
Lemma C08_witness_tight_if :
  fmt_write c08_tight_if = (bs "package p

templ t() {
	<p>
		<b>a</b>
		if c {
			x
		}
	</p>
}
") /\
  unstable_reasons c08_tight_if = [] /\ trailing_semantics_preserved c08_tight_if = false /\
  gen_spaces c08_tight_if = [false; false; false; false; false] /\
  gen_spaces (reparse c08_tight_if) = [false; true; false; false; false].
Proof. repeat split; vm_compute; reflexivity. Qed.

(* same with a multi-line inline element as follower: <p><b>a</b><span>(line break) x (line break)</span></p> *)
Definition c08_tight_ml := mk [NElem (bs "p") [] false [NElem (bs "b") [] false [NText (bs "a") SpNone] false SpNone; NElem (bs "span") [] false [NText (bs "x") SpVert] true SpVert] true SpVert].
Lemma C08_witness_tight_multiline_inline :
  fmt_write c08_tight_ml = (bs "package p

templ t() {
	<p>
		<b>a</b>
		<span>
			x
		</span>
	</p>
}
") /\
  trailing_semantics_preserved c08_tight_ml = false /\
  gen_spaces c08_tight_ml = [false; false; false; false; false] /\
  gen_spaces (reparse c08_tight_ml) = [false; true; false; false; false].
Proof. repeat split; vm_compute; reflexivity. Qed.

Theorem C08_space_rule_refuted : exists f : file, unstable_reasons f = [] /\ gen_spaces (reparse f) <> gen_spaces f.
Proof. exists c08_tight_if. split; [vm_compute; reflexivity|vm_compute; discriminate]. Qed.
Print Assumptions C08_space_rule_refuted.

(* ====================== the rendered document ======================
   embed (spec/FmtEmbed.v) maps the formatter's view of a parsed file to the generator's view of the SAME file (checked
   against the real parser on every run: harness family "embed").  reparse_ws = reparse completed with the Whitespace
   nodes the parser builds when it reads the printed text (one after every node that does not eat its own trailing
   white space, except in front of a for expression, whose parser strips it).  Denote.denote_case (spec/Denote.v) is the specification renderer that the C02/C13 harnesses tie to
   the compiled generated code.  For every file, template name and environment: if
     - there is no tight block follower (trailing_semantics_preserved, as above),
     - Whitespace nodes in the bodies of if/else/case/for and in call blocks sit where the parser puts them: after every
       node that does not eat the white space behind it, and nowhere else; void elements have no children; no legacy
       call `{! x }` directly follows a text node that does not end its line (parser_shaped = ws_shaped && no_call_after_text),
     - templates nest at most 200 deep (shallow: the formatter model's fuel),
   then the re-parsed file renders exactly what the original renders: same bytes, same failure and failure position.
   _partial: the guards are sufficient, not necessary.  trailing_semantics_preserved looks through Whitespace nodes when it
   determines the follower of a node; the renderer does not (a node followed by a Whitespace node never writes its own
   space), so some files it rejects render the same (the harness counts them: "a guard fails, program unchanged"). *)
Theorem C08_render_preserved_partial : forall f : file,
  trailing_semantics_preserved f = true -> parser_shaped f = true -> shallow f = true ->
  forall (name : bytes) (ev : env), denote_case (embed (reparse_ws f)) name ev = denote_case (embed f) name ev.
Proof. exact render_preserved. Qed.
Print Assumptions C08_render_preserved_partial.

(* the same for every amount of renderer fuel (denote_case is denote_fuel 300) *)
Theorem C08_render_preserved_partial_any_fuel : forall f : file,
  trailing_semantics_preserved f = true -> parser_shaped f = true -> shallow f = true ->
  forall (fuel : nat) (name : bytes) (ev : env), denote_fuel fuel (embed (reparse_ws f)) name ev = denote_fuel fuel (embed f) name ev.
Proof. exact render_preserved_fuel. Qed.
Print Assumptions C08_render_preserved_partial_any_fuel.

(* non-vacuity: a file with two templates, inline runs, if / else-if / else, for, a call with a block, { children... },
   canonical white space in bodies; all guards hold; the re-parsed tree differs from the original; both render the same
   non-trivial document *)
Definition c08_env : env :=
  [(bs "ok", VBool false); (bs "alt", VBool true); (bs "name", VStr (bs "<Ann>")); (bs "c", VStr (bs "box"));
   (bs "class:c", VStr (bs "box")); (bs "xs", VIter [[(bs "x", VStr (bs "1"))]; [(bs "x", VStr (bs "2"))]])].
Definition c08_doc : file := {| f_header := []; f_pkg := bs "package p"; f_nodes := [
  FTempl (bs "Page(name string)") [
    NElem (bs "div") [AConst (bs "id") (bs "x") false false; AExpr (bs "class") [bs "c"]] false
      [NText (bs "Hello,") SpHoriz; NElem (bs "b") [] false [NStr (bs "name") SpNone] false SpHoriz; NText (bs "and") SpHoriz;
       NElem (bs "i") [] false [NText (bs "you") SpNone] false SpVert;
       NIf (bs "ok") [NWs; NElem (bs "span") [] false [NText (bs "yes") SpNone] false SpVert]
           [(bs "alt", [NHtmlComment (bs "m"); NWs; NText (bs "maybe") SpVert])] [NText (bs "no") SpVert];
       NWs; NElem (bs "br") [] false [] false SpVert; NGoCode (bs "x := 1") false SpVert] true SpVert;
    NFor (bs "xs") [NWs; NCall [bs "Card()"] [bs "Card()"] [NWs; NStr (bs "x") SpHoriz; NText (bs "item") SpVert]; NWs; NCallT (bs "Card()"); NWs]];
  FTempl (bs "Card()") [NElem (bs "li") [] false [NChildren] false SpVert]] |}.
Example C08_ex_render :
  trailing_semantics_preserved c08_doc = true /\ parser_shaped c08_doc = true /\ shallow c08_doc = true /\
  reparse_ws c08_doc <> c08_doc /\
  denote_case (embed c08_doc) (bs "Page") c08_env
    = bs "OK:<div id=""x"" class=""box"">Hello, <b>&lt;Ann&gt;</b> and <i>you</i> <!--m--> maybe<br></div><li>1 item</li> <li></li><li>2 item</li> <li></li>" /\
  denote_case (embed (reparse_ws c08_doc)) (bs "Page") c08_env = denote_case (embed c08_doc) (bs "Page") c08_env.
Proof. repeat (match goal with |- _ /\ _ => split end); try (vm_compute; reflexivity). vm_compute. intro H. inversion H. Qed.

(* refutation without the first guard (known defect, now at the level of the document): <p><b>a</b>if c { x }</p> renders
   <p><b>a</b>x</p>; formatted and re-parsed it renders <p><b>a</b> x</p>.  Same for the multi-line inline follower. *)
Lemma C08_witness_render_tight :
  parser_shaped c08_tight_if = true /\
  denote_case (embed c08_tight_if) (bs "t") [(bs "c", VBool true)] = bs "OK:<p><b>a</b>x</p>" /\
  denote_case (embed (reparse_ws c08_tight_if)) (bs "t") [(bs "c", VBool true)] = bs "OK:<p><b>a</b> x</p>" /\
  denote_case (embed c08_tight_ml) (bs "t") [] = bs "OK:<p><b>a</b><span>x</span></p>" /\
  denote_case (embed (reparse_ws c08_tight_ml)) (bs "t") [] = bs "OK:<p><b>a</b> <span>x</span></p>".
Proof. repeat (match goal with |- _ /\ _ => split end); vm_compute; reflexivity. Qed.
Theorem C08_render_refuted : exists (f : file) (name : bytes) (ev : env),
  unstable_reasons f = [] /\ parser_shaped f = true /\ shallow f = true /\
  denote_case (embed (reparse_ws f)) name ev <> denote_case (embed f) name ev.
Proof. exists c08_tight_if, (bs "t"), [(bs "c", VBool true)]. repeat (match goal with |- _ /\ _ => split end); try (vm_compute; reflexivity). vm_compute. discriminate. Qed.
Print Assumptions C08_render_refuted.

(* refutation without the second guard (found while proving C08_render_preserved_partial; reproduced on the real code):
   in the body of if/else/case/for or in a call block, a node that does not eat trailing white space - a comment, a call,
   { children... }, a doctype, a nested if/for/switch, a raw or script element - directly followed by the next node.
   The formatter puts every such node on its own line, the parser then builds a Whitespace node between the two, and the
   generator writes it as one space:  if c { <!--a--><!--b--> }  renders <!--a--><!--b-->, after templ fmt <!--a--> <!--b-->.
   No trailing-space mark is involved (trailing_semantics_preserved holds) and the printed text is a fixed point. *)
Definition c08_adjacent := mk [NIf (bs "c") [NHtmlComment (bs "a"); NHtmlComment (bs "b")] [] []].
Lemma C08_witness_render_adjacent :
  fmt_write c08_adjacent = (bs "package p

templ t() {
	if c {
		<!--a-->
		<!--b-->
	}
}
") /\
  unstable_reasons c08_adjacent = [] /\ trailing_semantics_preserved c08_adjacent = true /\ parser_shaped c08_adjacent = false /\
  gen_spaces (reparse c08_adjacent) = gen_spaces c08_adjacent /\
  denote_case (embed c08_adjacent) (bs "t") [(bs "c", VBool true)] = bs "OK:<!--a--><!--b-->" /\
  denote_case (embed (reparse_ws c08_adjacent)) (bs "t") [(bs "c", VBool true)] = bs "OK:<!--a--> <!--b-->".
Proof. repeat (match goal with |- _ /\ _ => split end); vm_compute; reflexivity. Qed.
Theorem C08_render_refuted_adjacent : exists (f : file) (name : bytes) (ev : env),
  unstable_reasons f = [] /\ trailing_semantics_preserved f = true /\ shallow f = true /\
  denote_case (embed (reparse_ws f)) name ev <> denote_case (embed f) name ev.
Proof. exists c08_adjacent, (bs "t"), [(bs "c", VBool true)]. repeat (match goal with |- _ /\ _ => split end); try (vm_compute; reflexivity). vm_compute. discriminate. Qed.
Print Assumptions C08_render_refuted_adjacent.

(* refutation without no_call_after_text (found by the harness's single-construct layout sweep, reproduced with the real
   templ binary): <div>alpha {! Card() }</div> (the parser reads the text in front of `{` as "alpha " with no trailing-space
   mark).  The formatter rewrites the legacy call to `@Card()` and keeps it on the
   text's line: `<div>alpha @Card()`.  That printed text is ALSO the printed text of the tree whose only child is the text
   node "alpha @Card()" - and that tree is, up to the layout flags that embed drops, the one the parser returns (its text
   parser does not stop at `@`; harness shape LegacyCallAfterTextReadBackAsText).  The two trees print byte for byte the same file and render differently, so no
   re-parse - a function of the printed text - can preserve what both render: the component call becomes literal text.
   Every other guard holds on the original (no tight follower, white space where the parser puts it, depth 1);
   reparse_ws, which reads `@x` back as a call, is not what the parser does here, and no_call_after_text is false. *)
Definition c08_card : fnode := FTempl (bs "Card()") [NText (bs "x") SpVert].
Definition c08_call_after_text : file := {| f_header := []; f_pkg := bs "package p"; f_nodes := [
  FTempl (bs "t()") [NElem (bs "div") [] false [NText (bs "alpha ") SpNone; NCallT (bs "Card()")] false SpVert]; c08_card] |}.
Definition c08_call_read_as_text : file := {| f_header := []; f_pkg := bs "package p"; f_nodes := [
  FTempl (bs "t()") [NElem (bs "div") [] false [NText (bs "alpha @Card()") SpVert] false SpVert]; c08_card] |}.
Lemma C08_witness_legacy_call_after_text :
  fmt_write c08_call_after_text = (bs "package p

templ t() {
	<div>alpha @Card()
</div>
}

templ Card() {
	x
}
") /\
  fmt_write c08_call_read_as_text = fmt_write c08_call_after_text /\
  trailing_semantics_preserved c08_call_after_text = true /\ ws_shaped c08_call_after_text = true /\ shallow c08_call_after_text = true /\
  no_call_after_text c08_call_after_text = false /\ parser_shaped c08_call_after_text = false /\
  parser_shaped c08_call_read_as_text = true /\
  denote_case (embed c08_call_after_text) (bs "t") [] = bs "OK:<div>alpha x</div>" /\
  denote_case (embed c08_call_read_as_text) (bs "t") [] = bs "OK:<div>alpha @Card()</div>".
Proof. repeat (match goal with |- _ /\ _ => split end); vm_compute; reflexivity. Qed.
Theorem C08_render_refuted_legacy_call_after_text : exists (f g : file) (name : bytes) (ev : env),
  fmt_write g = fmt_write f /\
  trailing_semantics_preserved f = true /\ ws_shaped f = true /\ shallow f = true /\
  denote_case (embed g) name ev <> denote_case (embed f) name ev.
Proof.
  exists c08_call_after_text, c08_call_read_as_text, (bs "t"), [].
  repeat (match goal with |- _ /\ _ => split end); try (vm_compute; reflexivity). vm_compute. discriminate.
Qed.
Print Assumptions C08_render_refuted_legacy_call_after_text.
