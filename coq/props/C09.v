(* C09 - formatting is idempotent.
   Statements over the executable formatter model (model/Fmt.v): fmt_write = TemplateFile.Write, reparse = the tree the
   parser rebuilds from the printed text; both are tied to the real formatter by the harness on every run
   (fmt_write (parse x) = format x, fmt_write (reparse (parse x)) = format (format x)).
   Full idempotence is refuted; the partial theorem says the named causes are the only ones; two-pass convergence says
   the second pass always is a fixed point.  This file holds statements only; each is closed by [exact]. *)
From Coq.Strings Require Import Byte String.
From Coq Require Import List Arith Bool.
Import ListNotations.
From V Require Import lib.Bytes model.Fmt model.FmtReasons spec.FmtSpec proofs.FmtProof spec.FmtHist model.FmtHist proofs.FmtHistProof.

Definition mk (ch : list node) : file := {| f_header := []; f_pkg := bs "package p"; f_nodes := [FTempl (bs "t()") ch] |}.

(* ---------- partial: no named cause => the first pass is a fixed point ---------- *)
(* For every file: when unstable_reasons names no cause (no IndentAttrs/IndentChildren/GoCode-multiline flag that the
   parser would recompute differently from the printed text, no stored trailing space that the next Write overrides),
   formatting the formatted text again gives the same bytes. *)
Theorem C09_no_reason_stable : forall f : file, unstable_reasons f = [] -> fmt_write (reparse f) = fmt_write f.
Proof. exact no_reason_stable. Qed.
Print Assumptions C09_no_reason_stable.

(* non-vacuity: a multi-line element with attributes, inline children, if/else, br, a {{ }} block and a call with a
   children block has no reason *)
Definition c09_ok := mk [NElem (bs "div") [AConst (bs "id") (bs "x") false false; AExpr (bs "class") [bs "c"]] false
   [NText (bs "Hello,") SpHoriz; NElem (bs "b") [] false [NStr (bs "name") SpNone] false SpHoriz; NText (bs "and") SpHoriz; NElem (bs "i") [] false [NText (bs "you") SpNone] false SpVert;
    NIf (bs "ok") [NElem (bs "span") [] false [NText (bs "yes") SpNone] false SpVert] [] [NCallT (bs "no()")];
    NElem (bs "br") [] false [] false SpVert; NGoCode (bs "x := 1") false SpVert] true SpVert; NCall [bs "wrap()"] [bs "wrap()"] [NChildren]].
Example C09_ex_no_reason : unstable_reasons c09_ok = [] /\ fmt_write c09_ok = (bs "package p

templ t() {
	<div id=""x"" class={ c }>
		Hello, <b>{ name }</b> and <i>you</i>
		if ok {
			<span>yes</span>
		} else {
			@no()
		}
		<br/>
		{{ x := 1 }}
	</div>
	@wrap() {
		{ children... }
	}
}
").
Proof. split; vm_compute; reflexivity. Qed.

(* non-vacuity for two input classes of the harness (layout family, goexpr family): a {{ }} block next to other inline content
   inside single-line elements (it carries a trailing-space mark, so no line break is forced after it), and component
   calls whose arguments hold raw strings over several lines (lines gofmt would not re-indent are copied verbatim,
   whatever stray back quotes the other arguments contain) - both are fixed points of the baseline formatter model *)
Definition c09_gocode_inline := mk [NElem (bs "ul") [] false
   [NFor (bs "_, item := range items") [NElem (bs "li") [] false [NGoCode (bs "label := f(item)") false SpNone; NStr (bs "label") SpNone] false SpVert]] true SpVert;
   NElem (bs "p") [] false [NGoCode (bs "n := len(items)") false SpHoriz; NElem (bs "b") [] false [NStr (bs "itoa(n)") SpNone] false SpHoriz; NText (bs "items") SpNone] false SpVert].
Example C09_ex_gocode_in_single_line_element : unstable_reasons c09_gocode_inline = [] /\ fmt_write c09_gocode_inline = (bs "package p

templ t() {
	<ul>
		for _, item := range items {
			<li>{{ label := f(item) }}{ label }</li>
		}
	</ul>
	<p>{{ n := len(items) }} <b>{ itoa(n) }</b> items</p>
}
").
Proof. split; vm_compute; reflexivity. Qed.

Definition c09_call_raw := mk [NElem (bs "section") [] false
   [NCall [bs "snippet(""Wrap names in ` characters:"", `select *"; bs "from users"; bs "  where name = 'x'`)"]
          [bs "snippet(""Wrap names in ` characters:"", `select *"; [x09] ++ bs "from users"; [x09] ++ bs "  where name = 'x'`)"] [];
    NCall [bs "snippet("; [x09] ++ bs "s,"; [x09] ++ bs "`echo one"; bs "echo two`,"; bs ")"]
          [bs "snippet("; [x09] ++ bs "s,"; [x09] ++ bs "`echo one"; [x09] ++ bs "echo two`,"; bs ")"] []] true SpVert].
Example C09_ex_call_with_raw_string_lines : unstable_reasons c09_call_raw = [] /\ fmt_write c09_call_raw = (bs "package p

templ t() {
	<section>
		@snippet(""Wrap names in ` characters:"", `select *
from users
  where name = 'x'`)
		@snippet(
			s,
			`echo one
echo two`,
		)
	</section>
}
").
Proof. split; vm_compute; reflexivity. Qed.

(* ---------- refutation of full idempotence, one witness per named cause (printed texts shown) ---------- *)
(* <div>@foo()</div>: a child without trailing-space mark is followed by a forced line break even in a single-line
   element; the printed text is read back with IndentChildren *)
Definition c09_nontrailer := mk [NElem (bs "div") [] false [NCallT (bs "foo()")] false SpVert].
Lemma C09_witness_NonTrailerChildInline :
  fmt_write c09_nontrailer = (bs "package p

templ t() {
	<div>@foo()
</div>
}
") /\
  fmt_write (reparse c09_nontrailer) = (bs "package p

templ t() {
	<div>
		@foo()
	</div>
}
") /\
  unstable_reasons c09_nontrailer = bs "NonTrailerChildInline" ++ [x0a].
Proof. repeat split; vm_compute; reflexivity. Qed.

(* a child that prints on several lines (an element with a conditional attribute) inside a single-line parent *)
Definition c09_multiline := mk [NElem (bs "span") [] false [NText (bs "a") SpHoriz; NElem (bs "b") [ACond (bs "c") [ABoolConst (bs "x")] []] true [] false SpNone] false SpVert].
Lemma C09_witness_MultiLineChildInline :
  fmt_write c09_multiline = (bs "package p

templ t() {
	<span>a <b
	if c {
		x
	}
></b></span>
}
") /\
  fmt_write (reparse c09_multiline) = (bs "package p

templ t() {
	<span>
		a <b
	if c {
		x
	}
></b>
	</span>
}
") /\
  unstable_reasons c09_multiline = bs "MultiLineChildInline" ++ [x0a] ++ bs "TrailingSpaceRewritten" ++ [x0a].
Proof. repeat split; vm_compute; reflexivity. Qed.

(* <div id="x" if c { hidden }></div> on one line: the conditional attribute prints on several lines, the element is read
   back with IndentAttrs *)
Definition c09_condattr := mk [NElem (bs "div") [AConst (bs "id") (bs "x") false false; ACond (bs "c") [ABoolConst (bs "hidden")] []] false [] false SpVert].
Lemma C09_witness_CondAttrInline :
  fmt_write c09_condattr = (bs "package p

templ t() {
	<div id=""x"" if c {
	hidden
}></div>
}
") /\
  fmt_write (reparse c09_condattr) = (bs "package p

templ t() {
	<div
		id=""x""
		if c {
			hidden
		}
	></div>
}
") /\
  unstable_reasons c09_condattr = bs "CondAttrInline" ++ [x0a].
Proof. repeat split; vm_compute; reflexivity. Qed.

(* a {{ }} block whose Multiline flag is false while its contents hold a line break *)
Definition c09_gocode := mk [NGoCode (bs "x := 1" ++ [x0a] ++ bs "y := 2") false SpVert].
Lemma C09_witness_GoCodeMultilineFlag :
  fmt_write c09_gocode = (bs "package p

templ t() {
	{{ x := 1
y := 2 }}
}
") /\
  fmt_write (reparse c09_gocode) = (bs "package p

templ t() {
	{{x := 1
y := 2
	}}
}
") /\
  unstable_reasons c09_gocode = bs "GoCodeMultilineFlag" ++ [x0a].
Proof. repeat split; vm_compute; reflexivity. Qed.

(* a stored horizontal space that the next Write overrides: a white-space node hid the end of the list from the text *)
Definition c09_trail := mk [NFor (bs "_, x := range xs") [NText (bs "a") SpHoriz; NWs]].
Lemma C09_witness_TrailingSpaceRewritten :
  fmt_write c09_trail = (bs "package p

templ t() {
	for _, x := range xs {
		a 	}
}
") /\
  fmt_write (reparse c09_trail) = (bs "package p

templ t() {
	for _, x := range xs {
		a
	}
}
") /\
  unstable_reasons c09_trail = bs "TrailingSpaceRewritten" ++ [x0a].
Proof. repeat split; vm_compute; reflexivity. Qed.

(* The full statement "forall f, fmt_write (reparse f) = fmt_write f" is false of the model (and of templ: the harness
   reproduces each witness on the real formatter). *)
Theorem C09_idempotent_refuted : exists f : file, shallow f = true /\ fmt_write (reparse f) <> fmt_write f.
Proof. exists c09_nontrailer. split; [reflexivity|]. vm_compute. discriminate. Qed.
Print Assumptions C09_idempotent_refuted.

(* ---------- two-pass convergence ---------- *)
(* For every file whose templates nest at most 200 deep (the model's fuel; deeper files fail the tie): the tree read back
   from the first pass names no cause ... *)
Theorem C09_after_one_pass_no_reason : forall f : file, shallow f = true -> unstable_reasons (reparse f) = [].
Proof. exact reparse_no_reason. Qed.
Print Assumptions C09_after_one_pass_no_reason.

(* ... hence whatever the first pass does to the layout, the second pass's output is a fixed point. *)
Theorem C09_two_pass_convergence : forall f : file, shallow f = true -> fmt_write (reparse (reparse f)) = fmt_write (reparse f).
Proof. exact two_pass_convergence. Qed.
Print Assumptions C09_two_pass_convergence.

(* non-vacuity: a shallow file whose first pass is NOT a fixed point but whose second pass is *)
Example C09_ex_convergence : shallow c09_nontrailer = true /\ fmt_write (reparse c09_nontrailer) <> fmt_write c09_nontrailer
  /\ fmt_write (reparse (reparse c09_nontrailer)) = fmt_write (reparse c09_nontrailer).
Proof. split; [reflexivity|]. split; [vm_compute; discriminate|vm_compute; reflexivity]. Qed.

(* convergence is a statement about the printed text: as trees, reparse is not idempotent (the second pass moves
   <span>@foo()</span> to its own line, so the stored trailing space of its left sibling changes from Horizontal to Vertical) *)
Definition c09_tree := mk [NFor (bs "_, x := range xs") [NElem (bs "span") [] false [NText (bs "a") SpNone] false SpHoriz; NElem (bs "span") [] false [NCallT (bs "foo()")] false SpVert]].
Lemma C09_reparse_not_idempotent_on_trees : reparse (reparse c09_tree) <> reparse c09_tree
  /\ fmt_write (reparse (reparse c09_tree)) = fmt_write (reparse c09_tree).
Proof. split; [vm_compute; intro H; inversion H|vm_compute; reflexivity]. Qed.

(* the depth guard is needed only because the model's recursion is fuelled (200 levels; IndentChildren is recomputed from
   a fresh 200-level print of the children): on a 203-deep tree the truncated prints disagree and a third pass still moves *)
Fixpoint c09_chain (k : nat) : node := match k with O => NGoCode (bs "x") true SpNone | S k' => NElem (bs "i") [] false [c09_chain k'] false SpNone end.
Definition c09_deep := mk [NElem (bs "span") [] false [c09_chain 201] false SpVert].
Lemma C09_convergence_guard_needed : shallow c09_deep = false /\
  bytes_eqb (fmt_write (reparse (reparse c09_deep))) (fmt_write (reparse c09_deep)) = false.
Proof. split; vm_compute; reflexivity. Qed.

(* ---------- process level: the result of formatting a file does not depend on what the process formatted before ---------- *)
(* spec/FmtHist.v: a process is any transition function  step : St -> file text -> St * (Some text written | None rejected).
   `templ fmt <dir>`, the language server and watch mode format many files in one process, files that do not parse
   among them; the property text compares format-on-save (a long-lived process) with `templ fmt -fail` in CI (a new
   one).  For every process whose outcome does not read the state it keeps: the outcome after any history is that of a
   new process, files a new process accepts as formatted stay byte-identical, the second run agrees with a new
   process, idempotence of a new process carries over to every history, and a whole run is, file by file, what new
   processes give. *)
Theorem C09_stateless_process_history_independent :
  forall (St : Type) (step : St -> bytes -> St * option bytes) (s0 : St),
    stateless St step ->
    history_independent St step s0 /\ formatted_files_stay St step s0 /\ second_run_agrees St step s0 /\
    idempotent_after_any_history St step s0 /\ runs_are_fresh St step s0.
Proof.
  intros St step s0 H. pose proof (stateless_independent St step s0 H) as I.
  exact (conj I (conj (independent_stay St step s0 I) (conj (independent_second St step s0 I)
         (conj (independent_idem St step s0 I) (independent_runs St step s0 I))))).
Qed.
Print Assumptions C09_stateless_process_history_independent.

(* What the harness observes is the property: it formats sequences of files in one process and compares the outcomes,
   file by file, with the outcomes in processes of their own (the extracted judgement run_judged_fresh); that holding
   for every sequence IS history independence - for ANY process, stateless or not. *)
Theorem C09_history_judgement_is_the_property :
  forall (St : Type) (step : St -> bytes -> St * option bytes) (s0 : St),
    history_independent St step s0 <->
    (forall files, run_judged_fresh (run St step s0 files) (map (fresh St step s0) files) = true).
Proof.
  intros St step s0. split.
  - intros H files. apply run_judged_fresh_iff. apply (independent_runs St step s0 H).
  - intros H. apply runs_independent. intros files. apply run_judged_fresh_iff. apply H.
Qed.
Print Assumptions C09_history_judgement_is_the_property.

(* The formatting step of the commands (parse, then TemplateFile.Write = fmt_write) over a parser that may keep a state:
   when the parser's verdict and tree are a function of the bytes (the contract the harness checks on the real parser
   with the history family), every process formats x to fmt_write of x's tree whatever it formatted before, and where
   that text is read back as a tree without a named cause of instability, formatting it again - after any further
   history - leaves it byte-identical. *)
Theorem C09_formatter_after_any_history :
  forall (St : Type) (parse : St -> bytes -> St * option file) (s0 : St) (tree : bytes -> option file),
    (forall s x, snd (parse s x) = tree x) ->
    history_independent St (fmt_step St parse) s0 /\
    (forall h x, out_after St (fmt_step St parse) s0 h x = option_map fmt_write (tree x)) /\
    (forall h h' x f, tree x = Some f -> tree (fmt_write f) = Some (reparse f) -> unstable_reasons f = [] ->
       out_after St (fmt_step St parse) s0 h x = Some (fmt_write f) /\
       out_after St (fmt_step St parse) s0 h' (fmt_write f) = Some (fmt_write f)).
Proof.
  intros St parse s0 tree H.
  assert (O : forall h x, out_after St (fmt_step St parse) s0 h x = option_map fmt_write (tree x)).
  { intros h x. unfold out_after, fmt_step. cbn [snd]. rewrite H. reflexivity. }
  split; [|split].
  - apply stateless_independent. apply fmt_step_stateless. intros s s' x. rewrite !H. reflexivity.
  - exact O.
  - intros h h' x f E1 E2 R. rewrite !O, E1, E2. cbn [option_map]. rewrite (no_reason_stable f R). split; reflexivity.
Qed.
Print Assumptions C09_formatter_after_any_history.

(* The statement separates buffer disciplines (model/FmtHist.v: the text-collecting scanner of `script f() { ... }`
   bodies).  A buffer that is new in every call (the code as it is) or emptied on entry: history independent.  A pooled
   buffer that is emptied only on the successful return: after one file that ends inside the block, a file that a new
   process accepts as formatted is rewritten - and rewritten again on every later run that follows such a file. *)
Theorem C09_buffer_discipline_separated :
  history_independent bytes (script_step NewBuffer) [] /\
  history_independent bytes (script_step PooledResetOnEntry) [] /\
  exists h x, fresh bytes (script_step PooledResetOnSuccess) [] x = Some x /\
              out_after bytes (script_step PooledResetOnSuccess) [] h x <> Some x.
Proof.
  split; [apply stateless_independent, script_step_new_stateless|].
  split; [apply stateless_independent, script_step_entry_stateless|].
  exists [bs "script f() {if (a) { b("]. exists (bs "script f() {go();}"). split; [vm_compute; reflexivity|vm_compute; discriminate].
Qed.
Print Assumptions C09_buffer_discipline_separated.

(* the witness spelled out: what the process with the success-only reset writes back, and that the judgement sees it *)
Example C09_ex_pooled_buffer_run :
  run bytes (script_step PooledResetOnSuccess) [] [bs "script f() {if (a) { b("; bs "script f() {go();}"; bs "script f() {go();}"; bs "templ t() {"]
    = [None; Some (bs "script f() {if (a) { b(go();}"); Some (bs "script f() {go();}"); None] /\
  run_judged_fresh (run bytes (script_step PooledResetOnSuccess) [] [bs "script f() {if (a) { b("; bs "script f() {go();}"])
                   (map (fresh bytes (script_step PooledResetOnSuccess) []) [bs "script f() {if (a) { b("; bs "script f() {go();}"]) = false /\
  run_judged_fresh (run bytes (script_step NewBuffer) [] [bs "script f() {if (a) { b("; bs "script f() {go();}"])
                   (map (fresh bytes (script_step NewBuffer) []) [bs "script f() {if (a) { b("; bs "script f() {go();}"]) = true.
Proof. repeat split; vm_compute; reflexivity. Qed.
