(* C09 - formatting is idempotent. *)
From Coq.Strings Require Import Byte String.
From Coq Require Import List Arith.
From V Require Import lib.Bytes.
