(* C06 - parser is total and every recorded position is faithful to the source.
   PARTIAL in the sense of DESIGN section 10: totality of the real 40-combinator parser and of go/parser is
   monitored by the harness, not proved.  Proved here, for all inputs: the position arithmetic of
   parse.Input, the range arithmetic of the expression constructors of parser/v2 under the facts each has
   at hand, goexpression.extract's clamping for every extractor, and the termination schema of the node loops.
   This file holds statements only; each is closed by [exact]. *)
From Coq.Strings Require Import Byte String.
From Coq Require Import List Arith ZArith Bool.
Import ListNotations.
From V Require Import lib.Bytes lib.SrcPos spec.PosOf model.ParseInput model.GoExprScan proofs.ParseInputProof proofs.GoExprScanProof.
Local Open Scope nat_scope.

(* ------------------------------------------------------------------------------------------------ *)
(* PositionAt (newline table built by NewInput + sort.Search's binary search) answers, for every byte
   string and every index up to its length, (index, number of LF before it, distance from the line start);
   and so does every Input state reached from NewInput through Take and Seek. *)
Theorem C06_position_at_faithful :
  (forall (s : bytes) (i : nat), i <= length s -> position_at (new_input s) i = pos_of s i) /\
  (forall s, wf (new_input s)) /\
  (forall pi n, wf pi -> wf (take_ pi n)) /\
  (forall pi z, wf pi -> wf (snd (seek pi z))) /\
  (forall pi i, wf pi -> i <= length (in_s pi) -> position_at pi i = pos_of (in_s pi) i).
Proof.
  exact (conj position_at_new (conj wf_new (conj take_wf (conj seek_wf position_at_faithful)))).
Qed.
Print Assumptions C06_position_at_faithful.

Example C06_ex_position : position_at (new_input (bs "ab" ++ [x0a] ++ bs "cd" ++ [x0d; x0a] ++ bs "e")) 7 = mkpos 7 2 0
                          /\ position_at (take_ (new_input (bs "ab" ++ [x0a] ++ bs "cd")) 3) 5 = mkpos 5 1 2.
Proof. split; vm_compute; reflexivity. Qed.

(* ------------------------------------------------------------------------------------------------ *)
(* Each modelled constructor yields a faithful range given the facts it has at hand. *)
Theorem C06_range_constructors_ok :
  (* parseGo (if / else if / for / switch / case / {{ }} / @call / {! } / bool attr / spread / conditional attr):
     extractor contract start <= end <= len(rest): no panic, range faithful, value = exactly the source between the ends *)
  (forall pi start end_, wf pi -> start <= end_ -> end_ <= length (rest pi) ->
     exists e pi', parse_go pi start end_ = Some (e, pi') /\ range_ok (in_s pi) e /\
       e_value e = firstn (end_ - start) (skipn (in_idx pi + start) (in_s pi)) /\
       p_index (e_to e) = p_index (e_from e) + length (e_value e) /\
       wf pi' /\ in_s pi' = in_s pi /\ in_idx pi' = in_idx pi + end_) /\
  (* parseGoSliceArgs ({ expr } and attr={ expr }): SliceArgs returned a prefix of the remaining input *)
  (forall pi expr, wf pi -> has_prefix expr (rest pi) = true -> range_ok (in_s pi) (fst (parse_go_slice_args pi expr))) /\
  (* goexpression.SliceArgs: under the go/parser contract on the literal's braces and elements, no panic and a prefix *)
  (forall has_code content lbrace rbrace ends,
     lbrace = Z.of_nat (length slice_args_prefix) ->
     (lbrace <= rbrace - 1)%Z -> (rbrace - 1 <= lbrace + Z.of_nat (length content))%Z ->
     (forall e, In e ends -> (lbrace <= e - 1)%Z) ->
     exists expr, slice_args has_code content lbrace rbrace ends = Some expr /\ has_prefix expr content = true) /\
  (* parseGoFuncDecl (templ / css declarations): the input begins with `templ ` + expr *)
  (forall prefix pi expr, wf pi -> has_prefix ((prefix ++ bs " ") ++ expr) (rest pi) = true ->
     range_ok (in_s pi) (fst (parse_go_func_decl prefix pi expr))) /\
  (* goexpression.Func: no panic; on success a prefix of what followed the keyword *)
  (forall rest' fnpos params_end,
     fnpos = (Z.of_nat (length func_prefix) + 1)%Z -> (fnpos + 4 <= params_end - 1)%Z ->
     func_expr (bs "func " ++ rest') fnpos params_end = Some None \/
     exists expr, func_expr (bs "func " ++ rest') fnpos params_end = Some (Some expr) /\ has_prefix expr rest' = true) /\
  (* package clause, header lines, ExpressionOf (script name / parameters): the text just consumed *)
  (forall pi exp, wf pi -> has_prefix (bs "package " ++ exp) (rest pi) = true -> range_ok (in_s pi) (fst (pkg_expression pi exp))) /\
  (forall pi line newline, wf pi -> has_prefix (line ++ newline) (rest pi) = true -> range_ok (in_s pi) (fst (header_line pi line newline))) /\
  (forall pi exp, wf pi -> has_prefix exp (rest pi) = true -> range_ok (in_s pi) (fst (expression_of pi exp))) /\
  (* spread attributes: dropping "..." and subtracting 3 from To.Index and To.Col (To.Line untouched) stays faithful *)
  (forall src e, range_ok src e -> p_index (e_to e) = p_index (e_from e) + length (e_value e) ->
     has_suffix3 (e_value e) = true ->
     exists e', spread_fix e = Some e' /\ range_ok src e' /\ e_value e = e_value e' ++ [x2e; x2e; x2e] /\
                p_index (e_to e') = p_index (e_from e') + length (e_value e')) /\
  (* top-level Go block: TrimSpace of the consumed text, whose first rune is not white space *)
  (forall pi_from pi_to code, wf pi_from -> wf pi_to -> in_s pi_to = in_s pi_from -> in_idx pi_from <= in_idx pi_to ->
     code = firstn (in_idx pi_to - in_idx pi_from) (rest pi_from) -> space_len code = 0 ->
     range_ok (in_s pi_from) (go_block pi_from pi_to code)) /\
  (* else-if rewind by 2: lands on "if", stays a reachable state *)
  (forall pi, wf pi -> 2 <= in_idx pi -> firstn 2 (skipn (in_idx pi - 2) (in_s pi)) = bs "if" ->
     exists pi', else_if_rewind pi = (true, pi') /\ wf pi' /\ in_s pi' = in_s pi /\ in_idx pi' = in_idx pi - 2 /\
                 has_prefix (bs "if") (rest pi') = true) /\
  (* element and attribute name ranges cover exactly the name just consumed *)
  (forall pi name, wf pi -> length name <= in_idx pi ->
     firstn (length name) (skipn (in_idx pi - length name) (in_s pi)) = name ->
     name_range_ok (in_s pi) name (fst (name_range pi name)) (snd (name_range pi name))).
Proof.
  exact (conj parse_go_ok (conj parse_go_slice_args_ok (conj slice_args_ok (conj parse_go_func_decl_ok
        (conj func_expr_ok (conj pkg_expression_ok (conj header_line_ok
        (conj expression_of_range_ok
        (conj spread_fix_ok (conj go_block_ok (conj else_if_rewind_ok name_range_ok_after))))))))))).
Qed.
Print Assumptions C06_range_constructors_ok.

(* the hypotheses are inhabited: `if x > 1 {` at offset 4 of a two-line file; a spread; a name *)
Example C06_ex_parse_go :
  let src := bs "p" ++ [x0a] ++ bs "  if x > 1 {" in
  let pi := take_ (new_input src) 4 in
  wf pi /\ 3 <= 8 /\ 8 <= length (rest pi) /\
  exists pi', parse_go pi 3 8 = Some (mkexpr (bs "x > 1") (mkpos 7 1 5) (mkpos 12 1 10), pi') /\
  range_okb src (mkexpr (bs "x > 1") (mkpos 7 1 5) (mkpos 12 1 10)) = true.
Proof. cbn zeta. split; [apply take_wf, wf_new|]. split; [auto with arith|]. split; [vm_compute; auto with arith|]. eexists. split; vm_compute; reflexivity. Qed.
(* the start offset an extractor answers may lie beyond a line break (`else if` LF condition: goexpression.If skips
   "if" and one more byte, whatever it is): parse_go looks the position of in_idx + start up, so the range starts on
   the next line at column 0; adding the offset to the keyword's line and column instead is refuted by range_okb *)
Example C06_ex_parse_go_next_line :
  let src := bs "} else if" ++ [x0a] ++ bs "x == 2 {" in
  let pi := take_ (new_input src) 7 in
  wf pi /\
  (exists pi', parse_go pi 3 9 = Some (mkexpr (bs "x == 2") (mkpos 10 1 0) (mkpos 16 1 6), pi')) /\
  range_okb src (mkexpr (bs "x == 2") (mkpos 10 1 0) (mkpos 16 1 6)) = true /\
  range_okb src (mkexpr (bs "x == 2") (mkpos 10 0 10) (mkpos 16 1 6)) = false.
Proof. cbn zeta. split; [apply take_wf, wf_new|]. split; [eexists; vm_compute; reflexivity|]. split; vm_compute; reflexivity. Qed.
Example C06_ex_spread :
  let src := bs "<a { at... }>" in
  spread_fix (mkexpr (bs "at...") (mkpos 5 0 5) (mkpos 10 0 10)) = Some (mkexpr (bs "at") (mkpos 5 0 5) (mkpos 7 0 7)) /\
  range_okb src (mkexpr (bs "at...") (mkpos 5 0 5) (mkpos 10 0 10)) = true /\
  range_okb src (mkexpr (bs "at") (mkpos 5 0 5) (mkpos 7 0 7)) = true.
Proof. vm_compute. auto. Qed.
(* the fact `first rune of the block is not white space` is needed: with a leading NBSP the recorded text
   no longer starts at the recorded position *)
Example C06_ex_go_block_needs_fact :
  let src := [xc2; xa0] ++ bs "var x = 1" in
  range_okb src (go_block (new_input src) (take_ (new_input src) 11) src) = false.
Proof. vm_compute. reflexivity. Qed.

(* ------------------------------------------------------------------------------------------------ *)
(* extract: for EVERY extractor and content, if the pair the extractor returns lies at or after the container
   prefix (the go/parser contract: positions of nodes inside the function body), the result is clamped into
   0 <= start <= end <= len(content); and then parseGo neither panics nor records an unfaithful range. *)
Theorem C06_extract_clamped :
  (forall (extractor : bytes -> option (Z * Z)) (content : bytes) (s e : Z),
     (forall s0 e0, extractor (container_prefix ++ content) = Some (s0, e0) ->
        (Z.of_nat (length container_prefix) <= s0 /\ Z.of_nat (length container_prefix) <= e0)%Z) ->
     extract extractor content = Some (s, e) ->
     (0 <= s /\ s <= e /\ e <= Z.of_nat (length content))%Z) /\
  (forall extractor content s e,
     (forall s0 e0, extractor (container_prefix ++ switch_prefix ++ content) = Some (s0, e0) ->
        (Z.of_nat (length container_prefix) + Z.of_nat (length switch_prefix) <= s0 /\
         Z.of_nat (length container_prefix) + Z.of_nat (length switch_prefix) <= e0)%Z) ->
     case_extract extractor content = Some (s, e) ->
     (0 <= s /\ s <= e /\ e <= Z.of_nat (length content))%Z) /\
  (forall start ends, (start <= latest_end start ends)%Z) /\
  (forall pi extractor s e, wf pi ->
     (forall s0 e0, extractor (container_prefix ++ rest pi) = Some (s0, e0) ->
        (Z.of_nat (length container_prefix) <= s0 /\ Z.of_nat (length container_prefix) <= e0)%Z) ->
     extract extractor (rest pi) = Some (s, e) ->
     exists ex pi', parse_go pi (Z.to_nat s) (Z.to_nat e) = Some (ex, pi') /\ range_ok (in_s pi) ex /\ wf pi').
Proof. exact (conj extract_clamped (conj case_extract_clamped (conj latest_end_ge extract_then_parse_go))). Qed.
Print Assumptions C06_extract_clamped.

Example C06_ex_extract : extract (fun _ => Some (41%Z, 900%Z)) (bs "if a {") = Some (3%Z, 6%Z).
Proof. vm_compute. reflexivity. Qed.

(* Why the contract is needed: an extractor answering a position before the body (token.NoPos, or one inside
   `package main`) comes out of the clamp negative - at the start, or (end before the body) at both ends -
   and an inverted or out-of-range pair makes parseGo's src[start:end] panic. *)
Lemma C06_extract_unclamped_refutable :
  (exists extractor content s e, extract extractor content = Some (s, e) /\ (s < 0)%Z /\ (0 <= e)%Z) /\
  (exists extractor content s0 e0 s e, extractor (container_prefix ++ content) = Some (s0, e0) /\
      (Z.of_nat (length container_prefix) <= s0)%Z /\ extract extractor content = Some (s, e) /\ (e < 0)%Z /\ (s < 0)%Z) /\
  (forall pi start end_, ~ (start <= end_ /\ end_ <= length (rest pi)) -> parse_go pi start end_ = None).
Proof. exact (conj (proj1 extract_unclamped_refutable) (conj (proj2 extract_unclamped_refutable) parse_go_panics)). Qed.

(* ------------------------------------------------------------------------------------------------ *)
(* The scanner-based extractors (TemplExpression: `@component(...)`; Expression: `{{ }}`, `{! }`, `{ x... }`,
   `x?={ }`) compute the end of the expression from the tokens of go/scanner: token position + length of the token's
   LITERAL - 1.  C06_range_constructors_ok takes `end <= len` as the extractor's contract; for these two it is not a
   consequence of anything parser/v2 checks, because a literal need not be source text: an invalid UTF-8 byte is an
   ILLEGAL token whose literal is the 3-byte U+FFFD.  Since 906dd9d TemplExpression clamps the end into the source:
   for EVERY token stream (any literal lengths) its answer is 0 = start <= end <= len(src), and parseGo neither
   panics nor records an unfaithful range.  Expression returns an error on ILLEGAL before measuring it; on the tokens
   it does take an end from, `the token ends inside the source` is go/scanner's contract (monitored by the harness on
   every token of every generated expression). *)
Theorem C06_scanner_extractors_inside :
  (forall toks srclen s e,
     Forall (fun t : gtoken => (1 <= fst (fst t))%Z) toks ->
     templ_expression toks srclen = Some (Some (s, e)) -> (s = 0 /\ 0 <= e /\ e <= Z.of_nat srclen)%Z) /\
  (forall pi toks s e, wf pi ->
     Forall (fun t : gtoken => (1 <= fst (fst t))%Z) toks ->
     templ_expression toks (length (rest pi)) = Some (Some (s, e)) ->
     exists ex pi', parse_go pi (Z.to_nat s) (Z.to_nat e) = Some (ex, pi') /\ range_ok (in_s pi) ex /\ wf pi' /\
                    in_idx pi' = in_idx pi + Z.to_nat e) /\
  (forall pi toks s e, wf pi ->
     Forall (fun t : gtoken => let '(pos, tok, len) := t in
               expr_sets_end tok = true -> (0 <= expr_tok_end pos tok len <= Z.of_nat (length (rest pi)))%Z) toks ->
     expression_scan toks = Some (Some (s, e)) ->
     (s = 0 /\ 0 <= e /\ e <= Z.of_nat (length (rest pi)))%Z /\
     exists ex pi', parse_go pi (Z.to_nat s) (Z.to_nat e) = Some (ex, pi') /\ range_ok (in_s pi) ex /\ wf pi') /\
  (forall pre pos len post,
     Forall (fun t : gtoken => let '(_, tok, _) := t in
               match tok with GEof | GIllegal => False | GClose 1 => False | _ => True end) pre ->
     expression_scan (pre ++ (pos, GIllegal, len) :: post) = Some None).
Proof.
  exact (conj templ_expression_clamped (conj templ_expression_then_parse_go
        (conj (fun pi toks s e W F H => conj (expression_scan_inside toks (length (rest pi)) s e F H)
                                             (expression_scan_then_parse_go pi toks s e W F H))
              expression_scan_illegal_is_error))).
Qed.
Print Assumptions C06_scanner_extractors_inside.

(* `@func \xcb)`: FUNC, ILLEGAL with the 3-byte literal at offset 5 of 7 bytes, `)` with nothing to close.  Without
   the clamp the end is 8 > 7 and parseGo panics (the crash fixed by 906dd9d); with it the end is 7. *)
Lemma C06_templ_expression_unclamped_refuted :
  exists toks src s e,
    Forall (fun t : gtoken => (1 <= fst (fst t))%Z) toks /\
    templ_expression_unclamped toks = Some (Some (s, e)) /\ (Z.of_nat (length src) < e)%Z /\
    parse_go (new_input src) (Z.to_nat s) (Z.to_nat e) = None /\
    templ_expression toks (length src) = Some (Some (0%Z, Z.of_nat (length src))).
Proof. exact templ_expression_unclamped_refuted. Qed.

(* `f(a).b {`: the expression ends behind `b`, at the blank in front of the brace *)
Example C06_ex_templ_expression :
  templ_expression [(1%Z, GIdent, 1); (2%Z, GOpen 0, 1); (3%Z, GIdent, 1); (4%Z, GClose 0, 1); (5%Z, GPeriod, 1);
                    (6%Z, GIdent, 1); (8%Z, GOpen 1, 1); (9%Z, GEof, 0)] 8 = Some (Some (0%Z, 6%Z)) /\
  expression_scan [(2%Z, GIdent, 1); (4%Z, GOther, 1); (6%Z, GOther, 3); (10%Z, GClose 1, 1); (11%Z, GClose 1, 1)] = Some (Some (0%Z, 8%Z)).
Proof. split; vm_compute; reflexivity. Qed.

(* ------------------------------------------------------------------------------------------------ *)
(* templateNodeParser.Parse over ANY until-probe, skip parsers and ordered node parsers: if every parser that
   reports success strictly advances the index, failure never leaves the index before where it started and nobody
   leaves the input (`progress`; monitored on every call of the real node parsers), the loop started at index i
   of an input of length n ends - with an error, `until` found, nothing matched, or `until not found` - after
   at most n - i + 1 iterations. *)
Theorem C06_node_loop_terminates :
  forall (n : nat) (until : option nparser) (skips parsers : list nparser),
    Forall (progress n) skips -> Forall (progress n) parsers ->
    match until with None => True | Some u => weak_progress n u end ->
    forall i, i <= n ->
      fst (node_loop (n - i + 1) until skips parsers i 0 0) <> LFuel /\
      snd (node_loop (n - i + 1) until skips parsers i 0 0) <= n - i + 1.
Proof.
  exact (fun n until skips parsers Fs Fp Fu i Hi =>
           node_loop_bound n until skips parsers Fs Fp Fu (n - i + 1) i 0 0 Hi (le_n _)).
Qed.
Print Assumptions C06_node_loop_terminates.

(* a text parser that eats one byte, an until-probe that matches at index 3, input length 5 *)
Example C06_ex_node_loop :
  let text : nparser := fun i => if i <? 5 then POk (S i) else PNo i in
  let until : nparser := fun i => if i =? 3 then POk (S i) else PNo i in
  Forall (progress 5) [text] /\ weak_progress 5 until /\
  node_loop 6 (Some until) [] [text] 0 0 0 = (LDone 3 3, 4).
Proof.
  cbn zeta. split; [|split; [|vm_compute; reflexivity]].
  - constructor; [|constructor]. intros i Hi. destruct (i <? 5) eqn:E; [apply Nat.ltb_lt in E|apply Nat.ltb_ge in E]; auto with arith.
  - intros i Hi. destruct (i =? 3); auto.
Qed.

(* scriptElementParser.Parse's outer loop, same schema: every iteration that continues has advanced *)
Theorem C06_script_loop_terminates :
  forall (n : nat) (body : nat -> sresult),
    (forall i, i <= n -> match body i with SCont j => i < j /\ j <= n | _ => True end) ->
    forall i, i <= n ->
      fst (script_loop (n - i + 1) body i 0) <> None /\ snd (script_loop (n - i + 1) body i 0) <= n - i + 1.
Proof. exact (fun n body P i Hi => script_loop_bound n body P (n - i + 1) i 0 Hi (le_n _)). Qed.
Print Assumptions C06_script_loop_terminates.

(* ------------------------------------------------------------------------------------------------ *)
(* The boolean predicates the harness evaluates (after extraction) on the real parser's trees decide the
   specification predicates; the one-pass table evaluation that is actually run computes the same booleans. *)
Theorem C06_checked_predicates_decide_spec :
  (forall src e, range_okb src e = true <-> range_ok src e) /\
  (forall src name from to, name_range_okb src name from to = true <-> name_range_ok src name from to) /\
  (forall src from to, plain_range_okb src from to = true <-> plain_range_ok src from to) /\
  (forall src,
     (forall e, range_okb_tbl (pos_table src) (length src) src e = range_okb src e) /\
     (forall name from to, name_range_okb_tbl (pos_table src) (length src) src name from to = name_range_okb src name from to) /\
     (forall from to, plain_range_okb_tbl (pos_table src) (length src) from to = plain_range_okb src from to)).
Proof. exact (conj range_okb_spec (conj name_range_okb_spec (conj plain_range_okb_spec fast_checks_equal))). Qed.
Print Assumptions C06_checked_predicates_decide_spec.

(* ------------------------------------------------------------------------------------------------ *)
(* Numbers recorded by the real parser (uint32 line / column that may have wrapped around, int64 index) are cut off at
   length src + 1 before they reach the extracted predicates (extract/X06.v: numc); the verdict is the same as on the
   numbers themselves, because every component of a faithful position of an index inside the source is <= length src. *)
Theorem C06_checked_predicates_saturate :
  forall src,
    (forall v from to, range_okb src (mkexpr v (sat_pos (length src) from) (sat_pos (length src) to)) = range_okb src (mkexpr v from to)) /\
    (forall name from to, name_range_okb src name (sat_pos (length src) from) (sat_pos (length src) to) = name_range_okb src name from to) /\
    (forall from to, plain_range_okb src (sat_pos (length src) from) (sat_pos (length src) to) = plain_range_okb src from to).
Proof. exact saturated_checks_equal. Qed.
Print Assumptions C06_checked_predicates_saturate.
