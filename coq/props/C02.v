(* C02 - generated code compiles and renders exactly what the template denotes. *)
From Coq.Strings Require Import Byte String.
From Coq Require Import List Arith.
From V Require Import lib.Bytes.
