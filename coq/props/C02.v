(* C02 - generated code compiles and renders exactly what the template denotes.
   Proof layer on a fragment of the language (model/IrFrag.v): whitespace, text, string expressions with errors,
   elements incl. void ones, raw elements, script elements with {{ }} parts, doctype, HTML and Go comments, raw Go code,
   if/else-if/else, switch, for, component calls with and without child blocks (templates of the file on fuel,
   hand-written components as opaque behaviours), the { children... } slot; attributes: constant, boolean-constant,
   boolean-expression, conditional, spread, and expression attributes of every sink (default, URL, style, on* script,
   class list).  Every theorem holds for ANY expression semantics ([orc : oracles E] is universally quantified) and for
   every tree of the fragment.  [exec_f orc tc (compile orc tbl)] is the meaning of the statements the generator emits
   after RangeWriter's literal merging [coalesce]; [denote_f orc tc tbl] is what the templates denote; results are
   (output bytes, evaluation trace, error position).  [kids] are the children of the place being rendered (lexical
   closures); [compile_blk] is their generated form.
   The harness (family "fragment") checks on every run that the printed statements are byte for byte the text of
   generator.Generate and that the compiled code renders what exec/denote say.
   [tc] = whether the trace records the HOISTED evaluations: class lists (writeAttributesCSS) and the evaluation of on*
   expressions for RenderScriptItems (writeElementScript) happen in front of the element, so the full trace (tc = true)
   agrees only on trees without class / on* expression attributes (C02_eval_only_where_reached_partial,
   C02_eval_hoisting_refuted, C02_eval_script_twice_refuted); with tc = false everything else is compared.
   proofs/IrFragDenoteProof.v relates the fragment denotation to spec/Denote.v (C02_denote_agrees below). *)
From Coq.Strings Require Import Byte String.
From Coq Require Import List Arith NArith Bool.
Import ListNotations.
From V Require Import lib.Bytes lib.Sexp model.Ast model.Gen spec.Denote model.IrFragPrint model.IrFragEnv proofs.IrFragDenoteProof model.IrFrag proofs.IrFragProof.
Local Open Scope nat_scope.

(* the generated, literal-merged code of a file writes exactly what its templates denote: output bytes, error position (nothing runs after an error), and the evaluation trace of every expression other than the hoisted evaluations; any call depth, any children *)
Theorem C02_generated_code_correct :
  forall (E : Type) (orc : oracles E) (tbl : list (bytes * list nd)) (fuel : nat) (env : E) (kids : option (dblock E)) (l : list nd) (next : option nd),
    exec_f orc false (compile orc tbl) fuel env (option_map (compile_blk orc) kids) (coalesce (gens orc l next))
    = denote_f orc false tbl fuel env kids l next.
Proof. intros. apply generated_code_correct; exact (or_introl eq_refl). Qed.
Print Assumptions C02_generated_code_correct.

(* merging adjacent literals into one WriteString (RangeWriter) never changes what runs: the merged file (every template body, every child block, any program p) runs as the unmerged one - no byte moves across an expression, a call or a control-flow boundary, under any expression semantics *)
Theorem C02_coalesce_sound :
  forall (E : Type) (orc : oracles E) (tbl : list (bytes * list nd)) (fuel : nat) (env : E) (kids : option (dblock E)) (tc : bool) (p : list stmt),
    exec_f orc tc (compile orc tbl) fuel env (option_map (compile_blk orc) kids) (coalesce p)
    = exec_f orc tc (compile_raw orc tbl) fuel env (option_map (raw_blk orc) kids) p.
Proof. intros. apply coalesce_sound. Qed.
Print Assumptions C02_coalesce_sound.

(* static markup (text, whitespace, doctype, comments, elements and raw elements with constant attributes, nested) is written in source order with the trailing-space rule between neighbours, and nothing else *)
Theorem C02_static_in_order :
  forall (E : Type) (orc : oracles E) (tbl : list (bytes * list nd)) (fuel : nat) (env : E) (kids : option (dblock E)) (l : list nd) (next : option nd) (s : bytes),
    static_render (o_escape orc) l next = Some s ->
    exec_f orc false (compile orc tbl) fuel env (option_map (compile_blk orc) kids) (coalesce (gens orc l next)) = lit s.
Proof. intros. apply static_in_order; [exact (or_introl eq_refl)|exact (or_introl eq_refl)|assumption]. Qed.
Print Assumptions C02_static_in_order.

(* a node list renders as its parts in source order (and, by the error rule of andthen, nothing of b runs when a failed) *)
Theorem C02_nodes_in_order :
  forall (E : Type) (orc : oracles E) (tbl : list (bytes * list nd)) (fuel : nat) (env : E) (kids : option (dblock E)) (a b : list nd) (next : option nd),
    exec_f orc false (compile orc tbl) fuel env (option_map (compile_blk orc) kids) (coalesce (gens orc (a ++ b) next))
    = andthen (denote_f orc false tbl fuel env kids a (next_of b next))
              (denote_f orc false tbl fuel env kids b next).
Proof. intros. apply nodes_in_order; exact (or_introl eq_refl). Qed.
Print Assumptions C02_nodes_in_order.

(* a void element is written as its open tag only: no children, no closing tag (in front of it: the definitions its class lists and scripts need) *)
Theorem C02_void_unclosed :
  forall (E : Type) (orc : oracles E) (tbl : list (bytes * list nd)) (fuel : nat) (env : E) (kids : option (dblock E)) (name : bytes) (b : bool) (attrs : list fattr) (t : trailing) (next : option nd),
    exec_f orc false (compile orc tbl) fuel env (option_map (compile_blk orc) kids) (coalesce (gens orc [Elem name b true attrs [] t] next))
    = andthen (css_defs orc env attrs) (andthen (scripts_defs orc env attrs)
        (andthen (lit (open_tag orc name))
          (andthen (dattrs orc false env attrs) (lit ([x3e] ++ trailer (Elem name b true attrs [] t) next))))).
Proof. intros. apply void_unclosed; exact (or_introl eq_refl). Qed.
Print Assumptions C02_void_unclosed.

(* a Go comment contributes nothing: the list renders as what precedes it followed by what follows it (it only counts as a non-inline neighbour for the trailing-space rule) *)
Theorem C02_go_comments_omitted :
  forall (E : Type) (orc : oracles E) (tbl : list (bytes * list nd)) (fuel : nat) (env : E) (kids : option (dblock E)) (a b : list nd) (next : option nd),
    exec_f orc false (compile orc tbl) fuel env (option_map (compile_blk orc) kids) (coalesce (gens orc (a ++ GoComment :: b) next))
    = andthen (denote_f orc false tbl fuel env kids a (Some GoComment))
              (denote_f orc false tbl fuel env kids b next).
Proof. intros. apply go_comments_omitted; exact (or_introl eq_refl). Qed.
Print Assumptions C02_go_comments_omitted.

(* the attributes under a conditional attribute - of every kind: constant, boolean, spread, expression attributes of every sink, nested conditionals - are present exactly when its condition holds (else-branch otherwise); the condition is evaluated once *)
Theorem C02_cond_attrs_iff :
  forall (E : Type) (orc : oracles E) (tbl : list (bytes * list nd)) (fuel : nat) (env : E) (kids : option (dblock E)) (elem : bytes) (c : expr) (th el : list fattr),
    exec_f orc false (compile orc tbl) fuel env (option_map (compile_blk orc) kids) (coalesce (gattrs orc elem [FCond c th el]))
    = andthen (evt KBool c) (dattrs orc false env (if o_bool orc env c then th else el)).
Proof. intros. apply cond_attrs_iff; exact (or_introl eq_refl). Qed.
Print Assumptions C02_cond_attrs_iff.

(* a boolean-expression attribute is present exactly when its expression is true *)
Theorem C02_bool_attr_iff :
  forall (E : Type) (orc : oracles E) (tbl : list (bytes * list nd)) (fuel : nat) (env : E) (kids : option (dblock E)) (elem n : bytes) (e : expr),
    exec_f orc false (compile orc tbl) fuel env (option_map (compile_blk orc) kids) (coalesce (gattrs orc elem [FBoolExpr n e]))
    = andthen (evt KBool e) (if o_bool orc env e then lit ([x20] ++ o_escape orc n) else unit_r).
Proof. intros. apply bool_attr_iff. Qed.
Print Assumptions C02_bool_attr_iff.

(* a string-expression attribute (default sink) writes name="escaped value", evaluating the expression once; an error stops the rendering at the expression's position *)
Theorem C02_attr_value_escaped :
  forall (E : Type) (orc : oracles E) (tbl : list (bytes * list nd)) (fuel : nat) (env : E) (kids : option (dblock E)) (elem n : bytes) (e : expr),
    exec_f orc false (compile orc tbl) fuel env (option_map (compile_blk orc) kids) (coalesce (gattrs orc elem [FExpr n e]))
    = expr_attr orc n (val_or_err KStr e (option_map (o_escape orc) (o_str orc env e))).
Proof. intros. apply expr_attr_default. Qed.
Print Assumptions C02_attr_value_escaped.

(* href on <a> / action on <form>: the templ.SafeURL value, escaped *)
Theorem C02_attr_url_sink :
  forall (E : Type) (orc : oracles E) (tbl : list (bytes * list nd)) (fuel : nat) (env : E) (kids : option (dblock E)) (elem n : bytes) (e : expr),
    exec_f orc false (compile orc tbl) fuel env (option_map (compile_blk orc) kids) (coalesce (gattrs orc elem [FUrl n e]))
    = expr_attr orc n (o_escape orc (o_url orc env e), [(KUrl, e)], None).
Proof. intros. apply expr_attr_url. Qed.
Print Assumptions C02_attr_url_sink.

(* style: what SanitizeStyleAttributeValues returns, written as returned (it is already escaped); its error stops the rendering *)
Theorem C02_attr_style_sink :
  forall (E : Type) (orc : oracles E) (tbl : list (bytes * list nd)) (fuel : nat) (env : E) (kids : option (dblock E)) (elem n : bytes) (e : expr),
    exec_f orc false (compile orc tbl) fuel env (option_map (compile_blk orc) kids) (coalesce (gattrs orc elem [FStyle n e]))
    = expr_attr orc n (val_or_err KStyle e (o_style orc env e)).
Proof. intros. apply expr_attr_style. Qed.
Print Assumptions C02_attr_style_sink.

(* on* attributes: the script's Call, written as is *)
Theorem C02_attr_script_sink :
  forall (E : Type) (orc : oracles E) (tbl : list (bytes * list nd)) (fuel : nat) (env : E) (kids : option (dblock E)) (elem n : bytes) (e : expr),
    exec_f orc false (compile orc tbl) fuel env (option_map (compile_blk orc) kids) (coalesce (gattrs orc elem [FScript n e]))
    = expr_attr orc n (o_script_call orc env e, [(KScript, e)], None).
Proof. intros. apply expr_attr_script. reflexivity. Qed.
Print Assumptions C02_attr_script_sink.

(* spread attributes: what templ.RenderAttributes writes for the map, evaluated once *)
Theorem C02_attr_spread :
  forall (E : Type) (orc : oracles E) (tbl : list (bytes * list nd)) (fuel : nat) (env : E) (kids : option (dblock E)) (elem : bytes) (e : expr),
    exec_f orc false (compile orc tbl) fuel env (option_map (compile_blk orc) kids) (coalesce (gattrs orc elem [FSpread e])) = (o_spread orc env e, [(KSpread, e)], None).
Proof. intros. apply spread_attr. Qed.
Print Assumptions C02_attr_spread.

(* adjacent siblings of which the first has TrailingSpace none: no byte between their renderings *)
Theorem C02_ws_not_invented :
  forall (E : Type) (orc : oracles E) (tbl : list (bytes * list nd)) (fuel : nat) (env : E) (kids : option (dblock E)) (a b : nd) (next : option nd),
    trail_of a = Some SpNone ->
    exec_f orc false (compile orc tbl) fuel env (option_map (compile_blk orc) kids) (coalesce (gens orc [a; b] next))
    = andthen (denote_f orc false tbl fuel env kids [a] None)
              (denote_f orc false tbl fuel env kids [b] next).
Proof. intros. apply ws_not_invented; try exact (or_introl eq_refl); assumption. Qed.
Print Assumptions C02_ws_not_invented.

(* adjacent inline-or-text siblings with a non-empty trailing space are separated by exactly one space *)
Theorem C02_ws_not_lost :
  forall (E : Type) (orc : oracles E) (tbl : list (bytes * list nd)) (fuel : nat) (env : E) (kids : option (dblock E)) (a b : nd) (next : option nd) (t : trailing),
    trail_of a = Some t -> t <> SpNone -> inline (Some a) = true -> inline (Some b) = true ->
    exec_f orc false (compile orc tbl) fuel env (option_map (compile_blk orc) kids) (coalesce (gens orc [a; b] next))
    = andthen (denote_f orc false tbl fuel env kids [a] None)
        (andthen (lit [x20]) (denote_f orc false tbl fuel env kids [b] next)).
Proof. intros. eapply ws_not_lost; try exact (or_introl eq_refl); eassumption. Qed.
Print Assumptions C02_ws_not_lost.

(* ... and no space is written when one of the two neighbours is not inline content (block element, comment, call, ...), whatever the source spacing *)
Theorem C02_ws_block_no_space :
  forall (E : Type) (orc : oracles E) (tbl : list (bytes * list nd)) (fuel : nat) (env : E) (kids : option (dblock E)) (a b : nd) (next : option nd),
    inline (Some a) && inline (Some b) = false -> (exists t, trail_of a = Some t) ->
    exec_f orc false (compile orc tbl) fuel env (option_map (compile_blk orc) kids) (coalesce (gens orc [a; b] next))
    = andthen (denote_f orc false tbl fuel env kids [a] None)
              (denote_f orc false tbl fuel env kids [b] next).
Proof. intros. apply ws_block_no_space; try exact (or_introl eq_refl); assumption. Qed.
Print Assumptions C02_ws_block_no_space.

(* the two theorems above are decided per element NAME: whatever the name, the fragment node of an accepted element carries exactly the
   classification of the specification's tables (spec/Denote.v block_name / void_name) - block decides `inline`, void decides the closing
   tag.  The harness compares these tables with the live parser's IsBlockElement / IsVoidElement for every name of its vocabulary. *)
From V Require Import proofs.IrFragVocabProof.
Theorem C02_element_tables_agree :
  forall (call_ok : bytes -> bool) (fuel : nat) (name : bytes) (attrs : list attr) (ch : list node) (t : trailing) (n : nd),
    to_frag call_ok fuel (NElem name attrs ch t) = Some n ->
    exists a c, n = Elem name (Denote.block_name name) (Denote.void_name name) a c t.
Proof. exact element_class_by_spec_tables. Qed.
Print Assumptions C02_element_tables_agree.
(* not vacuous: blockquote is a block name, br a block and void name, span neither *)
Example C02_ex_element_classes :
  (Denote.block_name (bs "blockquote"), Denote.void_name (bs "blockquote"), Denote.block_name (bs "br"), Denote.void_name (bs "br"), Denote.block_name (bs "span"), Denote.void_name (bs "span"))
  = (true, false, true, true, false, false).
Proof. vm_compute. reflexivity. Qed.

(* a string expression that returns an error stops the rendering with templ.Error{Line: to.line + 1, Col: to.col} and writes nothing *)
Theorem C02_error_position :
  forall (E : Type) (orc : oracles E) (tbl : list (bytes * list nd)) (fuel : nat) (env : E) (kids : option (dblock E)) (tc : bool) (xk : option (xblock E)) (e : expr) (t : trailing) (next : option nd),
    o_str orc env e = None ->
    exec_f orc tc (compile orc tbl) fuel env xk (coalesce (gens orc [Str e t] next))
    = ([], [(KStr, e)], Some (epos_of e)).
Proof. intros. apply str_error; assumption. Qed.
Print Assumptions C02_error_position.

(* statements after an error do not run (the generated `if templ_7745c5c3_Err != nil { return ... }`), whatever the calls do *)
Theorem C02_error_stops :
  forall (E : Type) (orc : oracles E) (tc : bool) (xcall : E -> expr -> option (xblock E) -> res) (xblk : option (xblock E) -> res) (env : E) (k : option (xblock E)) (p q : list stmt),
    err_of (exec orc tc xcall xblk env k p) <> None ->
    exec orc tc xcall xblk env k (p ++ q) = exec orc tc xcall xblk env k p.
Proof. intros. apply error_stops; assumption. Qed.
Print Assumptions C02_error_stops.

(* the evaluation trace of the generated code (hoisted evaluations recorded too) is the trace of the denotation - expressions on the taken path, once, in source order - for files without class-expression and on* attributes.  The full statement (no guard) is false: C02_eval_hoisting_refuted, C02_eval_script_twice_refuted.  Without the guard the same holds for every evaluation other than the hoisted ones: C02_generated_code_correct *)
Theorem C02_eval_only_where_reached_partial :
  forall (E : Type) (orc : oracles E) (tbl : list (bytes * list nd)) (fuel : nat) (env : E) (kids : option (dblock E)) (l : list nd) (next : option nd),
    tbl_hoist_free tbl = true -> kids_free kids = true -> forallb hoist_free l = true ->
    trace_of (exec_f orc true (compile orc tbl) fuel env (option_map (compile_blk orc) kids) (coalesce (gens orc l next)))
    = trace_of (denote_f orc true tbl fuel env kids l next).
Proof. intros. apply eval_only_where_reached; right; assumption. Qed.
Print Assumptions C02_eval_only_where_reached_partial.

(* an if whose condition is false evaluates the condition and nothing of its body, whatever the body contains *)
Theorem C02_untaken_branch_silent :
  forall (E : Type) (orc : oracles E) (tbl : list (bytes * list nd)) (fuel : nat) (env : E) (kids : option (dblock E)) (tc : bool) (xk : option (xblock E)) (c : expr) (th : list nd) (next : option nd),
    o_bool orc env c = false ->
    exec_f orc tc (compile orc tbl) fuel env xk (coalesce (gens orc [If c th [] false []] next)) = evt KBool c.
Proof. intros. apply untaken_branch_silent; assumption. Qed.
Print Assumptions C02_untaken_branch_silent.

(* @T(args) { block } for a template T of the file: T's body runs in T's environment, and the block it was handed is a lexical closure - the caller's environment and the caller's own children *)
Theorem C02_call_with_block_template :
  forall (E : Type) (orc : oracles E) (tbl : list (bytes * list nd)) (fuel : nat) (env : E) (kids : option (dblock E)) (e : expr) (ch : list nd) (next : option nd) (name : bytes) (body : list nd),
    o_comp orc e = KTempl name -> find tbl name = Some body ->
    exec_f orc false (compile orc tbl) (S fuel) env (option_map (compile_blk orc) kids) (coalesce (gens orc [CallB e ch] next))
    = andthen (evt KCall e) (denote_f orc false tbl fuel (o_call_env orc env e) (Some (DBlk ch env kids)) body None).
Proof. intros. eapply call_with_block_template; try exact (or_introl eq_refl); eassumption. Qed.
Print Assumptions C02_call_with_block_template.

(* { children... } renders the block the template was handed, in the environment and with the children of the place where the block was written (not those of the template that renders it) *)
Theorem C02_children_render_the_block :
  forall (E : Type) (orc : oracles E) (tbl : list (bytes * list nd)) (fuel : nat) (env : E) (ch : list nd) (cap : E) (k : option (dblock E)) (next : option nd),
    exec_f orc false (compile orc tbl) (S fuel) env (option_map (compile_blk orc) (Some (DBlk ch cap k))) (coalesce (gens orc [Children] next))
    = denote_f orc false tbl fuel cap k ch None.
Proof. intros. apply children_render_the_block; exact (or_introl eq_refl). Qed.
Print Assumptions C02_children_render_the_block.

(* a call without a block hands no children over (nothing of the caller's own children leaks into the callee) *)
Theorem C02_no_block_no_children :
  forall (E : Type) (orc : oracles E) (tbl : list (bytes * list nd)) (fuel : nat) (env : E) (kids : option (dblock E)) (e : expr) (next : option nd) (name : bytes) (body : list nd),
    o_comp orc e = KTempl name -> find tbl name = Some body ->
    exec_f orc false (compile orc tbl) (S fuel) env (option_map (compile_blk orc) kids) (coalesce (gens orc [Call e] next))
    = andthen (evt KCall e) (denote_f orc false tbl fuel (o_call_env orc env e) None body None).
Proof. intros. eapply no_block_no_children; try exact (or_introl eq_refl); eassumption. Qed.
Print Assumptions C02_no_block_no_children.

(* without children, { children... } renders nothing *)
Theorem C02_children_none_empty :
  forall (E : Type) (orc : oracles E) (tc : bool) (tbl : list (bytes * list nd)) (fuel : nat) (env : E) (next : option nd),
    exec_f orc tc (compile orc tbl) fuel env None (coalesce (gens orc [Children] next)) = unit_r.
Proof. intros. apply children_none_empty. Qed.
Print Assumptions C02_children_none_empty.

(* a hand-written component that renders its children (wrap(): o children c) gets exactly the block of its call site, rendered in the caller's environment with the caller's children *)
Theorem C02_call_with_block_wrapper :
  forall (E : Type) (orc : oracles E) (tbl : list (bytes * list nd)) (fuel : nat) (env : E) (kids : option (dblock E)) (e : expr) (ch : list nd) (next : option nd) (o c : bytes),
    o_comp orc e = KWrap o c ->
    exec_f orc false (compile orc tbl) (S (S fuel)) env (option_map (compile_blk orc) kids) (coalesce (gens orc [CallB e ch] next))
    = andthen (evt KCall e) (andthen (lit o) (andthen (denote_f orc false tbl fuel env kids ch None) (lit c))).
Proof. intros. apply call_with_block_wrapper; try exact (or_introl eq_refl); assumption. Qed.
Print Assumptions C02_call_with_block_wrapper.

(* a component that never looks at its children (ignore(), templ.Raw) renders its own output only: the block is not rendered and none of its expressions is evaluated *)
Theorem C02_call_with_block_opaque :
  forall (E : Type) (orc : oracles E) (tbl : list (bytes * list nd)) (fuel : nat) (env : E) (kids : option (dblock E)) (e : expr) (ch : list nd) (next : option nd) (s : bytes),
    o_comp orc e = KOpaque s ->
    exec_f orc false (compile orc tbl) (S fuel) env (option_map (compile_blk orc) kids) (coalesce (gens orc [CallB e ch] next)) = andthen (evt KCall e) (lit s).
Proof. intros. apply call_with_block_opaque; try exact (or_introl eq_refl); assumption. Qed.
Print Assumptions C02_call_with_block_opaque.

(* the fragment denotation and spec/Denote.v are the same function on fragment files: rendering a template with Denote.v's
   renderer (shared children slot threaded through a state, fuel at every node) from a live state with an empty slot appends
   exactly the output of the fragment denotation (lexical child blocks, oracles read from the same environment:
   model/IrFragEnv.v), fails at the same position and leaves the slot empty - at every fuel of either - unless one of the two
   reports its own internal error, position (0,0): fuel exhausted, or an expression / callee the environment does not know
   (a templ.Error never has line 0).  Scope (tbl_scope): no on* attributes (outside spec/Denote.v) and no URL / class-list
   sinks (for which spec/Denote.v has an error case the generated code has not). *)
Theorem C02_denote_agrees :
  forall (tc : bool) (fl : file) (l : list ffnode) (name : bytes) (bodyA : list node) (F cf : nat) (ev : Denote.env) (x : st),
    to_frag_file fr_known fl = Some l -> tbl_scope (frag_table l) = true ->
    find_templ (templ_table fl) name = Some bodyA ->
    failed x = None -> slot x = None ->
    exists body', IrFrag.find (frag_table l) name = Some body' /\
      let x' := nodes_with (render_node (templ_table fl) F) ev None (Denote.strip_ws bodyA) None x in
      let r := denote_f fr_orc tc (frag_table l) cf ev None body' None in
      failed x' = Some (0%N, 0%N) \/ err_of r = Some (0%N, 0%N) \/
      (flat x' = flat x ++ out_of r /\ failed x' = err_of r /\ (failed x' = None -> slot x' = None)).
Proof. exact file_agrees. Qed.
Print Assumptions C02_denote_agrees.
(* non-vacuity: a file inside the scope, on which neither model reports (0,0) and both render the same bytes *)
Definition y_e (s : string) : expr := {| e_val := bs s; e_fi := 1%N; e_fl := 1%N; e_fc := 1%N; e_ti := 2%N; e_tl := 1%N; e_tc := 2%N |}.
Definition y_file : file :=
  {| f_header := []; f_pkg := y_e "package main";
     f_nodes := [FTempl (y_e "T(s0 string)")
                   [NWs (bs " "); NText (bs "hi") SpHoriz;
                    NElem (bs "b") [AConst (bs "id") (bs "x<"); AExpr (bs "title") (y_e "s0")] [NStr (y_e "s0") SpNone] SpNone;
                    NCall (y_e "wrap()") [NWs (bs " "); NStr (y_e "s0") SpNone; NCall (y_e "Card()") [NText (bs "in") SpNone]; NWs (bs " ")];
                    NIf (y_e "b0") [NText (bs "yes") SpNone] [] [NCallT (y_e "Card()")]];
                 FTempl (y_e "Card()") [NElem (bs "u") [] [NChildren] SpNone]] |}.
Definition y_env : Denote.env := [(bs "s0", VStr (bs "a<b")); (bs "b0", VBool false)].
Example C02_ex_denote_agree :
  exists l, to_frag_file fr_known y_file = Some l /\ tbl_scope (frag_table l) = true /\
    denote_case y_file (bs "T") y_env = bs "OK:hi <b id=""x&lt;"" title=""a&lt;b"">a&lt;b</b>[a&lt;b<u>in</u>]<u></u>" /\
    match IrFrag.find (frag_table l) (bs "T") with
    | Some body => denote_f fr_orc false (frag_table l) 10 y_env None body None
    | None => fail0 end
    = (bs "hi <b id=""x&lt;"" title=""a&lt;b"">a&lt;b</b>[a&lt;b<u>in</u>]<u></u>",
       [(KStr, y_e "s0"); (KStr, y_e "s0"); (KCall, y_e "wrap()"); (KStr, y_e "s0"); (KCall, y_e "Card()"); (KBool, y_e "b0"); (KCall, y_e "Card()")], None).
Proof. eexists. split; [vm_compute; reflexivity|]. split; [vm_compute; reflexivity|]. split; vm_compute; reflexivity. Qed.

(* ---------- the two evaluation findings (DESIGN 5 C02 "Current tree", 6 row 13) at the model level ---------- *)
Definition x_e (s : string) : expr := {| e_val := bs s; e_fi := 0%N; e_fl := 0%N; e_fc := 0%N; e_ti := 0%N; e_tl := 2%N; e_tc := 7%N |}.
(* the simplest expression semantics: environments are unit, everything false / empty *)
Definition x_orc0 : oracles unit :=
  Oracles unit (fun s => s) (fun _ _ => Some []) (fun _ _ => false) (fun _ _ => []) (fun _ _ => 0) (fun _ _ => []) (fun _ _ => []) (fun _ _ => [])
          (fun _ _ => Some []) (fun _ _ => []) (fun _ _ => []) (fun _ _ => []) (fun _ _ _ => Some []) (fun _ => KUnknown) (fun u _ => u).
(* <div if p != nil { class={ p.Class } }> with p == nil: the generated code evaluates p.Class in front of the element
   (writeAttributesCSS), the template does not reach it.  In Go this panics. *)
Definition x_div_cond_class : list nd :=
  [Elem (bs "div") true false [FCond (x_e "p != nil") [FClass (bs "class") (x_e "p.Class")] []] [] SpNone].
Theorem C02_eval_hoisting_refuted :
  exists (l : list nd),
    trace_of (exec_f x_orc0 true (compile x_orc0 []) 1 tt None (coalesce (gens x_orc0 l None)))
    <> trace_of (denote_f x_orc0 true [] 1 tt None l None).
Proof. exists x_div_cond_class. vm_compute. discriminate. Qed.
Print Assumptions C02_eval_hoisting_refuted.
Example C02_ex_hoisted_trace :
  trace_of (exec_f x_orc0 true (compile x_orc0 []) 1 tt None (coalesce (gens x_orc0 x_div_cond_class None)))
  = [(KClass, x_e "p.Class"); (KBool, x_e "p != nil")].
Proof. vm_compute. reflexivity. Qed.
Example C02_ex_denoted_trace :
  trace_of (denote_f x_orc0 true [] 1 tt None x_div_cond_class None) = [(KBool, x_e "p != nil")].
Proof. vm_compute. reflexivity. Qed.
(* <button onclick={ f() }>: the generated code evaluates f() twice - once as an argument of templ.RenderScriptItems in
   front of the element, once for the attribute value - and, under a conditional attribute, the first time unconditionally *)
Definition x_button_onclick : list nd := [Elem (bs "button") false false [FScript (bs "onclick") (x_e "f()")] [] SpNone].
Theorem C02_eval_script_twice_refuted :
  exists (l : list nd),
    trace_of (exec_f x_orc0 true (compile x_orc0 []) 1 tt None (coalesce (gens x_orc0 l None)))
    <> trace_of (denote_f x_orc0 true [] 1 tt None l None).
Proof. exists x_button_onclick. vm_compute. discriminate. Qed.
Print Assumptions C02_eval_script_twice_refuted.
Example C02_ex_script_twice :
  trace_of (exec_f x_orc0 true (compile x_orc0 []) 1 tt None (coalesce (gens x_orc0 x_button_onclick None)))
  = [(KScript, x_e "f()"); (KScript, x_e "f()")]
  /\ trace_of (denote_f x_orc0 true [] 1 tt None x_button_onclick None) = [(KScript, x_e "f()")].
Proof. split; vm_compute; reflexivity. Qed.
Example C02_ex_script_under_cond :
  trace_of (exec_f x_orc0 true (compile x_orc0 []) 1 tt None
              (coalesce (gens x_orc0 [Elem (bs "button") false false [FCond (x_e "b") [FScript (bs "onclick") (x_e "f()")] []] [] SpNone] None)))
  = [(KScript, x_e "f()"); (KBool, x_e "b")].
Proof. vm_compute. reflexivity. Qed.

(* ---------- non-vacuity: a concrete file with text, a void element, if/else-if, for, switch, attributes of every sink, a
   script element, calls with and without blocks, the children slot, an error ---------- *)
Definition x_esc (s : bytes) : bytes := flat_map (fun b => if Byte.eqb b x3c then bs "&lt;" else [b]) s.
(* environments: the stack of loop variables *)
Definition x_str (env : list bytes) (e : expr) : option bytes :=
  if bytes_eqb (e_val e) (bs "x") then Some (hd [] env) else if bytes_eqb (e_val e) (bs "boom()") then None else Some (e_val e).
Definition x_comp (e : expr) : ckind :=
  if bytes_eqb (e_val e) (bs "wrap()") then KWrap (bs "[") (bs "]") else if bytes_eqb (e_val e) (bs "ignore()") then KOpaque (bs "(i)")
  else KTempl (firstn 4 (e_val e)).
Definition x_orc : oracles (list bytes) :=
  Oracles (list bytes) x_esc x_str (fun _ e => bytes_eqb (e_val e) (bs "yes")) (fun env _ => [bs "a" :: env; bs "<b>" :: env]) (fun _ _ => 1)
          (fun _ e => e_val e) (fun _ _ => []) (fun _ e => e_val e) (fun _ e => Some (e_val e)) (fun _ e => e_val e) (fun _ _ => [])
          (fun _ _ => bs " data-s=""1""") (fun _ _ e => Some (e_val e)) x_comp (fun _ _ => [bs "callee"]).
Definition x_page : list nd :=
  [Elem (bs "p") true false [FConst (bs "id") (bs "m<n"); FCond (x_e "yes") [FBoolConst (bs "hidden")] []; FBoolExpr (bs "checked") (x_e "no")]
     [Text (bs "Hello") SpHoriz; Elem (bs "br") true true [] [] SpNone;
      If (x_e "no") [Text (bs "never") SpNone] [(x_e "yes", [Str (x_e "name") SpHoriz; Text (bs "!") SpNone])] true [Text (bs "else") SpNone];
      For (x_e "_, x := range xs") [Elem (bs "b") false false [FExpr (bs "title") (x_e "x")] [Str (x_e "x") SpNone] SpHoriz];
      Switch (x_e "k") [(x_e "case 1:", [Text (bs "one") SpNone]); (x_e "default:", [Call (x_e "Foot(1)")])];
      GoComment; Comment (bs " c ");
      Elem (bs "a") false false [FUrl (bs "href") (x_e "/u<"); FStyle (bs "style") (x_e "c:r"); FScript (bs "onclick") (x_e "f()"); FSpread (x_e "at"); FClass (bs "class") (x_e "k")] [] SpNone;
      Script [] [JText (bs "var v = "); JGo (x_e "7") (bs ";") false];
      For (x_e "_, x := range xs") [CallB (x_e "wrap()") [Str (x_e "x") SpNone; CallB (x_e "Card(x)") [Str (x_e "x") SpNone]]];
      CallB (x_e "ignore()") [Str (x_e "boom()") SpNone]] SpNone].
Definition x_tbl : list (bytes * list nd) :=
  [(bs "Foot", [Elem (bs "i") false false [] [Text (bs "foot") SpNone] SpNone]);
   (bs "Card", [Elem (bs "u") false false [] [Str (x_e "x") SpNone; Children] SpNone])].
Example C02_ex_renders :
  exec_f x_orc false (compile x_orc x_tbl) 6 [] None (coalesce (gens x_orc x_page None))
  = (bs "<p id=""m&lt;n"" hidden>Hello<br>name !<b title=""a"">a</b> <b title=""&lt;b>"">&lt;b></b> <i>foot</i><!-- c --><a href=""/u&lt;"" style=""c:r"" onclick=""f()"" data-s=""1"" class=""k""></a><script>var v = 7;</script>[a<u>calleea</u>][&lt;b><u>callee&lt;b></u>](i)</p>",
     [(KBool, x_e "yes"); (KBool, x_e "no"); (KBool, x_e "no"); (KBool, x_e "yes"); (KStr, x_e "name"); (KFor, x_e "_, x := range xs");
      (KStr, x_e "x"); (KStr, x_e "x"); (KStr, x_e "x"); (KStr, x_e "x"); (KSwitch, x_e "k"); (KCall, x_e "Foot(1)");
      (KUrl, x_e "/u<"); (KStyle, x_e "c:r"); (KScript, x_e "f()"); (KSpread, x_e "at"); (KJs, x_e "7");
      (KFor, x_e "_, x := range xs"); (KCall, x_e "wrap()"); (KStr, x_e "x"); (KCall, x_e "Card(x)"); (KStr, x_e "x"); (KStr, x_e "x");
      (KCall, x_e "wrap()"); (KStr, x_e "x"); (KCall, x_e "Card(x)"); (KStr, x_e "x"); (KStr, x_e "x"); (KCall, x_e "ignore()")], None).
Proof. vm_compute. reflexivity. Qed.
(* the children are lexical: inside Card the loop variable is the callee's ("callee"), inside the block it is the caller's *)
Example C02_ex_children_lexical :
  out_of (exec_f x_orc false (compile x_orc x_tbl) 6 [bs "outer"] None
            (coalesce (gens x_orc [CallB (x_e "Card(x)") [Str (x_e "x") SpNone]] None)))
  = bs "<u>calleeouter</u>".
Proof. vm_compute. reflexivity. Qed.
(* the literal merging really merges, and stops at control flow, calls and expression sinks *)
Example C02_ex_coalesced_shape :
  map (fun s => match s with SLit _ => 0 | SIf _ _ _ _ _ => 1 | SFor _ _ => 2 | SSwitch _ _ => 3 | SCallB _ _ => 5 | SClassHoist _ | SScriptHoist _ => 6 | _ => 4 end)
      (coalesce (gens x_orc x_page None))
  = [0; 1; 1; 0; 1; 2; 3; 0; 6; 6; 0; 4; 0; 4; 0; 4; 0; 4; 0; 4; 0; 4; 0; 2; 5; 0].
Proof. vm_compute. reflexivity. Qed.
Example C02_ex_static : static_render x_esc [Text (bs "a") SpHoriz; Elem (bs "br") true true [FBoolConst (bs "x")] [] SpNone; Text (bs "b") SpHoriz; Text (bs "c") SpNone] None
  = Some (bs "a<br x>b c").
Proof. vm_compute. reflexivity. Qed.
Example C02_ex_ws_lost_hyps : exists a b t, trail_of a = Some t /\ t <> SpNone /\ inline (Some a) = true /\ inline (Some b) = true.
Proof. exists (Text (bs "a") SpVert), (Str (x_e "s") SpNone), SpVert. repeat split; discriminate. Qed.
Example C02_ex_error :
  exec_f x_orc false (compile x_orc x_tbl) 3 [] None
    (coalesce (gens x_orc [Text (bs "before") SpHoriz; Str (x_e "boom()") SpHoriz; Text (bs "after") SpNone] None))
  = (bs "before ", [(KStr, x_e "boom()")], Some (3%N, 7%N)).
Proof. vm_compute. reflexivity. Qed.
(* an error inside a child block stops the wrapper and everything after the call *)
Example C02_ex_error_in_block :
  exec_f x_orc false (compile x_orc x_tbl) 4 [] None
    (coalesce (gens x_orc [CallB (x_e "wrap()") [Text (bs "in") SpHoriz; Str (x_e "boom()") SpNone]; Text (bs "after") SpNone] None))
  = (bs "[in ", [(KCall, x_e "wrap()"); (KStr, x_e "boom()")], Some (3%N, 7%N)).
Proof. vm_compute. reflexivity. Qed.
Example C02_ex_hoist_free : tbl_hoist_free x_tbl = true /\ forallb hoist_free [Elem (bs "p") true false [FUrl (bs "href") (x_e "u")] [Children] SpNone] = true.
Proof. split; reflexivity. Qed.

(* ---------- event handlers: the script definitions in front of an element ---------- *)
From V Require Import spec.ScriptOnce proofs.ScriptOnceProof proofs.IrFragHandlersProof.

(* every handler of an element - at any depth of conditional attributes, in either branch - is in the list handed to the ONE
   RenderScriptItems call in front of the element *)
Theorem C02_handlers_all_hoisted :
  forall (n : bytes) (e : expr) (attrs : list fattr), handler_in n e attrs -> In e (flat_map script_exprs attrs).
Proof. exact handlers_all_hoisted. Qed.
Print Assumptions C02_handlers_all_hoisted.

(* the generated code of any element writes, before the open tag, the class definitions and then what RenderScriptItems
   writes for all those expressions; the tag and the attributes follow *)
Theorem C02_elem_defs_in_front :
  forall (E : Type) (orc : oracles E) (tbl : list (bytes * list nd)) (fuel : nat) (env : E) (kids : option (dblock E))
         (name : bytes) (b void : bool) (attrs : list fattr) (ch : list nd) (t : trailing) (next : option nd),
  exists rest,
    exec_f orc false (compile orc tbl) fuel env (option_map (compile_blk orc) kids) (coalesce (gens orc [Elem name b void attrs ch t] next))
    = andthen (css_defs orc env attrs)
        (andthen (script_defs orc env (flat_map script_exprs attrs))
          (andthen (lit (open_tag orc name)) (andthen (dattrs orc false env attrs) rest))).
Proof. exact elem_defs_in_front. Qed.
Print Assumptions C02_elem_defs_in_front.

(* what the calls write: a render context defines each script name once, at its first hoist.  The renderers carry the item
   lists in-band; the pass that finishes the document computes exactly the registry semantics [run] *)
Theorem C02_script_defs_once :
  forall ps : list piece, forallb piece_ok ps = true -> resolve_doc (enc ps) = run [] ps.
Proof. exact resolve_doc_enc. Qed.
Print Assumptions C02_script_defs_once.

(* hence in the document rendered up to and including a hoist, the Function of every script of that hoist is present (when
   a name stands for one function): no handler attribute calls a function the document has not defined *)
Theorem C02_hoisted_script_defined :
  forall (a : list piece) (l : list sitem) (n f : bytes),
    consistent (items_of (a ++ [PHoist l])) -> In (n, f) l -> infix f (run [] (a ++ [PHoist l])).
Proof. exact hoisted_defined. Qed.
Print Assumptions C02_hoisted_script_defined.

(* non-vacuity: <button if primary { onclick={ save(id) } } else { onclick={ cancel(id) } }>OK</button> rendered with
   primary = false under the probe oracles: both functions are defined in front of the button (the else branch calls
   cancel); a second button in the same context defines nothing again *)
Definition z_btn : nd :=
  Elem (bs "button") false false
    [FCond (y_e "primary") [FScript (bs "onclick") (y_e "save(id)")] [FScript (bs "onclick") (y_e "cancel(id)")]] [Text (bs "OK") SpNone] SpNone.
Definition z_env : Denote.env :=
  [(bs "primary", VBool false);
   (bs "script-call:save(id)", VStr (bs "S(1)")); (bs "script-name:save(id)", VStr (bs "S")); (bs "script-fn:save(id)", VStr (bs "function S(a){}"));
   (bs "script-call:cancel(id)", VStr (bs "C(1)")); (bs "script-name:cancel(id)", VStr (bs "C")); (bs "script-fn:cancel(id)", VStr (bs "function C(a){}"))].
Example C02_ex_handlers :
  handler_in (bs "onclick") (y_e "cancel(id)")
    [FCond (y_e "primary") [FScript (bs "onclick") (y_e "save(id)")] [FScript (bs "onclick") (y_e "cancel(id)")]] /\
  out_of (resolve_res (denote_f fr_orc false [] 5 z_env None [z_btn; z_btn] None))
  = bs "<script>function S(a){}function C(a){}</script><button onclick=""C(1)"">OK</button><button onclick=""C(1)"">OK</button>" /\
  out_of (resolve_res (exec_f fr_orc false (compile fr_orc []) 5 z_env None (coalesce (gens fr_orc [z_btn; z_btn] None))))
  = out_of (resolve_res (denote_f fr_orc false [] 5 z_env None [z_btn; z_btn] None)).
Proof. split; [apply HI_else, HI_here|]. split; vm_compute; reflexivity. Qed.
Example C02_ex_script_once :
  forallb piece_ok [PBytes (bs "<p>"); PHoist [(bs "S", bs "fS"); (bs "E", [])]; PBytes (bs "<b>"); PHoist [(bs "C", bs "fC"); (bs "S", bs "fS")]; PHoist [(bs "E", [])]] = true /\
  resolve_doc (enc [PBytes (bs "<p>"); PHoist [(bs "S", bs "fS"); (bs "E", [])]; PBytes (bs "<b>"); PHoist [(bs "C", bs "fC"); (bs "S", bs "fS")]; PHoist [(bs "E", [])]])
  = bs "<p><script>fS</script><b><script>fC</script>".
Proof. split; vm_compute; reflexivity. Qed.

(* ---------- the variable counter of the WHOLE generator model (model/Gen.v, tied to generator.Generate byte for
   byte on every run) ---------- *)
From V Require Import model.Gen proofs.GenAddsProof proofs.GenLitProof proofs.GenFreshProof proofs.GenSinkProof.

(* fresh_vars.  For every file and from every state the variable counter only goes up; with_var (the only place a
   name is made, with its inlined copy in writeAttributesCSS) runs its continuation with the counter at the NEXT
   number and hands it the name of that number, so the counter is strictly above every earlier value; and the names of
   different numbers are different byte strings.  Hence no generated variable name is handed out twice in a run. *)
Theorem C02_fresh_vars :
  (forall (f : file) (g : Gen.gst), Gen.vid g <= Gen.vid (Gen.gen_all f g)) /\
  (forall (k : bytes -> Gen.M) (g : Gen.gst),
     Gen.with_var k g = k (vname (S (Gen.vid g))) (Gen.set_vid (S (Gen.vid g)) g) /\ Gen.vid (Gen.set_vid (S (Gen.vid g)) g) = S (Gen.vid g)) /\
  (forall k : bytes -> Gen.M, (forall (v : bytes) (g : Gen.gst), Gen.vid g <= Gen.vid (k v g)) ->
     forall g : Gen.gst, Gen.vid g < Gen.vid (Gen.with_var k g)) /\
  (forall a b : nat, vname a = vname b -> a = b).
Proof. exact (conj vid_monotone (conj with_var_next (conj with_var_strict vname_inj))). Qed.
Print Assumptions C02_fresh_vars.

(* the same at the level of what is emitted: the run of the generator on any file is the replay of a list of write
   operations of the shape  gap, group of Var1, gap, group of Var2, ..., group of VarN, tail  (N = final counter),
   where group k is one of the eight declaration groups of model/Gen.v for the name templ_7745c5c3_Var<k> and no
   WriteIndent in a gap or in the tail starts with templ_7745c5c3_Var or var templ_7745c5c3_Var:
   the numbers are declared once each, consecutively, in emission order. *)
Theorem C02_fresh_vars_emitted : forall (fn : bytes) (f : file),
  exists l : list op, same (gen_state fn f) (replay l (g_init fn)) /\ vseq 0 (Gen.vid (gen_state fn f)) l.
Proof. exact fresh_vars_ops. Qed.
Print Assumptions C02_fresh_vars_emitted.

Example C02_ex_fresh_vars :
  vname 3 = bs "templ_7745c5c3_Var3" /\ Gen.vid (gen_state (bs "t.templ") lit_file) = 3 /\
  is_varline (bs "var templ_7745c5c3_Var3 string") = true /\ is_varline (bs "templ_7745c5c3_Err = nil") = false.
Proof. repeat split; vm_compute; reflexivity. Qed.

(* ================= static markup of template files that are NOT valid UTF-8 ================= *)
From V Require model.Quote model.QuoteGo.
From V Require Import proofs.IrFragQuoteProof.

(* static_bytes_any.  The parser takes a template as bytes; a Latin-1 file, a lone continuation byte, a truncated, overlong or
   surrogate form are accepted by `templ generate`, and what the template denotes is those bytes.  The fragment printer
   (model/IrFragPrint.v: plit, text-tied to generator.Generate on every run, also on such files) writes a static run s as the
   Go literal body [fquote s] = strconv.Quote of model/Quote.v.  For EVERY byte string s: the literal reads back (strconv.Unquote -
   the value the Go compiler gives it) as exactly s, holds no raw newline, and scans as one literal. *)
Theorem C02_static_literal_reads_back : forall s : bytes,
  Quote.unquote (fquote s) = Some s /\ Quote.scan_ok (fquote s) = true /\ Quote.no_byte x0a (fquote s) = true.
Proof. exact fquote_reads_back. Qed.
Print Assumptions C02_static_literal_reads_back.

(* fquote takes every non-ASCII code point as printable (strconv.IsPrint is an oracle).  It IS strconv.Quote for any IsPrint table
   that is right on ASCII and holds of the WELL-FORMED non-ASCII characters of s, whatever ill-formed bytes stand between them -
   in particular for Go's own table (gen/Tables16.v); and on well-formed UTF-8 it is Gen.qesc, the quoting of the whole-generator
   model (whose literal theorems C16_generated_literals_roundtrip / C16_qesc_is_quote carry the guard [printable], which
   implies well-formed UTF-8: Gen.qesc hands an ill-formed byte through as it is). *)
Theorem C02_static_literal_is_strconv_quote :
  (forall ip : N -> bool, ascii_print_ok ip -> forall s : bytes, wf_printable ip s = true -> Quote.quote ip s = fquote s) /\
  (forall s : bytes, wf_printable QuoteGo.go_is_print s = true -> QuoteGo.go_quote s = fquote s) /\
  (forall s : bytes, Quote.valid_utf8 s = true -> fquote s = Gen.qesc s).
Proof. exact (conj fquote_is_quote (conj fquote_is_go_quote fquote_wellformed)). Qed.
Print Assumptions C02_static_literal_is_strconv_quote.

(* The generator quotes each piece on its own (escapeQuotes per text node, attribute value, doctype; format-string text around
   them) and RangeWriter concatenates the quoted texts; the fragment generator merges the pieces (coalesce) and the printer quotes
   the merged run.  Same text whenever every boundary has a byte below 0x80 on one side (static pieces are delimited by ASCII
   markup; a text node is followed by markup, a space, or a statement that closes the literal). *)
Theorem C02_quote_merged_pieces : forall (ip : N -> bool) (ps : list bytes),
  chain_ok ps = true -> Quote.quote ip (concat ps) = concat (map (Quote.quote ip) ps).
Proof. exact quote_concat. Qed.
Print Assumptions C02_quote_merged_pieces.

(* why the \x escapes are needed: the Latin-1 byte E9 handed to the Go file as it is reads back as U+FFFD (EF BF BD), not as E9;
   and the boundary condition of C02_quote_merged_pieces cannot be dropped *)
Example C02_ex_raw_byte_not_preserved :
  Gen.qesc [xe9] = [xe9] /\ Quote.unquote (Gen.qesc [xe9]) = Some [xef; xbf; xbd] /\ fquote [xe9] = bs "\xe9" /\ Quote.unquote (fquote [xe9]) = Some [xe9].
Proof. exact raw_byte_not_preserved. Qed.
Example C02_ex_quote_split_sequence :
  Quote.quote frag_is_print ([xc3] ++ [xa9]) = [xc3; xa9] /\ Quote.quote frag_is_print [xc3] ++ Quote.quote frag_is_print [xa9] = bs "\xc3\xa9".
Proof. exact quote_split_sequence. Qed.

From V Require Import spec.SrcText model.SrcTextParse proofs.SrcTextProof.

(* ---- from the SOURCE BYTES: a one-line run of static text in an element (spec/SrcText.v, model/SrcTextParse.v) ----
   Every statement above starts from the tree the parser built.  This layer starts from the bytes of the file, on the fragment
   [in_frag] (content T of `<p>T</p>`: no markup / templ syntax / line terminator, goes on after its leading white space with an
   upper-case letter, a digit or a byte above 0x7f, holds a visible ASCII character).  [doc_spec]: the leading run of ASCII white
   space is dropped, every other byte of the source stands in the document as it is.  [doc_code]: what parser/v2 +
   generator do (whitespaceExpression's run is decided by a-h/parse byte by byte with rune(byte): 09..0D, 20, 85, A0).
   The harness (family "source text") compares the compiled render of every generated T with [doc_code] (correspondence) and with
   [doc_spec] (property).  The full statement "doc_code T = doc_spec T on the fragment" is FALSE of the faithful model: *)
Theorem C02_source_text_rendered_as_written_refuted :
  exists T : bytes, in_frag T = true /\ doc_code T <> doc_spec T.
Proof.
  exists SrcTextProof.wit. split; [exact (proj1 srctext_refuted)|].
  destruct srctext_refuted as [_ [Hs Hc]]. rewrite Hs, Hc. intros E. vm_compute in E. discriminate.
Qed.
Print Assumptions C02_source_text_rendered_as_written_refuted.

(* ... and true exactly where the first byte that is not ASCII white space is neither 85 nor A0 (a necessary AND sufficient
   guard: every other T of the fragment renders its source bytes; every T that fails it renders another document) *)
Theorem C02_source_text_rendered_as_written_partial : forall T : bytes, in_frag T = true ->
  (doc_code T = doc_spec T <-> no_byte_space_lead T = true).
Proof. exact doc_exact. Qed.
Print Assumptions C02_source_text_rendered_as_written_partial.

Example C02_ex_source_text_witness :
  in_frag SrcTextProof.wit = true /\ doc_spec SrcTextProof.wit = bs "<p>" ++ [x85] ++ bs "And so on</p>" /\ doc_code SrcTextProof.wit = bs "<p>And so on</p>".
Proof. exact srctext_refuted. Qed.
Example C02_ex_source_text_nonvacuous : let T := bs "  " ++ [xc9] ++ bs "t" ++ [xe9; x85; xa0] ++ bs " 2024 " in
  in_frag T = true /\ no_byte_space_lead T = true /\ doc_code T = bs "<p>" ++ [xc9] ++ bs "t" ++ [xe9; x85; xa0] ++ bs " 2024 </p>".
Proof. exact srctext_nonvacuous. Qed.

(* several lines: the content `\nL1\n...\nLn\n<indentation>` of `<p>...</p>`, every Li a line of the fragment (its indentation is its
   leading white space).  [doc_spec_lines]: a line break with the white space after it is one space between two lines, nothing at
   the edges; every other byte as it stands.  [doc_code_lines]: the leading run of a later line is taken as the trailing space of
   the text in front of it - byte-wise, 85 and A0 included.  Again an exact guard: the documents are equal iff NO line has a byte
   85 / A0 first after its ASCII white space. *)
Theorem C02_source_lines_rendered_as_written_partial : forall Ls : list bytes, (forall L, In L Ls -> in_frag L = true) ->
  (doc_code_lines Ls = doc_spec_lines Ls <-> forall L, In L Ls -> no_byte_space_lead L = true).
Proof. exact lines_exact. Qed.
Print Assumptions C02_source_lines_rendered_as_written_partial.

Example C02_ex_source_lines_witness : let Ls := [bs "  A la carte  "; [x09; xa0] ++ bs "5 EUR"; bs "Fin"] in
  forallb in_frag Ls = true /\ doc_spec_lines Ls = bs "<p>A la carte   " ++ [xa0] ++ bs "5 EUR Fin</p>" /\ doc_code_lines Ls = bs "<p>A la carte   5 EUR Fin</p>".
Proof. exact srctext_lines_witness. Qed.

(* ... and in ANY static context: [pre] / [post] are whatever markup stands in front of the first and behind the last line (an
   element's start and end tag with constant attributes; nothing at all when the lines are the body of a template) *)
Theorem C02_source_lines_any_context_partial : forall (pre post : bytes) (Ls : list bytes), (forall L, In L Ls -> in_frag L = true) ->
  (ctx_code_lines pre post Ls = ctx_spec_lines pre post Ls <-> forall L, In L Ls -> no_byte_space_lead L = true).
Proof. exact ctx_lines_exact. Qed.
Print Assumptions C02_source_lines_any_context_partial.
