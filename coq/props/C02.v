(* C02 - generated code compiles and renders exactly what the template denotes.
   Proof layer on a fragment of the language (model/IrFrag.v): whitespace, text, string expressions with errors,
   elements incl. void ones, constant / boolean-constant / string-expression / boolean-expression / class-expression /
   conditional attributes, raw elements, doctype, HTML and Go comments, raw Go code, if/else-if/else, switch, for, and
   calls (without blocks) of other templates of the file on fuel.  Every theorem holds for ANY expression semantics
   (the oracles are universally quantified) and for every tree of the fragment.  [exec_f (compile tbl)] is the meaning
   of the statements the generator emits after RangeWriter's literal merging [coalesce]; [denote_f tbl] is what the
   templates denote; results are (output bytes, evaluation trace, error position).
   The harness (family "fragment") checks on every run that the printed statements are byte for byte the text of
   generator.Generate and that the compiled code renders what exec/denote say.
   [tc] = whether the trace records evaluations of class expressions: these are hoisted in front of the element by
   writeAttributesCSS, so the full trace (tc = true) agrees only on trees without class expressions
   (C02_eval_only_where_reached_partial, C02_eval_hoisting_refuted); with tc = false everything else is compared. *)
From Coq.Strings Require Import Byte String.
From Coq Require Import List Arith NArith Bool.
Import ListNotations.
From V Require Import lib.Bytes model.Ast model.IrFrag proofs.IrFragProof.
Local Open Scope nat_scope.

(* the generated, literal-merged code of a file writes exactly what its templates denote: output bytes, error position (nothing runs after an error), and the evaluation trace of every expression other than hoisted class lists; any call depth *)
Theorem C02_generated_code_correct :
  forall (E : Type) (escape : bytes -> bytes) (eval_str : E -> expr -> option bytes) (eval_bool : E -> expr -> bool)
    (eval_for : E -> expr -> list E) (eval_sw : E -> expr -> nat) (eval_class : E -> expr -> bytes) (callee : expr -> bytes) (call_env : E -> expr -> E)
    (tbl : list (bytes * list nd)) (fuel : nat) (env : E) (l : list nd) (next : option nd),
    exec_f E escape eval_str eval_bool eval_for eval_sw eval_class callee call_env false (compile escape tbl) fuel env
      (coalesce (gens escape l next))
    = denote_f E escape eval_str eval_bool eval_for eval_sw eval_class callee call_env false tbl fuel env l next.
Proof. intros. apply generated_code_correct; exact (or_introl eq_refl). Qed.
Print Assumptions C02_generated_code_correct.

(* merging adjacent literals into one WriteString (RangeWriter) never changes what runs: no byte moves across an expression, a call or a control-flow boundary, under any expression semantics *)
Theorem C02_coalesce_sound :
  forall (E : Type) (escape : bytes -> bytes) (eval_str : E -> expr -> option bytes) (eval_bool : E -> expr -> bool)
    (eval_for : E -> expr -> list E) (eval_sw : E -> expr -> nat) (eval_class : E -> expr -> bytes) (call : E -> expr -> res) (env : E) (tc : bool) (p : list stmt),
    exec E escape eval_str eval_bool eval_for eval_sw eval_class tc call env (coalesce p) = exec E escape eval_str eval_bool eval_for eval_sw eval_class tc call env p.
Proof. intros. apply coalesce_sound. Qed.
Print Assumptions C02_coalesce_sound.

(* static markup (text, whitespace, doctype, comments, elements and raw elements with constant attributes, nested) is written in source order with the trailing-space rule between neighbours, and nothing else *)
Theorem C02_static_in_order :
  forall (E : Type) (escape : bytes -> bytes) (eval_str : E -> expr -> option bytes) (eval_bool : E -> expr -> bool)
    (eval_for : E -> expr -> list E) (eval_sw : E -> expr -> nat) (eval_class : E -> expr -> bytes) (callee : expr -> bytes) (call_env : E -> expr -> E)
    (tbl : list (bytes * list nd)) (fuel : nat) (env : E) (l : list nd) (next : option nd) (s : bytes),
    static_render escape l next = Some s ->
    exec_f E escape eval_str eval_bool eval_for eval_sw eval_class callee call_env false (compile escape tbl) fuel env
      (coalesce (gens escape l next)) = lit s.
Proof. intros. apply static_in_order; [exact (or_introl eq_refl)|assumption]. Qed.
Print Assumptions C02_static_in_order.

(* a node list renders as its parts in source order (and, by the error rule of andthen, nothing of b runs when a failed) *)
Theorem C02_nodes_in_order :
  forall (E : Type) (escape : bytes -> bytes) (eval_str : E -> expr -> option bytes) (eval_bool : E -> expr -> bool)
    (eval_for : E -> expr -> list E) (eval_sw : E -> expr -> nat) (eval_class : E -> expr -> bytes) (callee : expr -> bytes) (call_env : E -> expr -> E)
    (tbl : list (bytes * list nd)) (fuel : nat) (env : E) (a b : list nd) (next : option nd),
    exec_f E escape eval_str eval_bool eval_for eval_sw eval_class callee call_env false (compile escape tbl) fuel env
      (coalesce (gens escape (a ++ b) next))
    = andthen (denote_f E escape eval_str eval_bool eval_for eval_sw eval_class callee call_env false tbl fuel env a (next_of b next))
              (denote_f E escape eval_str eval_bool eval_for eval_sw eval_class callee call_env false tbl fuel env b next).
Proof. intros. apply nodes_in_order; exact (or_introl eq_refl). Qed.
Print Assumptions C02_nodes_in_order.

(* a void element is written as its open tag only: no children, no closing tag *)
Theorem C02_void_unclosed :
  forall (E : Type) (escape : bytes -> bytes) (eval_str : E -> expr -> option bytes) (eval_bool : E -> expr -> bool)
    (eval_for : E -> expr -> list E) (eval_sw : E -> expr -> nat) (eval_class : E -> expr -> bytes) (callee : expr -> bytes) (call_env : E -> expr -> E)
    (tbl : list (bytes * list nd)) (fuel : nat) (env : E) (name : bytes) (b : bool) (attrs : list fattr) (t : trailing) (next : option nd),
    exec_f E escape eval_str eval_bool eval_for eval_sw eval_class callee call_env false (compile escape tbl) fuel env
      (coalesce (gens escape [Elem name b true attrs [] t] next))
    = andthen (lit (open_tag escape name))
        (andthen (dattrs E escape eval_str eval_bool eval_class false env attrs) (lit ([x3e] ++ trailer (Elem name b true attrs [] t) next))).
Proof. intros. apply void_unclosed; exact (or_introl eq_refl). Qed.
Print Assumptions C02_void_unclosed.

(* a Go comment contributes nothing: the list renders as what precedes it followed by what follows it (it only counts as a non-inline neighbour for the trailing-space rule) *)
Theorem C02_go_comments_omitted :
  forall (E : Type) (escape : bytes -> bytes) (eval_str : E -> expr -> option bytes) (eval_bool : E -> expr -> bool)
    (eval_for : E -> expr -> list E) (eval_sw : E -> expr -> nat) (eval_class : E -> expr -> bytes) (callee : expr -> bytes) (call_env : E -> expr -> E)
    (tbl : list (bytes * list nd)) (fuel : nat) (env : E) (a b : list nd) (next : option nd),
    exec_f E escape eval_str eval_bool eval_for eval_sw eval_class callee call_env false (compile escape tbl) fuel env
      (coalesce (gens escape (a ++ GoComment :: b) next))
    = andthen (denote_f E escape eval_str eval_bool eval_for eval_sw eval_class callee call_env false tbl fuel env a (Some GoComment))
              (denote_f E escape eval_str eval_bool eval_for eval_sw eval_class callee call_env false tbl fuel env b next).
Proof. intros. apply go_comments_omitted; exact (or_introl eq_refl). Qed.
Print Assumptions C02_go_comments_omitted.

(* the attributes under a conditional attribute are present exactly when its condition holds (else-branch otherwise); the condition is evaluated once *)
Theorem C02_cond_attrs_iff :
  forall (E : Type) (escape : bytes -> bytes) (eval_str : E -> expr -> option bytes) (eval_bool : E -> expr -> bool)
    (eval_for : E -> expr -> list E) (eval_sw : E -> expr -> nat) (eval_class : E -> expr -> bytes) (call : E -> expr -> res) (env : E) (elem : bytes) (c : expr) (th el : list fattr),
    exec E escape eval_str eval_bool eval_for eval_sw eval_class false call env (coalesce (gattrs escape elem [FCond c th el]))
    = andthen (evt KBool c) (dattrs E escape eval_str eval_bool eval_class false env (if eval_bool env c then th else el)).
Proof. intros. apply cond_attrs_iff; exact (or_introl eq_refl). Qed.
Print Assumptions C02_cond_attrs_iff.

(* a boolean-expression attribute is present exactly when its expression is true *)
Theorem C02_bool_attr_iff :
  forall (E : Type) (escape : bytes -> bytes) (eval_str : E -> expr -> option bytes) (eval_bool : E -> expr -> bool)
    (eval_for : E -> expr -> list E) (eval_sw : E -> expr -> nat) (eval_class : E -> expr -> bytes) (call : E -> expr -> res) (env : E) (elem n : bytes) (e : expr),
    exec E escape eval_str eval_bool eval_for eval_sw eval_class false call env (coalesce (gattrs escape elem [FBoolExpr n e]))
    = andthen (evt KBool e) (if eval_bool env e then lit ([x20] ++ escape n) else unit_r).
Proof. intros. apply bool_attr_iff. Qed.
Print Assumptions C02_bool_attr_iff.

(* a string-expression attribute writes name="escaped value", evaluating the expression once *)
Theorem C02_attr_value_escaped :
  forall (E : Type) (escape : bytes -> bytes) (eval_str : E -> expr -> option bytes) (eval_bool : E -> expr -> bool)
    (eval_for : E -> expr -> list E) (eval_sw : E -> expr -> nat) (eval_class : E -> expr -> bytes) (call : E -> expr -> res) (env : E) (elem n : bytes) (e : expr) (s : bytes),
    eval_str env e = Some s ->
    exec E escape eval_str eval_bool eval_for eval_sw eval_class false call env (coalesce (gattrs escape elem [FExpr n e]))
    = ([x20] ++ escape n ++ [x3d; x22] ++ escape s ++ [x22], [(KStr, e)], None).
Proof. intros. apply attr_value_escaped; assumption. Qed.
Print Assumptions C02_attr_value_escaped.

(* adjacent siblings of which the first has TrailingSpace none: no byte between their renderings *)
Theorem C02_ws_not_invented :
  forall (E : Type) (escape : bytes -> bytes) (eval_str : E -> expr -> option bytes) (eval_bool : E -> expr -> bool)
    (eval_for : E -> expr -> list E) (eval_sw : E -> expr -> nat) (eval_class : E -> expr -> bytes) (callee : expr -> bytes) (call_env : E -> expr -> E)
    (tbl : list (bytes * list nd)) (fuel : nat) (env : E) (a b : nd) (next : option nd),
    trail_of a = Some SpNone ->
    exec_f E escape eval_str eval_bool eval_for eval_sw eval_class callee call_env false (compile escape tbl) fuel env
      (coalesce (gens escape [a; b] next))
    = andthen (denote_f E escape eval_str eval_bool eval_for eval_sw eval_class callee call_env false tbl fuel env [a] None)
              (denote_f E escape eval_str eval_bool eval_for eval_sw eval_class callee call_env false tbl fuel env [b] next).
Proof. intros. apply ws_not_invented; try exact (or_introl eq_refl); assumption. Qed.
Print Assumptions C02_ws_not_invented.

(* adjacent inline-or-text siblings with a non-empty trailing space are separated by exactly one space *)
Theorem C02_ws_not_lost :
  forall (E : Type) (escape : bytes -> bytes) (eval_str : E -> expr -> option bytes) (eval_bool : E -> expr -> bool)
    (eval_for : E -> expr -> list E) (eval_sw : E -> expr -> nat) (eval_class : E -> expr -> bytes) (callee : expr -> bytes) (call_env : E -> expr -> E)
    (tbl : list (bytes * list nd)) (fuel : nat) (env : E) (a b : nd) (next : option nd) (t : trailing),
    trail_of a = Some t -> t <> SpNone -> inline (Some a) = true -> inline (Some b) = true ->
    exec_f E escape eval_str eval_bool eval_for eval_sw eval_class callee call_env false (compile escape tbl) fuel env
      (coalesce (gens escape [a; b] next))
    = andthen (denote_f E escape eval_str eval_bool eval_for eval_sw eval_class callee call_env false tbl fuel env [a] None)
        (andthen (lit [x20]) (denote_f E escape eval_str eval_bool eval_for eval_sw eval_class callee call_env false tbl fuel env [b] next)).
Proof. intros. eapply ws_not_lost; try exact (or_introl eq_refl); eassumption. Qed.
Print Assumptions C02_ws_not_lost.

(* ... and no space is written when one of the two neighbours is not inline content (block element, comment, call, ...), whatever the source spacing *)
Theorem C02_ws_block_no_space :
  forall (E : Type) (escape : bytes -> bytes) (eval_str : E -> expr -> option bytes) (eval_bool : E -> expr -> bool)
    (eval_for : E -> expr -> list E) (eval_sw : E -> expr -> nat) (eval_class : E -> expr -> bytes) (callee : expr -> bytes) (call_env : E -> expr -> E)
    (tbl : list (bytes * list nd)) (fuel : nat) (env : E) (a b : nd) (next : option nd),
    inline (Some a) && inline (Some b) = false -> (exists t, trail_of a = Some t) ->
    exec_f E escape eval_str eval_bool eval_for eval_sw eval_class callee call_env false (compile escape tbl) fuel env
      (coalesce (gens escape [a; b] next))
    = andthen (denote_f E escape eval_str eval_bool eval_for eval_sw eval_class callee call_env false tbl fuel env [a] None)
              (denote_f E escape eval_str eval_bool eval_for eval_sw eval_class callee call_env false tbl fuel env [b] next).
Proof. intros. apply ws_block_no_space; try exact (or_introl eq_refl); assumption. Qed.
Print Assumptions C02_ws_block_no_space.

(* a string expression that returns an error stops the rendering with templ.Error{Line: to.line + 1, Col: to.col} and writes nothing *)
Theorem C02_error_position :
  forall (E : Type) (escape : bytes -> bytes) (eval_str : E -> expr -> option bytes) (eval_bool : E -> expr -> bool)
    (eval_for : E -> expr -> list E) (eval_sw : E -> expr -> nat) (eval_class : E -> expr -> bytes) (callee : expr -> bytes) (call_env : E -> expr -> E)
    (tbl : list (bytes * list nd)) (fuel : nat) (env : E) (e : expr) (t : trailing) (next : option nd),
    eval_str env e = None ->
    exec_f E escape eval_str eval_bool eval_for eval_sw eval_class callee call_env false (compile escape tbl) fuel env
      (coalesce (gens escape [Str e t] next))
    = ([], [(KStr, e)], Some (epos_of e)).
Proof. intros. apply str_error; assumption. Qed.
Print Assumptions C02_error_position.

(* statements after an error do not run (the generated `if templ_7745c5c3_Err != nil { return ... }`) *)
Theorem C02_error_stops :
  forall (E : Type) (escape : bytes -> bytes) (eval_str : E -> expr -> option bytes) (eval_bool : E -> expr -> bool)
    (eval_for : E -> expr -> list E) (eval_sw : E -> expr -> nat) (eval_class : E -> expr -> bytes) (call : E -> expr -> res) (env : E) (tc : bool) (p q : list stmt),
    err_of (exec E escape eval_str eval_bool eval_for eval_sw eval_class tc call env p) <> None ->
    exec E escape eval_str eval_bool eval_for eval_sw eval_class tc call env (p ++ q) = exec E escape eval_str eval_bool eval_for eval_sw eval_class tc call env p.
Proof. intros. apply error_stops; assumption. Qed.
Print Assumptions C02_error_stops.

(* the evaluation trace of the generated code (class expressions recorded too) is the trace of the denotation - expressions on the taken path, once, in source order - for files without class-expression attributes.  Full statement (no guard) is false: C02_eval_hoisting_refuted.  Without the guard the same holds for every expression other than class lists: C02_generated_code_correct *)
Theorem C02_eval_only_where_reached_partial :
  forall (E : Type) (escape : bytes -> bytes) (eval_str : E -> expr -> option bytes) (eval_bool : E -> expr -> bool)
    (eval_for : E -> expr -> list E) (eval_sw : E -> expr -> nat) (eval_class : E -> expr -> bytes) (callee : expr -> bytes) (call_env : E -> expr -> E)
    (tbl : list (bytes * list nd)) (fuel : nat) (env : E) (l : list nd) (next : option nd),
    tbl_hoist_free tbl = true -> forallb hoist_free l = true ->
    trace_of (exec_f E escape eval_str eval_bool eval_for eval_sw eval_class callee call_env true (compile escape tbl) fuel env
      (coalesce (gens escape l next)))
    = trace_of (denote_f E escape eval_str eval_bool eval_for eval_sw eval_class callee call_env true tbl fuel env l next).
Proof. intros. apply eval_only_where_reached; right; assumption. Qed.
Print Assumptions C02_eval_only_where_reached_partial.

(* an if whose condition is false evaluates the condition and nothing of its body, whatever the body contains *)
Theorem C02_untaken_branch_silent :
  forall (E : Type) (escape : bytes -> bytes) (eval_str : E -> expr -> option bytes) (eval_bool : E -> expr -> bool)
    (eval_for : E -> expr -> list E) (eval_sw : E -> expr -> nat) (eval_class : E -> expr -> bytes) (callee : expr -> bytes) (call_env : E -> expr -> E)
    (tbl : list (bytes * list nd)) (fuel : nat) (env : E) (tc : bool) (c : expr) (th : list nd) (next : option nd),
    eval_bool env c = false ->
    exec_f E escape eval_str eval_bool eval_for eval_sw eval_class callee call_env tc (compile escape tbl) fuel env
      (coalesce (gens escape [If c th [] false []] next)) = evt KBool c.
Proof. intros. apply untaken_branch_silent; assumption. Qed.
Print Assumptions C02_untaken_branch_silent.

(* ---------- the hoisting finding (DESIGN 5 C02 "Current tree", 6 row 13) at the model level ----------
   <div if b { class={ c } }> with b false: the generated code evaluates c in front of the element
   (writeAttributesCSS), the template does not reach it.  In Go, c = p.Class with p == nil panics. *)
Definition x_e (s : string) : expr := {| e_val := bs s; e_fi := 0%N; e_fl := 0%N; e_fc := 0%N; e_ti := 0%N; e_tl := 2%N; e_tc := 7%N |}.
Definition x_div_cond_class : list nd :=
  [Elem (bs "div") true false [FCond (x_e "p != nil") [FClass (bs "class") (x_e "p.Class")] []] [] SpNone].
Theorem C02_eval_hoisting_refuted :
  exists (l : list nd),
    trace_of (exec_f unit (fun s => s) (fun _ _ => Some []) (fun _ _ => false) (fun _ _ => []) (fun _ _ => 0) (fun _ _ => []) (fun e => e_val e) (fun u _ => u) true
                (compile (fun s => s) []) 1 tt (coalesce (gens (fun s => s) l None)))
    <> trace_of (denote_f unit (fun s => s) (fun _ _ => Some []) (fun _ _ => false) (fun _ _ => []) (fun _ _ => 0) (fun _ _ => []) (fun e => e_val e) (fun u _ => u) true
                [] 1 tt l None).
Proof. exists x_div_cond_class. vm_compute. discriminate. Qed.
Print Assumptions C02_eval_hoisting_refuted.
Example C02_ex_hoisted_trace :
  trace_of (exec_f unit (fun s => s) (fun _ _ => Some []) (fun _ _ => false) (fun _ _ => []) (fun _ _ => 0) (fun _ _ => []) (fun e => e_val e) (fun u _ => u) true
              (compile (fun s => s) []) 1 tt (coalesce (gens (fun s => s) x_div_cond_class None)))
  = [(KClass, x_e "p.Class"); (KBool, x_e "p != nil")].
Proof. vm_compute. reflexivity. Qed.
Example C02_ex_denoted_trace :
  trace_of (denote_f unit (fun s => s) (fun _ _ => Some []) (fun _ _ => false) (fun _ _ => []) (fun _ _ => 0) (fun _ _ => []) (fun e => e_val e) (fun u _ => u) true
              [] 1 tt x_div_cond_class None)
  = [(KBool, x_e "p != nil")].
Proof. vm_compute. reflexivity. Qed.

(* ---------- non-vacuity: a concrete file with text, a void element, if/else-if, for, switch, attributes, a call, an error ---------- *)
Definition x_esc (s : bytes) : bytes := flat_map (fun b => if Byte.eqb b x3c then bs "&lt;" else [b]) s.
(* environments: the stack of loop variables *)
Definition x_str (env : list bytes) (e : expr) : option bytes :=
  if bytes_eqb (e_val e) (bs "x") then Some (hd [] env) else if bytes_eqb (e_val e) (bs "boom()") then None else Some (e_val e).
Definition x_bool (env : list bytes) (e : expr) : bool := bytes_eqb (e_val e) (bs "yes").
Definition x_for (env : list bytes) (e : expr) : list (list bytes) := [bs "a" :: env; bs "<b>" :: env].
Definition x_sw (env : list bytes) (e : expr) : nat := 1.
Definition x_callee (e : expr) : bytes := firstn 4 (e_val e).
Definition x_page : list nd :=
  [Elem (bs "p") true false [FConst (bs "id") (bs "m<n"); FCond (x_e "yes") [FBoolConst (bs "hidden")] []; FBoolExpr (bs "checked") (x_e "no")]
     [Text (bs "Hello") SpHoriz; Elem (bs "br") true true [] [] SpNone;
      If (x_e "no") [Text (bs "never") SpNone] [(x_e "yes", [Str (x_e "name") SpHoriz; Text (bs "!") SpNone])] true [Text (bs "else") SpNone];
      For (x_e "_, x := range xs") [Elem (bs "b") false false [FExpr (bs "title") (x_e "x")] [Str (x_e "x") SpNone] SpHoriz];
      Switch (x_e "k") [(x_e "case 1:", [Text (bs "one") SpNone]); (x_e "default:", [Call (x_e "Foot(1)")])];
      GoComment; Comment (bs " c ")] SpNone].
Definition x_tbl : list (bytes * list nd) := [(bs "Foot", [Elem (bs "i") false false [] [Text (bs "foot") SpNone] SpNone])].
Example C02_ex_renders :
  exec_f (list bytes) x_esc x_str x_bool x_for x_sw (fun _ _ => []) x_callee (fun env _ => env) false (compile x_esc x_tbl) 3 []
    (coalesce (gens x_esc x_page None))
  = (bs "<p id=""m&lt;n"" hidden>Hello<br>name !<b title=""a"">a</b> <b title=""&lt;b>"">&lt;b></b> <i>foot</i><!-- c --></p>",
     [(KBool, x_e "yes"); (KBool, x_e "no"); (KBool, x_e "no"); (KBool, x_e "yes"); (KStr, x_e "name"); (KFor, x_e "_, x := range xs");
      (KStr, x_e "x"); (KStr, x_e "x"); (KStr, x_e "x"); (KStr, x_e "x"); (KSwitch, x_e "k"); (KCall, x_e "Foot(1)")], None).
Proof. vm_compute. reflexivity. Qed.
(* the literal merging really merges, and stops at control flow: the page body is 8 statements at the top level, 3 of them literals *)
Example C02_ex_coalesced_shape :
  map (fun s => match s with SLit _ => 0 | SIf _ _ _ _ _ => 1 | SFor _ _ => 2 | SSwitch _ _ => 3 | _ => 4 end) (coalesce (gens x_esc x_page None))
  = [0; 1; 1; 0; 1; 2; 3; 0].
Proof. vm_compute. reflexivity. Qed.
Example C02_ex_static : static_render x_esc [Text (bs "a") SpHoriz; Elem (bs "br") true true [FBoolConst (bs "x")] [] SpNone; Text (bs "b") SpHoriz; Text (bs "c") SpNone] None
  = Some (bs "a<br x>b c").
Proof. vm_compute. reflexivity. Qed.
Example C02_ex_ws_lost_hyps : exists a b t, trail_of a = Some t /\ t <> SpNone /\ inline (Some a) = true /\ inline (Some b) = true.
Proof. exists (Text (bs "a") SpVert), (Str (x_e "s") SpNone), SpVert. repeat split; discriminate. Qed.
Example C02_ex_error :
  exec_f (list bytes) x_esc x_str x_bool x_for x_sw (fun _ _ => []) x_callee (fun env _ => env) false (compile x_esc x_tbl) 3 []
    (coalesce (gens x_esc [Text (bs "before") SpHoriz; Str (x_e "boom()") SpHoriz; Text (bs "after") SpNone] None))
  = (bs "before ", [(KStr, x_e "boom()")], Some (3%N, 7%N)).
Proof. vm_compute. reflexivity. Qed.
Example C02_ex_hoist_free : tbl_hoist_free x_tbl = true /\ forallb hoist_free x_page = true.
Proof. split; reflexivity. Qed.
