(* C13 - a component receives exactly the child block passed at its call site.
   Statements are about spec/Denote.v's renderer, whose children-slot semantics is the code's
   (one shared slot written by WithChildren; generated templates and wrap() take it on entry; the caller
   clears it after a call that was given a block; Once/Flush empty it while rendering the children). *)
From Coq.Strings Require Import Byte String.
From Coq Require Import List Arith NArith Bool.
Import ListNotations.
From V Require Import lib.Bytes lib.Sexp model.Ast spec.Denote proofs.DenoteProof.

(* In every reachable state the slot is empty between statements: for every program, environment, fuel,
   every node and every state with an empty slot, rendering the node leaves the slot empty.  So no block
   outlives the call it was passed to: nothing leaks to siblings or descendants. *)
Theorem C13_slot_empty_between_statements :
  forall (templates : list (bytes * list node)) (fuel : nat) (e : env) (kids : option block) (n : node) (next : option node) (x : st),
  slot x = None -> slot (render_node templates fuel e kids n next x) = None.
Proof. exact slot_empty_between_statements. Qed.
Print Assumptions C13_slot_empty_between_statements.

(* Calling a generated component without a block gives it no children: its body is rendered with kids = None. *)
Theorem C13_no_block_no_children :
  forall templates f e kids ex name body next x,
  slot x = None -> failed x = None -> comp_of (e_val ex) = CTempl name -> find_templ templates name = Some body ->
  render_node templates (S f) e kids (NCall ex []) next x =
  nodes_with (render_node templates f) (restrict e) None (strip_ws body) None (set_slot None x).
Proof. exact no_block_no_children. Qed.
Print Assumptions C13_no_block_no_children.

(* The deprecated call expression {! x } is a call without a block: same rendering as @x for every callee expression,
   environment, fuel and state; in particular a generated callee reached through it runs with no children. *)
Theorem C13_legacy_call_is_blockless_call :
  forall templates fuel e kids ex next x,
  render_node templates fuel e kids (NCallT ex) next x = render_node templates fuel e kids (NCall ex []) next x.
Proof. exact legacy_call_is_blockless_call. Qed.
Print Assumptions C13_legacy_call_is_blockless_call.

Theorem C13_legacy_call_no_children :
  forall templates f e kids ex name body next x,
  slot x = None -> failed x = None -> comp_of (e_val ex) = CTempl name -> find_templ templates name = Some body ->
  render_node templates (S f) e kids (NCallT ex) next x =
  nodes_with (render_node templates f) (restrict e) None (strip_ws body) None (set_slot None x).
Proof. exact no_block_no_children_legacy. Qed.
Print Assumptions C13_legacy_call_no_children.

(* Calling it with a block gives it exactly that block, closed over the caller's environment and the caller's own
   children (caller's scope); the slot is empty afterwards. *)
Theorem C13_block_is_exactly_that_block :
  forall templates f e kids ex c ch name body next x,
  failed x = None -> comp_of (e_val ex) = CTempl name -> find_templ templates name = Some body ->
  render_node templates (S f) e kids (NCall ex (c :: ch)) next x =
  set_slot None (nodes_with (render_node templates f) (restrict e) (Some (Blk (c :: ch) e kids)) (strip_ws body) None
                   (set_slot None (set_slot (Some (Blk (c :: ch) e kids)) x))).
Proof. exact block_is_exactly_that_block. Qed.
Print Assumptions C13_block_is_exactly_that_block.

(* Whole bodies: rendering any node list from an empty slot ends with an empty slot. *)
Theorem C13_body_slot_empty :
  forall templates fuel e kids l next x,
  slot x = None -> slot (nodes_with (render_node templates fuel) e kids l next x) = None.
Proof. exact body_slot_empty. Qed.
Print Assumptions C13_body_slot_empty.

(* ---- non-vacuity and regression witnesses ---- *)
Definition ex0 (v : string) : expr := {| e_val := bs v; e_fi := 0; e_fl := 0; e_fc := 0; e_ti := 0; e_tl := 0; e_tc := 0 |}.
Definition card_body : list node := [NElem (bs "section") [] [NChildren] SpNone].
Definition tbl := [(bs "Card", card_body)].
Definition run_body (body : list node) : bytes :=
  let r := nodes_with (render_node tbl 50) [] None body None {| outp := []; slot := None; failed := None; onces := [] |} in
  concat (rev (outp r)).
(* a sibling after a hand-written callee that was given a block sees no children (the pre-c2aa12c code rendered B here) *)
Example C13_ex_sibling_after_unconsumed_block :
  run_body [NCall (ex0 "ignore()") [NText (bs "B") SpNone]; NCall (ex0 "Card()") []] = bs "(i)<section></section>".
Proof. vm_compute. reflexivity. Qed.
(* a block-less call inside a Flush / Once block sees no children (the pre-c2aa12c code nested the block into itself) *)
Example C13_ex_blockless_inside_flush :
  run_body [NCall (ex0 "templ.Flush()") [NCall (ex0 "Card()") []]] = bs "<section></section>".
Proof. vm_compute. reflexivity. Qed.
Example C13_ex_blockless_inside_once :
  run_body [NCall (ex0 "onceA.Once()") [NCall (ex0 "Card()") []]] = bs "<section></section>".
Proof. vm_compute. reflexivity. Qed.
Example C13_ex_block_shown :
  run_body [NCall (ex0 "Card()") [NText (bs "B") SpNone]] = bs "<section>B</section>".
Proof. vm_compute. reflexivity. Qed.
(* a callee that ignores its children and reaches a slot-bearing component only through the legacy call expression:
   the block passed to it is not seen by that component (the callee takes the slot on entry whatever its body looks like) *)
Definition tbl_leg := [(bs "Card", card_body); (bs "Leg", [NCallT (ex0 "Card()"); NCallT (ex0 "templ.Flush()"); NCallT (ex0 "eager(ctx, Card())")])].
Example C13_ex_block_to_legacy_only_callee :
  (let r := nodes_with (render_node tbl_leg 50) [] None [NCall (ex0 "Leg()") [NText (bs "B") SpNone]; NCallT (ex0 "Card()")] None
              {| outp := []; slot := None; failed := None; onces := [] |} in concat (rev (outp r)))
  = bs "<section></section><e><section></section></e><section></section>".
Proof. vm_compute. reflexivity. Qed.
