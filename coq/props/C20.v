(* C20 - the live-reload proxy alters HTML responses only by appending the reload script.
   This file holds property statements only; each is closed by [exact].
   The libraries (compress/gzip, andybalholm/brotli, x/net/html Parse and Render) are universally quantified
   functions; what a theorem needs from them is an explicit hypothesis, and the harness checks those
   contracts against the real libraries on every run. *)
From Coq.Strings Require Import Byte String.
From Coq Require Import List NArith Bool.
Import ListNotations.
From V Require Import lib.Bytes lib.HNode spec.Csp spec.ProxyDom model.Proxy proofs.ProxyProof.
Open Scope N_scope.

(* Responses to HTMX requests (HX-Request: true), responses marked templ-skip-modify: true, responses whose
   Content-Type does not start with text/html, and responses in a content encoding other than identity,
   gzip or br reach the client with status, every header and the body unchanged; the only difference is
   the marker header the round tripper sets on responses to HTMX requests. *)
Theorem C20_passthrough_identical :
  forall (gunzip : bytes -> option bytes) (gzip : bytes -> bytes) (unbr : bytes -> option bytes) (br : bytes -> bytes)
         (parse : bytes -> node) (render : node -> option bytes) (hx : bytes) (r : response),
    hx = bs "true" \/ skip_hdr r = bs "true" \/ has_prefix (bs "text/html") (ctype r) = false \/
    (cenc r <> [] /\ cenc r <> bs "gzip" /\ cenc r <> bs "br") ->
    exists r', proxy gunzip gzip unbr br parse render hx r = Forward r' /\
               status r' = status r /\ ctype r' = ctype r /\ cenc r' = cenc r /\ csp r' = csp r /\
               clen r' = clen r /\ others r' = others r /\ body r' = body r /\
               skip_hdr r' = (if bytes_eqb hx (bs "true") then bs "true" else skip_hdr r).
Proof. exact passthrough_identical_full. Qed.
Print Assumptions C20_passthrough_identical.

(* A text/html response in identity, gzip or brotli encoding whose body decodes under its label (d):
   the client receives a response whose body decodes, under the unchanged Content-Encoding label, to
   insertScriptTagIntoBody(nonce(csp), d); Content-Length is the length of the bytes sent; status and the
   other headers are unchanged.  As a DOM (for a parser output that is document-shaped, which the harness
   checks on every html.Parse result, and when re-parsing the rendering gives the rendered tree back - the
   x/net/html contract): the decoded document is the original document with one script element
   src=/_templ/reload/script.js, carrying the nonce when parseNonce found one, appended to document.body;
   a document without a body element is left as it is. *)
Theorem C20_modified_correct :
  forall (gunzip : bytes -> option bytes) (gzip : bytes -> bytes) (unbr : bytes -> option bytes) (br : bytes -> bytes)
         (parse : bytes -> node) (render : node -> option bytes),
    (forall b, gunzip (gzip b) = Some b) -> (forall b, unbr (br b) = Some b) ->
    forall (hx : bytes) (r : response) (d : bytes),
      hx <> bs "true" -> skip_hdr r <> bs "true" -> has_prefix (bs "text/html") (ctype r) = true ->
      (cenc r = [] \/ cenc r = bs "gzip" \/ cenc r = bs "br") ->
      decoded gunzip unbr r = Some d ->
      exists r' d',
        proxy gunzip gzip unbr br parse render hx r = Forward r' /\
        decoded gunzip unbr r' = Some d' /\
        clen r' = dec (N.of_nat (length (body r'))) /\
        cenc r' = cenc r /\ ctype r' = ctype r /\ status r' = status r /\ csp r' = csp r /\
        others r' = others r /\ skip_hdr r' = skip_hdr r /\
        d' = match insert_script parse render (parse_nonce (csp r)) d with Some u => u | None => d end /\
        (doc_shaped (parse d) || doc_bodyless (parse d) = true ->
         match append_to_document_body (reload_script_elem (nonce_opt (parse_nonce (csp r)))) (parse d) with
         | Some t1 => forall u, render t1 = Some u -> parse u = t1 -> parse d' = t1
         | None => d' = d
         end).
Proof. exact modified_correct_full. Qed.
Print Assumptions C20_modified_correct.

(* htmlfind.All + bodyNodes[0].AppendChild against the DOM: on every document-shaped tree (and on every
   tree without a body element) the first body element in document order is document.body. *)
Theorem C20_script_appended_to_document_body :
  forall (s doc : node), doc_shaped doc || doc_bodyless doc = true ->
    append_first is_body s doc = append_to_document_body s doc.
Proof. exact script_appended_to_document_body. Qed.
Print Assumptions C20_script_appended_to_document_body.

(* A gzip/br labelled HTML body that does not decode is answered with 502, never forwarded half rewritten. *)
Theorem C20_undecodable_is_bad_gateway :
  forall (gunzip : bytes -> option bytes) (gzip : bytes -> bytes) (unbr : bytes -> option bytes) (br : bytes -> bytes)
         (parse : bytes -> node) (render : node -> option bytes) (hx : bytes) (r : response),
    hx <> bs "true" -> skip_hdr r <> bs "true" -> has_prefix (bs "text/html") (ctype r) = true ->
    (cenc r = bs "gzip" \/ cenc r = bs "br") -> decoded gunzip unbr r = None ->
    proxy gunzip gzip unbr br parse render hx r = BadGateway.
Proof. exact undecodable_is_bad_gateway. Qed.
Print Assumptions C20_undecodable_is_bad_gateway.

(* parseNonce against the CSP grammar.  Full statement:
     forall csp, parse_nonce csp = dflt (script_src_nonce csp)
   It is false of the code (witnesses below), so it is stated as _refuted next to the strongest true
   statement: on regular policies (visible-ASCII field value, at most one script-src directive, every source
   expression of it either a lower-case nonce-source or nothing like one) the nonce the proxy uses is the
   first nonce-source of the page's script-src directive, directive names compared ASCII case-insensitively. *)
Theorem C20_nonce_is_first_script_src_nonce_partial :
  forall csp : bytes, csp_regular csp = true -> parse_nonce csp = dflt (script_src_nonce csp).
Proof. exact nonce_is_first_script_src_nonce. Qed.
Print Assumptions C20_nonce_is_first_script_src_nonce_partial.

Theorem C20_nonce_is_first_script_src_nonce_refuted :
  exists csp : bytes, parse_nonce csp <> dflt (script_src_nonce csp).
Proof. exists (bs "script-src 'self'; script-src 'nonce-late'"). vm_compute. discriminate. Qed.
Print Assumptions C20_nonce_is_first_script_src_nonce_refuted.

(* ---- the other shapes outside the guard, each a deviation from what a browser does with the header ---- *)
(* a later duplicate script-src directive is ignored by browsers; the code keeps looking in it *)
Example C20_ex_duplicate_directive :
  parse_nonce (bs "script-src; script-src 'nonce-n'") = bs "n" /\ script_src_nonce (bs "script-src; script-src 'nonce-n'") = None.
Proof. split; vm_compute; reflexivity. Qed.
(* U+017F folds to s under strings.EqualFold; a browser compares directive names ASCII case-insensitively *)
Example C20_ex_long_s :
  parse_nonce [xc5; xbf; x63; x72; x69; x70; x74; x2d; x73; x72; x63; x20; x27; x6e; x6f; x6e; x63; x65; x2d; x6e; x27] = bs "n" /\
  script_src_nonce [xc5; xbf; x63; x72; x69; x70; x74; x2d; x73; x72; x63; x20; x27; x6e; x6f; x6e; x63; x65; x2d; x6e; x27] = None.
Proof. split; vm_compute; reflexivity. Qed.
(* strings.Fields splits on U+00A0 (and U+000B); ASCII whitespace does not contain them *)
Example C20_ex_nbsp_separator :
  parse_nonce (bs "script-src" ++ [xc2; xa0] ++ bs "'nonce-n'") = bs "n" /\
  script_src_nonce (bs "script-src" ++ [xc2; xa0] ++ bs "'nonce-n'") = None.
Proof. split; vm_compute; reflexivity. Qed.
(* the code accepts an unquoted nonce- source, stops at an empty nonce, and misses an upper-case keyword *)
Example C20_ex_source_shapes :
  parse_nonce (bs "script-src nonce-n") = bs "n" /\ script_src_nonce (bs "script-src nonce-n") = None /\
  parse_nonce (bs "script-src 'nonce-' 'nonce-n'") = [] /\ script_src_nonce (bs "script-src 'nonce-' 'nonce-n'") = Some (bs "n") /\
  parse_nonce (bs "script-src 'NONCE-n'") = [] /\ script_src_nonce (bs "script-src 'NONCE-n'") = Some (bs "n").
Proof. repeat split; vm_compute; reflexivity. Qed.

(* ---- non-vacuity ---- *)
Example C20_ex_regular :
  csp_regular (bs "default-src 'self'; Script-Src 'self' 'nonce-r4nd0m+/=' 'strict-dynamic'; style-src 'nonce-zzz'") = true /\
  parse_nonce (bs "default-src 'self'; Script-Src 'self' 'nonce-r4nd0m+/=' 'strict-dynamic'; style-src 'nonce-zzz'") = bs "r4nd0m+/=".
Proof. split; vm_compute; reflexivity. Qed.

(* toy libraries: identity codecs, a parser that answers a fixed document, a renderer that concatenates the encoding *)
Definition toy_doc : node :=
  Node K_document [] [] [] [Node K_doctype (bs "html") [] [] [];
                            Node K_element (bs "html") [] [] [Node K_element (bs "head") [] [] [];
                                                              Node K_element (bs "body") [] [] [Node K_text (bs "hi") [] [] []]]].
Definition toy_resp (ce : bytes) : response :=
  {| status := 200; skip_hdr := []; ctype := bs "text/html; charset=utf-8"; cenc := ce;
     csp := bs "script-src 'nonce-abc'"; clen := bs "2"; others := []; body := bs "hi" |}.

Example C20_ex_modified :
  doc_shaped toy_doc = true /\
  decoded Some Some (toy_resp (bs "gzip")) = Some (bs "hi") /\
  exists r', proxy Some (fun b => b) Some (fun b => b) (fun _ => toy_doc) (fun t => Some (concat (ser t))) [] (toy_resp (bs "gzip")) = Forward r' /\
             clen r' = bs "87" /\ cenc r' = bs "gzip" /\ length (body r') = 87%nat.
Proof. split; [vm_compute; reflexivity|]. split; [vm_compute; reflexivity|]. eexists. vm_compute. repeat split. Qed.

Example C20_ex_passthrough :
  proxy Some (fun b => b) Some (fun b => b) (fun _ => toy_doc) (fun t => Some (concat (ser t))) [] (toy_resp (bs "deflate"))
  = Forward (toy_resp (bs "deflate")) /\
  proxy Some (fun b => b) Some (fun b => b) (fun _ => toy_doc) (fun t => Some (concat (ser t))) (bs "true") (toy_resp [])
  = Forward (set_skip (toy_resp []) (bs "true")).
Proof. split; vm_compute; reflexivity. Qed.

Example C20_ex_bad_gateway :
  proxy (fun _ => None) (fun b => b) Some (fun b => b) (fun _ => toy_doc) (fun t => Some (concat (ser t))) [] (toy_resp (bs "gzip")) = BadGateway.
Proof. vm_compute. reflexivity. Qed.
