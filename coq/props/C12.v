(* C12 - scripts, CSS classes and once-blocks are emitted once per context, before use.
   Property statements only; each is closed by [exact].
   A history is a list of uses, each naming its context; [cfgs d] says how context d was set up
   (nonce; None = plain InitializeContext, Some classes = request that went through
   NewCSSMiddleware(next, classes...)).  [out] is everything written, tagged with the context;
   [proj c out] is the document written in context c and [log] its sequence of definitions
   (function in a <script>, rule in a <style>, once body), uses (call, class name, once render) and
   registrations (the rendering context passes through a further CSS middleware: op OMiddleware).
   A once handle gets its content from the block of the call (OOnce), from the component it was built with
   (OOnceC, self-closing call) or has none (OOnceSelf); OCall is a call of a component with or without a
   { children... } slot, with or without a block; the registry carries templ's children slot
   (contextValue.children, field kids) with the set / clear / restore protocol of the runtime and of generated code. *)
From Coq.Strings Require Import Byte String.
From Coq Require Import List NArith.
Import ListNotations.
From V Require Import lib.Bytes spec.RegistrySpec model.Registry proofs.RegistryProof.

(* In every context, whatever the interleaving: no definition is written twice. *)
Theorem C12_emit_at_most_once :
  forall (cfgs : nat -> cfg) (h : list (nat * op)) st' out (c : nat),
    run_multi (fun d => init_reg (cfgs d)) h = (st', out) ->
    at_most_once (log (proj c out)).
Proof. exact multi_at_most_once. Qed.
Print Assumptions C12_emit_at_most_once.

(* Every call, every class name of a component class the element holds switched on, every once render
   comes after the definition in the same document, or the class was registered with the middleware the
   request came through, or with a middleware the context passed through earlier in the document. *)
Theorem C12_emit_before_first_use :
  forall (cfgs : nat -> cfg) (h : list (nat * op)) st' out (c : nat),
    run_multi (fun d => init_reg (cfgs d)) h = (st', out) ->
    before_first_use (registered cfgs c) (log (proj c out)).
Proof. exact multi_before_first_use. Qed.
Print Assumptions C12_emit_before_first_use.

(* Leaving the definitions out, what is written in context c is exactly what its uses ask for
   (the call of every script use, the class attribute of every element), however much was emitted before. *)
Theorem C12_every_use_served :
  forall (cfgs : nat -> cfg) (h : list (nat * op)) st' out (c : nat),
    run_multi (fun d => init_reg (cfgs d)) h = (st', out) ->
    wants (proj c out) = snd (wanted [] (proj c h)).
Proof. exact multi_every_use_served. Qed.
Print Assumptions C12_every_use_served.

(* What context c ends up with, and what is written in it, is what its own uses alone produce. *)
Theorem C12_contexts_independent :
  forall (cfgs : nat -> cfg) (h : list (nat * op)) st' out (c : nat),
    run_multi (fun d => init_reg (cfgs d)) h = (st', out) ->
    run (init_reg (cfgs c)) (proj c h) = (st' c, proj c out).
Proof. exact multi_independent. Qed.
Print Assumptions C12_contexts_independent.

(* Between any two uses the children slot of the context is empty, and no component called without a block - a
   template with { children... }, a once handle without component - ever finds children in the context that an
   earlier use left there (chunk KLeak: it would render them a further time, in particular once content outside
   its handle's guard).  With C12_emit_at_most_once: each once content is written at most once in the whole
   document, through whichever path. *)
Theorem C12_children_never_leak :
  forall (cfgs : nat -> cfg) (h : list (nat * op)) st' out (c : nat),
    run_multi (fun d => init_reg (cfgs d)) h = (st', out) ->
    kids (st' c) = None /\ forall b, ~ In (KLeak b) (proj c out).
Proof. exact multi_children_never_leak. Qed.
Print Assumptions C12_children_never_leak.

(* A class registered with the middleware never has its rule written into the page ... *)
Theorem C12_middleware_never_inlined :
  forall (cfgs : nat -> cfg) (h : list (nat * op)) st' out (c : nat) (k : cls),
    run_multi (fun d => init_reg (cfgs d)) h = (st', out) ->
    In k (mw_comps (cfgs c)) -> ~ In (Def (clid k)) (log (proj c out)).
Proof. exact multi_never_inlined. Qed.
Print Assumptions C12_middleware_never_inlined.

(* The same for a middleware reached later - stacked on another one, below a handler that initialised the
   context, set a nonce and rendered part of the page: from the point the context passes through it, whatever
   the context held before, no rule of a class it registers is written into the page. *)
Theorem C12_registered_midway_never_inlined :
  forall (cfgs : nat -> cfg) (h : list (nat * op)) st' out (c : nat),
    run_multi (fun d => init_reg (cfgs d)) h = (st', out) ->
    never_inlined_once_registered (log (proj c out)).
Proof. exact multi_registered_midway. Qed.
Print Assumptions C12_registered_midway_never_inlined.

(* Every middleware's stylesheet endpoint serves what that middleware registers ... *)
Theorem C12_sheet_serves_registered :
  forall (l : list cssclass) (k : cls), In k (handler_comps l) -> exists a b, sheet_of l = a ++ crule k ++ b.
Proof. exact sheet_serves_registered. Qed.
Print Assumptions C12_sheet_serves_registered.

(* ... in particular the one the request came through. *)
Theorem C12_stylesheet_serves_registered :
  forall (cf : cfg) (k : cls), In k (mw_comps cf) -> exists a b, stylesheet cf = a ++ crule k ++ b.
Proof. exact stylesheet_serves_registered. Qed.
Print Assumptions C12_stylesheet_serves_registered.

(* For every container form either type switch mentions (and any nesting of them): the rule is considered
   exactly when the expression holds the class switched on; the name is set with the switch the form gives
   it; the class attribute carries the name unless the expression itself switches that name off
   (templ: the last setting of a name wins); a name in the attribute was set, switched on, by some form. *)
Theorem C12_form_coherent :
  forall (fs : list cform) (k : cls),
    (In (k, true) (held_l fs) <-> In k (rules_l fs)) /\
    (forall b, In (k, b) (held_l fs) -> In (cid k, b) (names_l fs)) /\
    (In (k, true) (held_l fs) -> ~ In (cid k, false) (names_l fs) -> In (cid k) (class_attr fs)) /\
    (forall n, In n (class_attr fs) -> In (n, true) (names_l fs)).
Proof. exact form_coherent. Qed.
Print Assumptions C12_form_coherent.

(* Scripts and classes share one string set under the prefixes "script_" and "class_": recording one
   item makes exactly that item present. *)
Theorem C12_registry_keys_distinct :
  forall (r : reg) (i j : id), has (add r i) j = (id_eqb j i || has r j)%bool.
Proof. exact has_add. Qed.
Print Assumptions C12_registry_keys_distinct.

(* The decidable predicate the harness evaluates on the documents the implementation wrote (given the classes
   registered up front and the uses the history makes in that context) implies: no definition twice, none of a
   registered class - registered up front or by a middleware passed earlier in the document -, and every use, in
   order, carries its call / the names of the component classes it holds switched on. *)
Theorem C12_check_log_sound :
  forall (l : list iev) (d : list id) (w : list want), check_log d w l = true ->
    NoDup (idefs l) /\ (forall i, In i (idefs l) -> ~ In i d) /\ Forall2 serves (iuses l) w /\
    (forall pre i post, l = pre ++ IReg i :: post -> ~ In i (idefs post)).
Proof. exact check_log_sound. Qed.
Print Assumptions C12_check_log_sound.

(* ---------- non-vacuity and witnesses ---------- *)
Definition s1 := mkScript (bs "f1") (bs "function f1(){}") (bs "f1()") (bs "f1()").
Definition k1 := mkCls (bs "k_1") (bs ".k_1{color:red;}").
Definition k2 := mkCls (bs "k_2") (bs ".k_2{color:blue;}").
Definition ex_cfgs (d : nat) : cfg :=
  match d with 1%nat => mkCfg (bs "n1") (Some [KComp k2; KConst (bs "x")]) | _ => mkCfg [] None end.
Definition ex_hist : list (nat * op) :=
  [ (0%nat, OElem [FComp k1; FKVComp k2 true] [s1]);
    (1%nat, OElem [FListKVClass [(KComp k1, true); (KComp k2, true)]] [s1]);
    (0%nat, OOnce 7 [OText (bs "[h7]"); ORender s1]);
    (0%nat, OElem [FNested [FKVClass (KComp k1) true]] [s1; s1]);
    (1%nat, OOnce 7 [OText (bs "[h7]")]);
    (0%nat, OOnce 7 [OText (bs "[h7]")]) ].

(* the two documents of the example history *)
Example C12_ex_documents :
  let out := snd (run_multi (fun d => init_reg (ex_cfgs d)) ex_hist) in
  render (proj 0%nat out) =
    bs "<style type=""text/css"">.k_1{color:red;}.k_2{color:blue;}</style><script>function f1(){}</script><div class=""k_1 k_2"" onclick=""f1()""></div>[h7]<script>f1()</script><div class=""k_1"" onclick=""f1()"" onclick=""f1()""></div>"
  /\ render (proj 1%nat out) =
    bs "<style type=""text/css"">.k_1{color:red;}</style><script nonce=""n1"">function f1(){}</script><div class=""k_1 k_2"" onclick=""f1()""></div>[h7]"
  /\ stylesheet (ex_cfgs 1%nat) = bs ".k_2{color:blue;}".
Proof. vm_compute. repeat split. Qed.

(* a handle built with a component (page dependencies), asked for twice through self-closing calls, each followed by
   a layout component with a children slot called without a block, then the layout called with a block: the once
   content is written once, the slots of the calls without block stay empty *)
Example C12_ex_once_component_then_slot :
  let deps := [OText (bs "[h3]"); ORender s1] in
  let card := fun blk block => OCall true [OText (bs "<p>")] blk block [OText (bs "</p>")] in
  let h := [OOnceC 3 deps; card false []; OOnceC 3 deps; card false []; OOnceSelf 4; card true [OText (bs "body"); OOnceC 3 deps]] in
  let '(r, cs) := run (init_reg (mkCfg [] None)) h in
  render cs = bs "[h3]<script>function f1(){}</script><script>f1()</script><p></p><p></p><p>body</p>"
  /\ kids r = None
  /\ defs (log cs) = [Handle 3; Script (bs "f1"); Handle 4].
Proof. vm_compute. repeat split. Qed.
(* the hazard the theorem excludes: were a use to leave a component in the slot (say a once render that installs its
   component with WithChildren and does not take it out again), the next component called without a block would
   render it *)
Example C12_ex_leak_is_observable :
  let deps := [OText (bs "[h3]")] in
  let r := set_kids (init_reg (mkCfg [] None)) (Some deps) in
  snd (step r (OCall true [] false [] [])) = [KLeak deps] /\
  snd (step r (OOnceSelf 4)) = [KOnceBegin 4; KLeak deps; KOnceEnd 4] /\
  snd (step r (OCall true [] true [OText (bs "body")] [])) = [KText (bs "body")].
Proof. vm_compute. repeat split. Qed.

(* the two forms whose name and rule disagreed before commit 0a03483 *)
Example C12_ex_listkv_coherent :
  let f := FListKVClass [(KComp k1, true)] in class_attr [f] = [bs "k_1"] /\ rules_l [f] = [k1].
Proof. vm_compute. split; reflexivity. Qed.
Example C12_ex_kvcomp_coherent :
  let f := FKVComp k1 true in class_attr [f] = [bs "k_1"] /\ rules_l [f] = [k1].
Proof. vm_compute. split; reflexivity. Qed.
(* a later templ.KV(k, false) switches the name off again; the rule is still written (harmless) *)
Example C12_ex_last_setting_wins :
  class_attr [FComp k1; FKVComp k1 false] = [] /\ rules_l [FComp k1; FKVComp k1 false] = [k1].
Proof. vm_compute. split; reflexivity. Qed.

Example C12_ex_check_log :
  check_log [] [WCallAttr s1; WCallAttr s1]
    [IDef (Script (bs "f1")); ICallAttr (bs "f1()"); ICallAttr (bs "f1()")] = true /\
  check_log [] [WCallAttr s1; WCallAttr s1]
    [IDef (Script (bs "f1")); ICallAttr (bs "f1()"); IDef (Script (bs "f1")); ICallAttr (bs "f1()")] = false /\
  check_log [] [WCallAttr s1] [ICallAttr (bs "f1()"); IDef (Script (bs "f1"))] = false /\
  check_log [Class (bs "k_1")] [WAttr [FComp k1]] [IDef (Class (bs "k_1")); INames [bs "k_1"]] = false /\
  check_log [Class (bs "k_1")] [WAttr [FComp k1]] [INames [bs "k_1"]] = true.
Proof. vm_compute. repeat split. Qed.

(* templ.WithNonce anywhere in a rendering context changes the nonce of later script elements and nothing else:
   the script defined before it is not defined again after it *)
Example C12_ex_nonce_midway :
  render (snd (run (init_reg (mkCfg [] None)) [ORender s1; ONonce (bs "n9"); ORender s1; OElem [] [s1]])) =
  bs "<script>function f1(){}</script><script>f1()</script><script nonce=""n9"">f1()</script><div onclick=""f1()""></div>".
Proof. vm_compute. reflexivity. Qed.

(* a middleware below an initialised context: a layout handler sets a nonce, renders s1 and an element holding k1
   and k2, then hands over to a sub-handler wrapped in NewCSSMiddleware(next, k2, k1): the registry, the nonce and
   what was defined stay; k1's and k2's rules are not written again, s1 is not defined again *)
Example C12_ex_middleware_midway :
  let h := [ONonce (bs "n9"); ORender s1; OElem [FComp k1] []; OMiddleware [KComp k2; KComp k1];
            ORender s1; OElem [FComp k1; FComp k2] [s1]] in
  let cs := snd (run (init_reg (mkCfg [] None)) h) in
  render cs =
    bs "<script nonce=""n9"">function f1(){}</script><script nonce=""n9"">f1()</script><style type=""text/css"">.k_1{color:red;}</style><div class=""k_1""></div><script nonce=""n9"">f1()</script><div class=""k_1 k_2"" onclick=""f1()""></div>"
  /\ log cs = [Def (Script (bs "f1")); Use (Script (bs "f1")); Def (Class (bs "k_1")); Use (Class (bs "k_1"));
               Reg (Class (bs "k_2")); Reg (Class (bs "k_1")); Use (Script (bs "f1"));
               Use (Class (bs "k_1")); Use (Class (bs "k_2")); Use (Script (bs "f1"))]
  /\ sheet_of [KComp k2; KComp k1] = bs ".k_2{color:blue;}.k_1{color:red;}".
Proof. vm_compute. repeat split. Qed.
(* two stacked middlewares (one per component library): neither library's class is inlined *)
Example C12_ex_middleware_stacked :
  render (snd (run (init_reg (mkCfg [] (Some [KComp k1]))) [OMiddleware [KComp k2]; OElem [FComp k1; FComp k2] []])) =
  bs "<div class=""k_1 k_2""></div>".
Proof. vm_compute. reflexivity. Qed.
(* check_log with a registration midway: a rule written after it is refused, one written before it is fine *)
Example C12_ex_check_log_midway :
  check_log [] [WAttr [FComp k1]; WAttr [FComp k1]]
    [IDef (Class (bs "k_1")); INames [bs "k_1"]; IReg (Class (bs "k_1")); INames [bs "k_1"]] = true /\
  check_log [] [WAttr [FComp k1]] [IReg (Class (bs "k_1")); IDef (Class (bs "k_1")); INames [bs "k_1"]] = false /\
  check_log [] [WCallAttr s1; WCallAttr s1]
    [IDef (Script (bs "f1")); ICallAttr (bs "f1()"); IReg (Class (bs "k_1")); IDef (Script (bs "f1")); ICallAttr (bs "f1()")] = false.
Proof. vm_compute. repeat split. Qed.
