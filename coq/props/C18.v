(* C18 - JSON-RPC framing is lossless and calls are matched to their responses.
   Property statements only; each is closed by [exact].  Model: model/Rpc.v (lsp/jsonrpc2 stream.go, conn.go). *)
From Coq.Strings Require Import Byte String.
From Coq Require Import List NArith.
Import ListNotations.
From V Require Import lib.Bytes model.Rpc spec.RpcWire spec.RpcCall proofs.RpcProof.

(* Any sequence of messages written to a stream (every payload non-empty and shorter than 2^31 bytes,
   ANY bytes inside - embedded CRLFCRLF, "Content-Length:" text, multi-byte characters, invalid UTF-8)
   is read back as the same sequence, followed by a clean end of input. *)
Theorem C18_frames_roundtrip : forall msgs : list bytes,
  Forall payload_ok msgs -> read_stream (concat (map frame msgs)) = (msgs, EndEof).
Proof. exact frames_roundtrip. Qed.
Print Assumptions C18_frames_roundtrip.

(* Every byte string - malformed, truncated, hostile - yields a frame and a strictly shorter rest, a wait
   for more input (at end of input: io.EOF / io.ErrUnexpectedEOF), or an error; the reader's loops
   terminate within fuel |s|+1 (the distinguished out-of-fuel outcome never occurs), for one frame and
   for a whole stream. *)
Theorem C18_read_frame_total : forall s : bytes,
  match read_frame s with
  | ROk p rest => exists h, s = h ++ p ++ rest /\ h <> [] /\ p <> []
  | RFuel => False
  | RNeedMore | RErr _ => True
  end /\ snd (read_stream s) <> EndFuel.
Proof. exact (fun s => conj (read_frame_total s) (read_stream_total s)). Qed.
Print Assumptions C18_read_frame_total.

(* However the bytes are chunked: a frame or an error decided on a prefix of the input is not changed by
   the bytes that arrive later (only "wait for more" can change). *)
Theorem C18_chunking_stable : forall s t : bytes,
  match read_frame s with
  | ROk p rest => read_frame (s ++ t) = ROk p (rest ++ t)
  | RErr e => read_frame (s ++ t) = RErr e
  | _ => True
  end.
Proof. exact read_frame_stable. Qed.
Print Assumptions C18_chunking_stable.

(* The length the reader finds in the header written for p is p's number of BYTES, whatever follows. *)
Theorem C18_header_counts_bytes : forall p tail : bytes, payload_ok p ->
  headers (S (length (frame_header p ++ tail))) (frame_header p ++ tail) 0%N = HOk (N.of_nat (length p)) tail.
Proof. exact header_counts_bytes_gen. Qed.
Print Assumptions C18_header_counts_bytes.

(* Concurrent senders never interleave frames: for every program of callers / notifiers / repliers and
   every schedule - contexts cancelled at ANY moment (also between a write's header and body), writes of the
   underlying connection failing at any point after taking any part of what they were given - the bytes on
   the connection are the complete frames of the messages sent so far (in the order the write mutex was
   taken) followed by at most: the header of the current mutex holder, or - once the connection has
   failed - a proper prefix of the one frame whose write failed. *)
Theorem C18_no_interleave : forall (prog : list (kind * bytes)) (tr : list action) (s : state),
  exec (init prog) tr = Some s ->
  wire s = concat (map frame (sent s)) ++ partial s /\
  (partial s = [] \/
   (down s = false /\ exists t, lock s = Some t /\ t_pc (threads s t) = PHeader /\
             partial s = frame_header (t_payload (threads s t))) \/
   (down s = true /\ exists p k, k < length (frame p) /\ partial s = firstn k (frame p))).
Proof. exact no_interleave. Qed.
Print Assumptions C18_no_interleave.

(* ... hence a peer reading the connection at any moment decodes exactly the messages sent so far and
   then waits (framing round trip and mutual exclusion combined). *)
Theorem C18_peer_reads_sent : forall (prog : list (kind * bytes)) (tr : list action) (s : state),
  Forall payload_ok (map snd prog) -> exec (init prog) tr = Some s ->
  read_stream (wire s) = (sent s, match partial s with [] => EndEof | _ => EndTrunc end).
Proof. exact peer_reads_sent. Qed.
Print Assumptions C18_peer_reads_sent.

(* Whatever Writes succeed, fail or are cancelled: the complete frames on the connection are those of
   exactly the writes that returned nil (c.write passed its body: [wrote]), each once, in lock order; and
   whenever no write is in progress the bytes satisfy the wire specification (spec/RpcWire.v): a conforming
   reader gets exactly those messages and the bytes end at a frame boundary - or, only on a connection
   that has failed, inside one frame.  On a connection that has not failed they are whole frames. *)
Theorem C18_writes_on_wire : forall (prog : list (kind * bytes)) (tr : list action) (s : state),
  Forall payload_ok (map snd prog) -> exec (init prog) tr = Some s ->
  sent s = map (fun t => t_payload (threads s t)) (senders s) /\ NoDup (senders s) /\
  (forall t, In t (senders s) <-> wrote (threads s t) = true) /\
  (lock s = None -> wire_spec (sent s) (down s) (wire s) = true) /\
  (lock s = None -> down s = false -> wire s = concat (map frame (sent s))).
Proof. exact writes_on_wire. Qed.
Print Assumptions C18_writes_on_wire.

(* A frame cut anywhere before its end makes the reader wait - it never yields a frame or an error that
   could be mistaken for the end of the message. *)
Theorem C18_cut_frame_needs_more : forall (p : bytes) (k : nat), payload_ok p -> k < length (frame p) ->
  read_frame (firstn k (frame p)) = RNeedMore.
Proof. exact frame_cut_needs_more. Qed.
Print Assumptions C18_cut_frame_needs_more.

(* Every finished call holds a response that carries its own id and was read off the wire BEFORE THE END OF
   THE STREAM, or its own cancellation (its context was cancelled, while waiting or before the write), or the
   error of a Write of the underlying connection that failed (the connection is down); finished calls have
   pairwise different ids.  Any interleaving of id assignment, registration, writes, wire deliveries (any ids,
   any order, duplicates, unknown ids), takes, cancellations, clean-ups and the END OF THE STREAM (AEof: the
   peer hangs up / stream.Read fails, run() returns and closes c.done) at any point - before, between and
   after the responses, in particular between the read loop's send of a response and the caller's wake-up. *)
Theorem C18_call_gets_own_response : forall (prog : list (kind * bytes)) (tr : list action) (s : state),
  exec (init prog) tr = Some s ->
  (forall t, is_call (threads s t) = true -> t_pc (threads s t) = PDone ->
     (exists r, t_ret (threads s t) = Some (Got r) /\ fst r = t_id (threads s t) /\ In (ARead r) tr /\ In r (reads tr))
     \/ (t_ret (threads s t) = Some Cancelled /\ t_ctx (threads s t) = true)
     \/ (t_ret (threads s t) = Some WriteFailed /\ t_ctx (threads s t) = true)
     \/ (t_ret (threads s t) = Some TransportErr /\ down s = true))
  /\ (forall t1 t2, is_call (threads s t1) = true -> is_call (threads s t2) = true ->
        t_pc (threads s t1) = PDone -> t_pc (threads s t2) = PDone ->
        t_id (threads s t1) = t_id (threads s t2) -> t1 = t2).
Proof. exact call_gets_own_response. Qed.
Print Assumptions C18_call_gets_own_response.

(* ... stated against the specification of a call's outcome (spec/RpcCall.v, which does not mention the model),
   with the facts read off the schedule alone: the responses read up to the end of the stream, whether the
   call's context was cancelled, whether a connection Write failed, whether the stream ended.  The
   specification lets a call report the end of the connection only if NO response carrying its id was read
   before the end; the model never does (Call does not look at c.done), so in particular a call whose
   response was delivered before the peer hung up returns it. *)
Theorem C18_calls_meet_spec : forall (prog : list (kind * bytes)) (tr : list action) (s : state),
  exec (init prog) tr = Some s ->
  forall t, is_call (threads s t) = true -> t_pc (threads s t) = PDone ->
    exists r, t_ret (threads s t) = Some r /\
              call_ok (facts tr t (t_id (threads s t))) (outcome_of r) = true.
Proof. exact calls_meet_spec. Qed.
Print Assumptions C18_calls_meet_spec.

(* A call whose context was never cancelled, on a connection whose Writes never failed: once it has returned,
   it has returned the response carrying its id, read before the end of the stream - wherever the end of the
   stream falls in the schedule (it never returns anything in place of a delivered response). *)
Theorem C18_uncancelled_call_returns_response : forall (prog : list (kind * bytes)) (tr : list action) (s : state),
  exec (init prog) tr = Some s ->
  forall t, is_call (threads s t) = true -> t_pc (threads s t) = PDone ->
    ctx_in t tr = false -> wfail_in tr = false ->
    exists r, t_ret (threads s t) = Some (Got r) /\ fst r = t_id (threads s t) /\ In r (reads tr).
Proof. exact uncancelled_call_returns_response. Qed.
Print Assumptions C18_uncancelled_call_returns_response.

(* The end of the stream comes once and nothing is read after it. *)
Theorem C18_nothing_read_after_end : forall (prog : list (kind * bytes)) (tr1 tr2 : list action) (s : state),
  exec (init prog) (tr1 ++ AEof :: tr2) = Some s ->
  closed s = true /\ (forall r, ~ In (ARead r) tr2) /\ ~ In AEof tr2 /\ eof_in tr1 = false.
Proof. exact nothing_read_after_end. Qed.
Print Assumptions C18_nothing_read_after_end.

(* When every caller and writer has returned, the pending map is empty, the write mutex is free and a
   connection that has not failed carries complete frames only. *)
Theorem C18_pending_empty_at_quiescence : forall (prog : list (kind * bytes)) (tr : list action) (s : state),
  exec (init prog) tr = Some s -> quiescent s ->
  pending s = [] /\ lock s = None /\ (down s = false -> wire s = concat (map frame (sent s))).
Proof. exact pending_empty_at_quiescence. Qed.
Print Assumptions C18_pending_empty_at_quiescence.

(* ---------- non-vacuity and witnesses ---------- *)
Definition ex_p1 : bytes := bs "x" ++ crlf ++ crlf ++ bs "Content-Length: 1" ++ crlf ++ crlf ++ bs "y".
Definition ex_p2 : bytes := [xc3; xa9].                         (* U+00E9: one character, two bytes *)
Definition ex_p3 : bytes := [xff; x00; x0a].                    (* not UTF-8 *)

Example C18_ex_payloads_ok : Forall payload_ok [ex_p1; ex_p2; ex_p3].
Proof. repeat constructor; try discriminate; vm_compute; reflexivity. Qed.
Example C18_ex_roundtrip :
  read_stream (frame ex_p1 ++ frame ex_p2 ++ frame ex_p3) = ([ex_p1; ex_p2; ex_p3], EndEof).
Proof. vm_compute. reflexivity. Qed.
Example C18_ex_counts_bytes : frame ex_p2 = bs "Content-Length: 2" ++ crlf ++ crlf ++ ex_p2.
Proof. vm_compute. reflexivity. Qed.
Example C18_ex_truncated : read_stream (frame ex_p1 ++ firstn 20 (frame ex_p2)) = ([ex_p1], EndTrunc).
Proof. vm_compute. reflexivity. Qed.
Example C18_ex_malformed :
  read_frame (bs "Content-Length: -5" ++ crlf ++ crlf) = RErr ENonPositive /\
  read_frame (bs "Content-Length: 0" ++ crlf ++ crlf) = RErr ENonPositive /\
  read_frame (bs "Content-Length: 2147483648" ++ crlf ++ crlf) = RErr EParse /\
  read_frame (bs "Content-Length: 1_0" ++ crlf ++ crlf) = RErr EParse /\
  read_frame (bs "content-length: 3" ++ crlf ++ crlf ++ bs "abc") = RErr EMissing /\
  read_frame (bs "no colon here" ++ crlf) = RErr EInvalidLine /\
  read_frame (bs "Content-Length : 3" ++ crlf ++ crlf ++ bs "abc") = RErr EMissing /\
  read_frame (bs "Content-Type: x" ++ crlf ++ [xc2; xa0] ++ bs "Content-Length:" ++ [xe3; x80; x80] ++ bs "+3 "
              ++ crlf ++ [x0a] ++ bs "abcd") = ROk (bs "abc") (bs "d").
Proof. vm_compute. repeat split; reflexivity. Qed.

(* two calls and a notifier; replies out of order; call 1 (thread 1) is cancelled while its reply is
   under way and the late reply lands in the abandoned channel *)
Definition ex_prog : list (kind * bytes) := [(KCall, bs "A"); (KCall, bs "B"); (KWrite, bs "N")].
Definition ex_trace : list action :=
  [ASeq 0; ASeq 1; AReg 1; AReg 0; ALock 1; AHeader 1; ABody 1; AUnlock 1; ALock 0; AHeader 0; ABody 0;
   AUnlock 0; ALock 2; AHeader 2; ARead (1, 50); ASend; ARead (7, 9); ACtx 1; ACancel 1; ABody 2; AUnlock 2;
   ATake 0; ARead (2, 60); ASend; ACleanup 0; ACleanup 1].
Example C18_ex_conn :
  match exec (init ex_prog) ex_trace with
  | Some s => Some (t_ret (threads s 0), t_ret (threads s 1), t_ret (threads s 2), pending s, sent s, run s)
  | None => None
  end = Some (Some (Got (1, 50)), Some Cancelled, Some Sent, [], [bs "B"; bs "A"; bs "N"], None).
Proof. vm_compute. reflexivity. Qed.
Example C18_ex_quiescent : exists s, exec (init ex_prog) ex_trace = Some s /\ quiescent s.
Proof.
  eexists. split; [vm_compute; reflexivity|].
  intros t. destruct t as [|[|[|t]]]; try reflexivity. destruct t; reflexivity.
Qed.
(* the write mutex excludes: a second writer cannot start while the first holds it *)
Example C18_ex_lock_excludes : exec (init ex_prog) [ASeq 0; AReg 0; ALock 0; AHeader 0; ALock 2] = None.
Proof. vm_compute. reflexivity. Qed.

(* Observation (outside the property: the peer answers one id twice): if the call is cancelled while the
   first answer sits in its channel, the read loop's second send can never complete - ASend is disabled
   in this reachable state and stays so, as nothing reads the channel any more. *)
Example C18_ex_duplicate_reply_blocks_reader :
  match exec (init [(KCall, bs "A")])
     [ASeq 0; AReg 0; ALock 0; AHeader 0; ABody 0; AUnlock 0; ARead (1, 5); ASend; ARead (1, 6);
      ACtx 0; ACancel 0; ACleanup 0] with
  | Some s => Some (step s ASend, run s, t_pc (threads s 0))
  | None => None
  end = Some (None, Some ((1, 6), 0), PDone).
Proof. vm_compute. reflexivity. Qed.

(* ---------- cancellation and failure during a write ---------- *)
(* the notifier's context is cancelled between its header and its body: the write completes all the same
   (stream.Write looks at the context only before it writes anything) and the next frame is intact *)
Example C18_ex_cancel_mid_write :
  match exec (init ex_prog) [ALock 2; AHeader 2; ACtx 2; ABody 2; AUnlock 2; ASeq 0; AReg 0; ALock 0; AHeader 0; ABody 0; AUnlock 0] with
  | Some s => Some (t_ret (threads s 2), sent s, senders s, down s, wire_spec (sent s) (down s) (wire s),
                    bytes_eqb (wire s) (frame (bs "N") ++ frame (bs "A")))
  | None => None
  end = Some (Some Sent, [bs "N"; bs "A"], [2; 0], false, true, true).
Proof. vm_compute. reflexivity. Qed.

(* the connection fails 1 byte into call 0's body: the call returns the error, later writers fail without
   adding a byte, and the peer reads the complete frames followed by a truncated one *)
Example C18_ex_transport_fails :
  match exec (init [(KCall, bs "AAAA"); (KWrite, bs "N"); (KWrite, bs "M")])
     [ALock 1; AHeader 1; ABody 1; AUnlock 1; ASeq 0; AReg 0; ALock 0; AHeader 0; ABodyFail 0 1; ACleanup 0;
      ALock 2; AHeaderFail 2 5] with
  | Some s => Some (t_ret (threads s 0), t_ret (threads s 2), sent s, down s, lock s, pending s,
                    read_stream (wire s), wire_spec (sent s) (down s) (wire s), step s (AHeader 2))
  | None => None
  end = Some (Some TransportErr, Some TransportErr, [bs "N"], true, None, [], ([bs "N"], EndTrunc), true, None).
Proof. vm_compute. reflexivity. Qed.

(* What the specification excludes: a writer that abandons a frame after its header while the connection
   stays usable (for instance because it looked at its context again between the header and the body).
   The next, complete frame is swallowed into the unfinished one; nothing it announces is delivered. *)
Example C18_ex_abandoned_frame_violates :
  let big := bs "0123456789012345678901234567890123456789" in
  wire_spec [bs "N"] false (frame_header big ++ frame (bs "N")) = false /\
  read_stream (frame_header big ++ frame (bs "N")) = ([], EndTrunc) /\
  wire_spec [bs "N"] false (frame (bs "N")) = true.
Proof. vm_compute. repeat split; reflexivity. Qed.

(* ---------- the end of the stream (the peer hangs up) ---------- *)
(* the peer answers call 1 and hangs up at once; the read loop delivers the answer and returns (c.done is
   closed) BEFORE the caller reaches its select: the caller still takes its response.  Call 2 was never
   answered: it cannot return (neither ATake nor ACancel is enabled) until its context is cancelled. *)
Definition ex_hangup_trace : list action :=
  [ASeq 0; ASeq 1; AReg 0; AReg 1; ALock 0; AHeader 0; ABody 0; ARead (1, 50); ASend; AEof; AUnlock 0;
   ALock 1; AHeader 1; ABody 1; AUnlock 1; ATake 0; ACleanup 0].
Example C18_ex_answer_then_hangup :
  match exec (init [(KCall, bs "A"); (KCall, bs "B")]) ex_hangup_trace with
  | Some s => Some (t_ret (threads s 0), t_pc (threads s 1), closed s, step s (ATake 1), step s (ACancel 1),
                    step s (ARead (2, 60)),
                    match exec s [ACtx 1; ACancel 1; ACleanup 1] with
                    | Some s' => Some (t_ret (threads s' 1), pending s')
                    | None => None
                    end)
  | None => None
  end = Some (Some (Got (1, 50)), PWait, true, None, None, None, Some (Some Cancelled, [])).
Proof. vm_compute. reflexivity. Qed.
Example C18_ex_hangup_facts :
  reads ex_hangup_trace = [(1, 50)] /\ eof_in ex_hangup_trace = true /\
  reads [ARead (1, 5); AEof; ARead (2, 6)] = [(1, 5)].
Proof. vm_compute. repeat split; reflexivity. Qed.
(* What the specification excludes and admits at the end of the stream: reporting "connection closed" in place
   of a response that had been read before the end is a violation; reporting it when nothing carrying the id
   had been read is not; a response of another id, or one that was never read, is a violation. *)
Example C18_ex_call_spec :
  call_ok (mkFacts 1 [(1, 50)] false false true) OClosed = false /\
  call_ok (mkFacts 1 [(1, 50)] false false true) (OGot 1 50) = true /\
  call_ok (mkFacts 2 [(1, 50)] false false true) OClosed = true /\
  call_ok (mkFacts 2 [(1, 50)] false false false) OClosed = false /\
  call_ok (mkFacts 2 [(1, 50)] false false true) (OGot 1 50) = false /\
  call_ok (mkFacts 1 [(1, 50)] false false true) (OGot 1 51) = false /\
  call_ok (mkFacts 1 [(1, 50)] false false true) OCancelled = false /\
  call_ok (mkFacts 1 [(1, 50)] true false true) OCancelled = true.
Proof. vm_compute. repeat split; reflexivity. Qed.
