(* C19 - live-reload broadcast is reliable and survives client churn.
   Statements only; each is closed by [exact].  The model (model/Sse.v) is the interleaving
   transition system of sse/server.go: [exec old init tr = Some s] says the schedule [tr] (any
   interleaving of clients subscribing, being cancelled, stalling in a write, leaving, Send calls
   started back to back or concurrently, and delivery goroutines running) is executable and leads
   to [s]; old = false is the code as it is, old = true the code before commit a1fd190. *)
From Coq Require Import List Arith Bool.
Import ListNotations.
From V Require Import model.Sse model.SseTransport spec.Browser proofs.SseProof proofs.SseTransportProof.

(* No schedule makes a goroutine panic: no send on a closed channel (Deliver), no second close
   of a channel (Exit).  A panic in any goroutine would end the watch process. *)
Theorem C19_no_panic : forall tr s, exec false init tr = Some s -> panicked s = false.
Proof. exact no_panic. Qed.
Print Assumptions C19_no_panic.

(* regression witness: with the deferred close(events) of the old code the same system panics *)
Lemma C19_old_variant_panics : exists s, exec true init old_trace = Some s /\ panicked s = true.
Proof. exact old_variant_panics. Qed.
(* ... and the code as it is ends that delivery through the done case instead *)
Example C19_ex_fixed_trace : exists s,
  exec false init [Subscribe; Tick 1; SendCall; SendLock 1; SendSpawn; SendUnlock; Cancel 1; WriteOK 1; SeeDone 1; Exit 1; Drop 1 1] = Some s
  /\ panicked s = false /\ pending s = [].
Proof. exact fixed_trace_ok. Qed.

(* Send never waits for a client.  In every reachable state (either variant):
     - a new Send call can start;
     - if the mutex is free, a waiting Send can take it, and then has |registry|+1 steps to do;
     - the Send call that holds the mutex can always take its next step, and each one brings it
       one step closer to Unlock;
     - what it has left to do is at most |registry|+1;
     - while it holds the mutex no other action changes its work list or the registry.
   So whatever the clients do, a Send call returns after exactly |registry|+2 steps of its own,
   waiting in between only for other Send calls, each of which is itself never blocked. *)
Theorem C19_broadcaster_never_blocks : forall old s, reachable old s -> panicked s = false ->
  (exists s', step old s SendCall = Some s' /\ waiting s' = waiting s ++ [next_ev s]) /\
  (forall e, holder s = None -> In e (waiting s) ->
     exists s', step old s (SendLock e) = Some s' /\ hold_work s' = S (length (registered s))) /\
  (forall a, holder_action s = Some a -> exists s', step old s a = Some s' /\ S (hold_work s') = hold_work s) /\
  hold_work s <= S (length (registered s)) /\
  (forall a s', step old s a = Some s' -> holder s <> None -> holder_action s <> Some a ->
     holder s' = holder s /\ registered s' = registered s).
Proof. exact broadcaster_never_blocks. Qed.
Print Assumptions C19_broadcaster_never_blocks.

(* From any reachable state a waiting Send call completes by Send steps alone (no client has to
   move), in a number of steps bounded by the registry size, and without touching any client. *)
Theorem C19_send_completes_alone : forall old s e, reachable old s -> panicked s = false -> In e (waiting s) ->
  exists tr s', exec old s tr = Some s' /\ In e (returned s') /\
    (forall a, In a tr -> is_send_action a = true) /\
    length tr <= hold_work s + 2 + length (registered s) /\
    cl s' = cl s.
Proof. exact send_completes_alone. Qed.
Print Assumptions C19_send_completes_alone.

(* Safety form of "every connected browser receives the event": for every Send, and every client
   in the registry that Send iterated, at every later moment the event has been received by the
   client's handler, or its delivery goroutine is still waiting for the client, or the Send loop
   has not reached the client yet, or the client has left.  It is never lost for a live client. *)
Theorem C19_broadcast_reaches_connected : forall s, reachable false s ->
  forall e snap c, In (e, snap) (log s) -> In c snap ->
    delivered s c e \/ In (c, e) (pending s) \/ in_todo s c e \/ gone s c.
Proof. exact broadcast_reaches_connected. Qed.
Print Assumptions C19_broadcast_reaches_connected.

(* the registry a Send iterates is exactly the set of connected clients when it takes the mutex *)
Lemma C19_snapshot_is_connected : forall s e s', reachable false s -> step false s (SendLock e) = Some s' ->
  In (e, registered s) (log s') /\ forall c, In c (registered s) <-> connected s c.
Proof. exact snapshot_is_connected. Qed.

(* Liveness needs fairness, which Go provides and the model does not assume:
     (F1) a blocked ResponseWriter.Write eventually returns (with or without error);
     (F2) a select whose receive case stays ready eventually takes it (Go picks uniformly among
          ready cases); (F3) runnable goroutines and waiters of the mutex eventually run.
   What is proved: a pending delivery is only ever waiting for its own client - in each state the
   client's next step towards receiving (or leaving) is enabled, and once the client has left the
   done case is enabled.  Under F1-F3 the delivery therefore ends: received, or client gone. *)
Theorem C19_delivery_progress : forall s c e, reachable false s -> In (c, e) (pending s) ->
  match cpc (cl s c) with
  | PNone => False
  | PLoop => exists s', step false s (Deliver c e) = Some s' /\ delivered s' c e
  | PBusy => (exists s', step false s (WriteOK c) = Some s' /\ cpc (cl s' c) = PLoop /\ In (c, e) (pending s')) /\
             (exists s', step false s (WriteErr c) = Some s' /\ cpc (cl s' c) = PExiting)
  | PExiting => holder s = None -> exists s', step false s (Exit c) = Some s' /\ gone s' c
  | PGone => exists s', step false s (Drop c e) = Some s' /\ S (length (pending s')) = length (pending s)
  end.
Proof. exact delivery_progress. Qed.
Print Assumptions C19_delivery_progress.

(* A client still in its loop (however many other clients are stalled, whatever the broadcaster
   does) receives a pending event by its own steps alone: the return of the write it is busy
   with, then the receive. *)
Theorem C19_live_client_can_receive : forall s c e, reachable false s -> In (c, e) (pending s) ->
  cpc (cl s c) = PLoop \/ cpc (cl s c) = PBusy ->
  exists tr s', exec false s tr = Some s' /\ delivered s' c e /\
    (forall a, In a tr -> client_of a = Some c) /\ length tr <= 2.
Proof. exact live_client_can_receive. Qed.
Print Assumptions C19_live_client_can_receive.

(* other clients and the mutex never stand between a delivery and its client *)
Lemma C19_deliver_enabled_iff : forall s c e, reachable false s ->
  (exists s', step false s (Deliver c e) = Some s') <-> (In (c, e) (pending s) /\ cpc (cl s c) = PLoop).
Proof. exact deliver_enabled_iff. Qed.

(* No goroutine leak: once a client has left, each delivery still pending for it can end (its
   done case is enabled and removes exactly that goroutine), and it stays that way until it does:
   no other step revives the client or removes the delivery. *)
Theorem C19_no_leaked_deliveries : forall s c e, reachable false s -> gone s c -> In (c, e) (pending s) ->
  (exists s', step false s (Drop c e) = Some s' /\ pending s' = remove_one (c, e) (pending s) /\
              S (length (pending s')) = length (pending s)) /\
  (forall a s1, step false s a = Some s1 -> a <> Drop c e -> gone s1 c /\ In (c, e) (pending s1)).
Proof. exact no_leaked_deliveries. Qed.
Print Assumptions C19_no_leaked_deliveries.

(* When nothing is in flight, every event has been received by every client of its snapshot that
   is still there. *)
Theorem C19_quiescent_all_delivered : forall s, reachable false s -> pending s = [] -> holder s = None ->
  forall e snap c, In (e, snap) (log s) -> In c snap -> delivered s c e \/ gone s c.
Proof. exact quiescent_all_delivered. Qed.
Print Assumptions C19_quiescent_all_delivered.

(* a client only receives events that were broadcast while it was registered *)
Theorem C19_no_spurious_event : forall s, reachable false s ->
  forall c e, delivered s c e -> exists snap, In (e, snap) (log s) /\ In c snap.
Proof. exact no_spurious_event. Qed.
Print Assumptions C19_no_spurious_event.

(* The harness's acceptor: a history of observations the monitor accepts is a model execution,
   so all of the above applies to the state it ends in; if that state is quiescent every event
   reached every remaining client of its snapshot. *)
Theorem C19_accepted_quiescent_delivered : forall h s, monitor init 0 h = inl s -> quiescentb s = true ->
  panicked s = false /\
  forall e snap c, In (e, snap) (log s) -> In c snap -> delivered s c e \/ gone s c.
Proof. exact accepted_quiescent_delivered. Qed.
Print Assumptions C19_accepted_quiescent_delivered.

(* ---- a stalled client is not a disconnected one ----
   A client whose response write does not return (the browser neither reads nor goes away) stays
   connected and registered: cpc = PBusy, its done channel stays open, so deliveries to it stay
   pending.  "It blocks nobody" is stated through the handler being AT REST ([stableb]: no Send in
   progress, every pending delivery is for a client stalled in a write, no client goroutine has a
   step of its own left):
     - at rest is exactly "no goroutine of the handler has an enabled step" (so, under F2/F3, the
       handler comes to rest only in such states, however long the stalled writes last);
     - no step of the handler reads or needs a client that is stalled in a write;
     - the handler reaches rest by its own steps alone, in a bounded number of them;
     - at rest, the only clients that lack an event broadcast while they were registered are those
       that are themselves stalled in a write (the delivery still waits for them) or have left;
       every client sitting in its select has received it. *)
Theorem C19_stable_iff_handler_at_rest : forall s, reachable false s ->
  (stableb s = true <-> forall a, handler_step a = true -> step false s a = None).
Proof. exact stable_iff_handler_at_rest. Qed.
Print Assumptions C19_stable_iff_handler_at_rest.

Theorem C19_handler_steps_need_no_stalled_client : forall s a s', reachable false s ->
  handler_step a = true -> step false s a = Some s' ->
  forall c, touches a = Some c -> cpc (cl s c) <> PBusy.
Proof. exact handler_steps_need_no_stalled_client. Qed.
Print Assumptions C19_handler_steps_need_no_stalled_client.

(* No deadlock, no livelock of the handler, stalled clients notwithstanding: from every reachable
   state the handler's own goroutines reach rest in at most [rest_bound s] steps without a single
   environment step (no stalled write has to return, no client has to go away), leaving the clients
   stalled in a write exactly as they were; and no run of handler steps is longer than that. *)
Theorem C19_handler_comes_to_rest : forall s, reachable false s ->
  exists tr s', exec false s tr = Some s' /\ stableb s' = true /\
    (forall a, In a tr -> handler_step a = true) /\ length tr <= rest_bound s /\
    (forall c, cpc (cl s c) = PBusy -> cl s' c = cl s c).
Proof. exact handler_comes_to_rest. Qed.
Print Assumptions C19_handler_comes_to_rest.

Theorem C19_handler_runs_terminate : forall tr s s', reachable false s -> exec false s tr = Some s' ->
  (forall a, In a tr -> handler_step a = true) -> length tr + rest_bound s' <= rest_bound s.
Proof. exact handler_runs_terminate. Qed.
Print Assumptions C19_handler_runs_terminate.

Theorem C19_stalled_clients_hold_up_nobody : forall s, reachable false s -> stableb s = true ->
  forall e snap c, In (e, snap) (log s) -> In c snap ->
    (delivered s c e \/ gone s c \/ (cpc (cl s c) = PBusy /\ In (c, e) (pending s))) /\
    (cpc (cl s c) = PLoop -> delivered s c e).
Proof. exact stable_all_delivered. Qed.
Print Assumptions C19_stalled_clients_hold_up_nobody.

(* The harness's judgement at the points where it saw the real handler come to rest (OSettled):
   [audit] returns the monitor's state at each of them; if [stableb] holds there, every healthy
   client has every broadcast of its snapshot.  A settle point where [stableb] is false with a
   delivery pending for a client in its select is reported as a violation of the property. *)
Theorem C19_settled_points_judged : forall h i s, In (i, s) (audit init 0 h) ->
  nth_error h i = Some OSettled /\ monitor init 0 (firstn (S i) h) = inl s /\ reachable false s /\
  (stableb s = true ->
     forall e snap c, In (e, snap) (log s) -> In c snap ->
       (delivered s c e \/ gone s c \/ (cpc (cl s c) = PBusy /\ In (c, e) (pending s))) /\
       (cpc (cl s c) = PLoop -> delivered s c e)).
Proof. exact settled_points_judged. Qed.
Print Assumptions C19_settled_points_judged.

(* non-vacuity: client 1 stalled in the write of its first ping, client 2 healthy; two broadcasts;
   the handler is at rest with both deliveries to client 1 pending and client 2 served *)
Example C19_ex_stalled_and_healthy : exists s,
  exec false init [Subscribe; Tick 1; Subscribe; SendCall; SendLock 1; SendSpawn; SendSpawn; SendUnlock;
                   Deliver 2 1; WriteOK 2; SendCall; SendLock 2; SendSpawn; SendSpawn; SendUnlock; Deliver 2 2; WriteOK 2] = Some s /\
  stableb s = true /\ got (cl s 2) = [1; 2] /\ cpc (cl s 1) = PBusy /\ pending s = [(1, 1); (1, 2)] /\ registered s = [2; 1].
Proof. eexists. split; [vm_compute; reflexivity | repeat split]. Qed.
(* ... and a state that is NOT at rest: the healthy client 2 has not been served yet *)
Example C19_ex_not_at_rest : exists s,
  exec false init [Subscribe; Tick 1; Subscribe; SendCall; SendLock 1; SendSpawn; SendSpawn; SendUnlock] = Some s /\
  stableb s = false /\ held_up s = [(2, 1)].
Proof. eexists. split; [vm_compute; reflexivity | split; reflexivity]. Qed.
Example C19_ex_audit : map fst (audit init 0 [OSub 1; OWrite 1 0; OSettled; OSub 2; OWrite 2 0; ORelease 2 true; OSettled;
                                               OSend 1; OSendEnd 1; OWrite 2 1; ORelease 2 true; OSettled]) = [2; 6; 11]
  /\ forallb (fun p => stableb (snd p)) (audit init 0 [OSub 1; OWrite 1 0; OSettled; OSub 2; OWrite 2 0; ORelease 2 true; OSettled;
                                               OSend 1; OSendEnd 1; OWrite 2 1; ORelease 2 true; OSettled]) = true.
Proof. split; vm_compute; reflexivity. Qed.

(* non-vacuity: a schedule with two clients, one stalled in a write and cancelled while two
   broadcasts are in flight, the other receiving both *)
Definition ex_trace : list action :=
  [Subscribe; Subscribe; Tick 1; SendCall; SendCall; SendLock 2; SendSpawn; SendSpawn; SendUnlock;
   SendLock 1; SendSpawn; SendSpawn; SendUnlock; Deliver 2 1; WriteOK 2; Deliver 2 2; Cancel 1; WriteErr 1; Exit 1;
   Drop 1 1; Drop 1 2; WriteOK 2].
Example C19_ex_reachable : exists s, exec false init ex_trace = Some s /\
  got (cl s 2) = [1; 2] /\ got (cl s 1) = [] /\ cpc (cl s 1) = PGone /\ pending s = [] /\ registered s = [2] /\
  log s = [(2, [2; 1]); (1, [2; 1])] /\ returned s = [2; 1].
Proof. eexists. split; [vm_compute; reflexivity | repeat split]. Qed.
Example C19_ex_pending_live : exists s, exec false init [Subscribe; Tick 1; SendCall; SendLock 1; SendSpawn; SendUnlock] = Some s /\
  In (1, 1) (pending s) /\ cpc (cl s 1) = PBusy /\ In 1 (returned s).
Proof. eexists. split; [vm_compute; reflexivity | cbn; auto]. Qed.
Example C19_ex_monitor : exists s,
  monitor init 0 [OSub 1; OWrite 1 0; OSend 1; OSendEnd 1; ORegCount 1; OCancel 1; ORelease 1 true; OExited 1; ORegCount 0] = inl s
  /\ quiescentb s = true.
Proof. eexists. split; [vm_compute; reflexivity | reflexivity]. Qed.
Example C19_ex_monitor_rejects : monitor init 0 [OSub 1; OWrite 1 0; ORelease 1 true; OWrite 1 5] = inr 3.
Proof. vm_compute. reflexivity. Qed.

(* ---- the broadcast as the BROWSER experiences it: the handler behind the server it is served from ----
   model/SseTransport.v puts the handler behind an HTTP server with a clock.  What the delivery
   theorems above leave to the environment ("a blocked write eventually returns, with or without an
   error") is settled there by the transport: a write to a browser that is still there fails only if
   the connection has a write deadline ([wdl], http.Server.WriteTimeout; net/http arms it once, when
   the request headers are read) and that deadline has passed.  [left ts c] says the browser itself
   closed the stream; [bgot ts c] is what the browser has read.

   Without a write deadline (http.ListenAndServe, what StartProxy uses - the harness checks it by a
   static scan and, end to end, by observed delivery to connections of every age): the server side
   never ends the stream of a browser that has not left - its handler stays in its loop, registered,
   its context alive - whatever the clock says ... *)
Theorem C19_transport_keeps_browser : forall cfg ts c, wdl cfg = None -> treachable cfg ts ->
  left ts c = false -> cpc (cl (base ts) c) <> PNone ->
  (cpc (cl (base ts) c) = PLoop \/ cpc (cl (base ts) c) = PBusy) /\
  cancelled (cl (base ts) c) = false /\ In c (registered (base ts)).
Proof. exact transport_keeps_browser. Qed.
Print Assumptions C19_transport_keeps_browser.

(* ... and once nothing is in flight, every browser that has not left and is not in the middle of a
   write HAS READ every reload whose Send iterated a registry holding it. *)
Theorem C19_transport_browser_has_every_event : forall cfg ts, wdl cfg = None -> treachable cfg ts ->
  pending (base ts) = [] -> holder (base ts) = None ->
  forall e snap c, In (e, snap) (log (base ts)) -> In c snap ->
    left ts c = false -> cpc (cl (base ts) c) <> PBusy -> In e (bgot ts c).
Proof. exact transport_browser_has_every_event. Qed.
Print Assumptions C19_transport_browser_has_every_event.

(* With a write deadline d the property is false, for every d: once a connection is d ticks old
   ([past_deadline]) it stays so and its browser never reads anything again, whatever happens - every
   later reload is lost for it although it never left. *)
Theorem C19_write_deadline_starves_old_connections : forall cfg d, wdl cfg = Some d ->
  forall tr ts ts' c, texec cfg ts tr = Some ts' -> past_deadline d ts c ->
    past_deadline d ts' c /\ bgot ts' c = bgot ts c.
Proof. exact transport_deadline_starves. Qed.
Print Assumptions C19_write_deadline_starves_old_connections.

(* the seeded situation as a schedule of the model (write deadline 10 ticks): the browser never left, the
   Send iterated a registry that held it, nothing is in flight, and it has not read the event *)
Lemma C19_write_deadline_refuted : exists ts,
  texec {| wdl := Some 10 |} tinit deadline_trace = Some ts /\
  left ts 1 = false /\ log (base ts) = [(1, [1])] /\ quiescentb (base ts) = true /\ cpc (cl (base ts) 1) = PGone /\
  bgot ts 1 = [] /\ unserved ts = [(1, 1)].
Proof. exact deadline_loses_event. Qed.
Example C19_ex_no_deadline_delivers : exists ts,
  texec {| wdl := None |} tinit [Act Subscribe; Act (Tick 1); Act (WriteOK 1); Advance 10; Act SendCall; Act (SendLock 1); Act SendSpawn;
                                 Act SendUnlock; Act (Deliver 1 1); Act (WriteOK 1)] = Some ts /\
  bgot ts 1 = [1] /\ unserved ts = [] /\ cpc (cl (base ts) 1) = PLoop.
Proof. exact no_deadline_delivers. Qed.

(* every timed execution is an execution of the handler model, so everything proved above about
   [reachable false] states applies to [base ts] *)
Lemma C19_transport_refines_handler : forall cfg ts, treachable cfg ts -> reachable false (base ts).
Proof. exact treachable_base. Qed.

(* The end-to-end acceptor: a browser-side history (what real HTTP clients of the proxy started by
   StartProxy saw, rendered as timed observations) that [tmonitor] accepts for a transport without
   write deadline is a timed execution; if it ends with nothing in flight and no write in progress,
   [unserved] - the (browser, event) pairs of browsers that have not left and have not read an event
   whose Send iterated a registry holding them - is empty.  A stream the server side ended for a
   browser that had not left is not accepted: no step of the model produces it. *)
Theorem C19_transport_accepted_served : forall cfg h ts, wdl cfg = None -> tmonitor cfg tinit 0 h = inl ts ->
  treachable cfg ts /\
  (quiescentb (base ts) = true -> (forall c, left ts c = false -> cpc (cl (base ts) c) <> PBusy) -> unserved ts = []).
Proof. exact transport_accepted_served. Qed.
Print Assumptions C19_transport_accepted_served.
Example C19_ex_tmonitor_rejects_cut :
  tmonitor {| wdl := None |} tinit 0 [TO (OSub 1); TO (OWrite 1 0); TO (ORelease 1 true); TAdv 100; TO (OWrite 1 0); TO (ORelease 1 false)] = inr 5.
Proof. vm_compute. reflexivity. Qed.

(* The specification the end-to-end histories are judged by (spec/Browser.v, written without reference
   to the model): a history of browsers opening their stream, leaving by themselves, reloads being
   broadcast, browsers reading events, streams being cut by the server side; [owed] is what is
   outstanding after it - a cut discharges nothing.  [tview] is what the browsers see of a timed
   execution.  Behind a server without write deadline every execution that ends with nothing in
   flight and no write in progress shows the browsers a history that satisfies the specification:
   every browser present when a reload was broadcast, and that has not left since, has read it. *)
Theorem C19_transport_satisfies_browser_spec : forall cfg tr ts, wdl cfg = None -> texec cfg tinit tr = Some ts ->
  quiescentb (base ts) = true -> (forall c, left ts c = false -> cpc (cl (base ts) c) <> PBusy) ->
  browsers_served (tview cfg tinit tr).
Proof. exact transport_satisfies_browser_spec. Qed.
Print Assumptions C19_transport_satisfies_browser_spec.
(* ... and with a write deadline the seeded schedule shows them one that violates it *)
Lemma C19_write_deadline_view_violates_spec :
  tview {| wdl := Some 10 |} tinit deadline_trace = [BOpen 1; BBroadcast 1; BCut 1] /\
  owed (brun (tview {| wdl := Some 10 |} tinit deadline_trace)) = [(1, 1)].
Proof. exact deadline_view_violates_spec. Qed.
Example C19_ex_browser_spec_served :
  owed (brun [BOpen 1; BOpen 2; BBroadcast 1; BRecv 2 1; BRecv 1 1; BLeave 2; BBroadcast 2; BRecv 1 2]) = [].
Proof. vm_compute. reflexivity. Qed.
Example C19_ex_browser_spec_cut :
  owed (brun [BOpen 1; BOpen 2; BBroadcast 1; BRecv 2 1; BRecv 1 1; BCut 1; BBroadcast 2; BRecv 2 2]) = [(1, 2)].
Proof. vm_compute. reflexivity. Qed.
